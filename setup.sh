#!/bin/sh
# Build /verif/.venv offline: python 3.12 venv on top of /venv's site-packages (lxml, odfdo
# editable from /repo/src) plus z3-solver / cvc5 / deal / icontract / crosshair from the wheelhouse.
set -e
cd "$(dirname "$0")"
if [ -x .venv/bin/python ] && .venv/bin/python -c "import z3, lxml, odfdo" 2>/dev/null; then
  exit 0
fi
rm -rf .venv
/venv/bin/python -m venv .venv
PIP_NO_INDEX=1 .venv/bin/python -m pip install -q --no-index --find-links /opt/veriftools/wheels \
   z3-solver cvc5 deal icontract crosshair-tool jsonschema >/dev/null
SP=$(.venv/bin/python -c "import sysconfig; print(sysconfig.get_paths()['purelib'])")
echo "import site; site.addsitedir('/venv/lib/python3.12/site-packages')" > "$SP/zz_repo_venv.pth"
.venv/bin/python -c "import z3, lxml, odfdo, sys; print('setup ok', z3.get_version_string(), odfdo.__file__)"
