#!/usr/bin/env python3
"""pyvc.effects -- static effect (frame) inference for odfdo (property C15).

Goal: prove, function by function, the frame condition

    modifies(XML trees of the document) = {}

for the read-only entry points of the library.  The analysis is modular: every
function gets a *summary* (its contract); a caller is checked against the
summaries of its callees, never against their bodies; summaries are the least
fixpoint over the call graph.  Everything is recomputed from the AST of
<src_root> on every run ($PYVC_REPO/src/odfdo if PYVC_REPO is set, else
/repo/src/odfdo); odfdo itself is never imported.

Summary of a function (per specialisation, see below)
    effects   set of *origins* whose XML tree the function may write to:
                self             tree reachable from the receiver
                arg:<p>          tree reachable from parameter <p>
                global           tree reachable from module-level state (MD_GLOBAL)
                outer:<o>        (nested functions) origin <o> of the enclosing function
                fresh            freshly built tree (deepcopy, fromstring, clone,
                                 Element.from_tag("<tag>"), constructors): allowed
                unknown-call:<n> a call that could not be resolved
              every effect carries a witness (base-fact write, or call + callee
              effect) from which the call chain of a verdict is rebuilt
    ret       abstract value of the result: origins, type tags, item type tags,
              constness (None / True / False / not-None / string constant)
    captures  o -> {o'}: after the call, Python objects of origin o may hold
              references into o' (stored in a field, appended to a list ...);
              keeps "fresh" honest across calls
    gwrites   names of module-level Python state written (MD_GLOBAL,
              _class_registry), kept apart: this is not an XML effect;
              `Analysis.global_writes[f]["restored_in_finally"]` tells whether all
              the writes sit in a try whose finally writes the same global (today:
              never, MDDocument._markdown_export resets MD_GLOBAL without finally)

Base facts (writes to the lxml tree)
    * assignment / augmented assignment / delete of ANY attribute of an lxml node
      (.text .tail .tag ...), node[...] = / del node[...]
    * node.set/append/insert/remove/clear/extend/addnext/addprevious/replace/
      __setitem__/__delitem__ ; for the inserting ones the inserted nodes are
      written too (lxml *moves* a node out of its former tree)
    * del node.attrib[...], node.attrib[...] = , node.attrib.pop/clear/update/
      setdefault/popitem
    * etree.strip_tags/strip_elements/strip_attributes/cleanup_namespaces/indent/
      SubElement
    * the same operations on a receiver of unknown type that may reach a tree
    `tostring`, `xpath`, `XPath.__call__`, `get`, `getparent`, iteration ... are
    reads; a method of an lxml node outside the known read/write lists is an
    unknown-call.  (`analyze(strict_tostring=True)` / `--strict-tostring` treats
    `tostring` as a potential writer; only used by the self test.)
    The lxml node of an Element is `self._Element__element` (`self.__element`
    inside class Element, name mangling is applied); values derived from it
    (getparent, iteration, xpath results, smart strings) keep its origin.

Abstract interpretation of one function
    Flow-SENSITIVE on local variables (strong updates, joins at branches, loop
    fixpoints, dead code after return/raise; needed for
    `cell = cell.clone; cell.repeated = None` in Row.traverse), with constant
    propagation of None/True/False and isinstance / `is None` refinement.  A
    summary is keyed by (function, frozenset of (parameter, constant)) for the
    parameters the callee tests or forwards, so `Element.replace(pattern)`
    (new=None) is specialised pure while `replace(pattern, new)` is not; string
    constants are propagated only into getattr/setattr names.  Constructors of
    Element subclasses are analysed under the flag @wrap (called with
    tag_or_elem=: `self._do_init` is False, the receiver IS the live node) or @new:
    the `_do_init` protocol is not assumed, the `__init__` bodies are analysed.
    Variables copied syntactically (`b = a`, `b = a.x`) form alias groups for the
    capture/taint bookkeeping.

Call resolution
    self.m()      class hierarchy analysis: for the static receiver class C, m is
                  looked up through the MRO of C and of every subclass of C in the
                  code base (a mixin method sees the methods of its users)
    obj.m()       typed receiver: as above / builtin / lxml; receiver of unknown
                  type: every method named m in ANY class of the code base (more
                  conservative than "Element subclasses only") plus the lxml base
                  fact if m is an lxml writer; a name that is neither in the code
                  base nor in the builtin/stdlib/lxml vocabulary: unknown-call
    obj.p         property of the code base (incl. the PropDef generated ones):
                  call of the getter; obj.p = v: call of the setter
    str(x), f"{x}", repr(x), ==, <, len, iteration: the dunder methods of the code
                  base; Element.clone.fget(self); super().m(); cls(...) /
                  _class_registry.get(...)(...) = constructors of all subclasses
    f(x), f a variable: function / class references are type tags tracked through
                  returns, parameters (union over the call sites), fields, dicts.
    Python-side state (self._indexes, _tmap/_cmap/_rmap, lazily parsed parts in
    dicts, the context dict of get_formatted_text, MD_GLOBAL) is not an XML
    mutation.

Whole program
    Roots (arbitrary arguments): every public or dunder method / property of every
    class, the functions exported by odfdo/__init__.py, the module top levels.
    Private helpers are analysed under the specialisations their callers use.
    Three global tables grow during the fixpoint: field types (by attribute name),
    parameter types (callables and container items from the call sites; all types
    for private functions), keys of module-level dicts.  Because a summary computed
    against incomplete tables may contain stale effects, all summaries are
    recomputed from bottom in phases until a whole phase leaves the tables
    unchanged: first with optimistic defaults (empty container = nothing inside),
    then with pessimistic ones (empty container / never-called parameter =
    anything).  The result is the least fixpoint w.r.t. the final tables.

Assumptions (trusted base)
    * closed world: the code under <src_root>, no monkey patching, no subclasses
      or callables supplied from outside; dict/list/callable ARGUMENTS contain the
      kinds of values the code base itself passes at its call sites
    * parameter and return annotations naming primitives, containers of
      primitives, code-base classes, XPath, _Element, and local declarations
      `var: Class`, are upper bounds of the run-time types (never used to drop an
      origin, except for int/bool/bytes/None/Decimal/datetime parameters and
      results, from which no tree is reachable: an lxml smart string is a str)
    * the lxml base-fact list above is complete; stdlib/builtin functions do not
      call back into odfdo except through the modelled protocols (str, repr,
      format, comparison, iteration, key=/callback arguments)
    * setattr(obj, name, v) with name drawn from an `x.__dict__` is a field-wise
      copy; plain-data fields (ints, strings, lists of ints) reach no tree
    * aliasing of local containers is tracked only for syntactic copies
    * exceptions are not tracked (a write before a raise is still a write)
    * container *bytes* parts (Container.set_part) are outside this analysis.

Results (measured by the run, see `report()`)
    Current tree (after the "fix:" commits): 307 entry points, 304 pure,
    3 may-mutate, 0 unknown, one run of ~25 s, nothing assumed.  The three are
    genuine (confirmed by native replay): Element.get_variable_decls /
    get_user_field_decls create the container they look for; Table.get_cell(
    clone=False, keep_repeated=False) clears `repeated` on the live cell (pure
    with default arguments).  Row.minimized_width only rebuilds Python caches:
    XML-pure.
    History: on the tree before the fixes the same analysis gave 60 pure / 247
    may-mutate because of two genuine defects it exposed (F1: MDTable._md_format
    called optimize_width() on the live table, reached from str() of anything
    containing a list item; F2: MetaAutoReload/MetaTemplate.__init__ wrote
    attributes when wrapping an existing node, i.e. in every from_tag) plus
    XmlPart.serialize(pretty=True) indenting the live tree; all fixed upstream.
    A what-if run (`assume_pure=` / --assume-removed) is still available but the
    default run has none.
    Precision note: a receiver of unknown type resolves `.clone` to every `clone`
    getter including Document.clone; when Document.clone started to push
    `part.serialize()` (bytes) into the fresh container, the bytes carried the
    origin of the document (every value could be an lxml smart string), the result
    of `x.clone` stopped being fresh-only and `cell = cell.clone; cell.repeated =
    None` in Row.traverse looked like a live write (and fed itself through
    Document.clone -> ... -> Table.get_formatted_text -> Row.traverse).  Fixed
    soundly twice: bytes/int/bool/None-annotated results carry no origin (a smart
    string is a str), and a local declaration `cell: Cell` is honoured as the upper
    bound of the variable so that only Cell.clone / Element.clone are candidates.

Self-test mutants (tools/effects_selftest.py, through tools/mutrun.py; default
run, nothing assumed)
    (a) table.py `_get_formatted_text_rst`: `table = self.clone` -> `table = self`
        FLIPS  Table.get_formatted_text  pure -> may-mutate (rstrip on the live table)
    (b) element.py `serialize`: `native = deepcopy(self.__element)` ->
        `native = self.__element`
        DOES NOT FLIP: serialize only calls `tostring(native, ...)`, it neither
        strips nor cleans the tree, the mutant is still read-only; it FLIPS under
        --strict-tostring.
    (c) element.py `replace`: a write `text.parent.text = ""` added to the
        `new is None` branch
        FLIPS  Element.replace[new=None]  pure -> may-mutate.
"""

from __future__ import annotations

import argparse
import ast
import json
import os
import sys
import time
from collections import defaultdict, deque

FS = frozenset
EMPTY: frozenset = frozenset()

# --------------------------------------------------------------------------- values

NOTNONE = ("True", "False", "NN")


def notnone(c):
    return c in NOTNONE or c.startswith("s:")


class AV:
    """Abstract value: origins, type tags, item type tags, constness."""

    __slots__ = ("o", "t", "i", "c")

    def __init__(self, o=EMPTY, t=EMPTY, i=EMPTY, c=""):
        self.o = o if isinstance(o, frozenset) else FS(o)
        self.t = t if isinstance(t, frozenset) else FS(t)
        self.i = i if isinstance(i, frozenset) else FS(i)
        self.c = c

    def key(self):
        return (self.o, self.t, self.i, self.c)

    def __eq__(self, other):
        return isinstance(other, AV) and self.key() == other.key()

    def __hash__(self):
        return hash(self.key())

    def __repr__(self):
        return f"AV(o={sorted(self.o)}, t={sorted(self.t)}, i={sorted(self.i)}, c={self.c!r})"

    def is_bot(self):
        return not self.o and not self.t and not self.i and not self.c

    def add_o(self, o):
        if not o or o <= self.o:
            return self
        return AV(self.o | o, self.t, self.i, self.c)


BOT = AV()
PRIM = AV(t={"prim"})
UNK = AV(t={"?"})


def join(a, b):
    if a is None or a.is_bot():
        return b if b is not None else BOT
    if b is None or b.is_bot() or a is b:
        return a
    if a.c == b.c:
        c = a.c
    elif notnone(a.c) and notnone(b.c):
        c = "NN"
    else:
        c = ""
    return AV(a.o | b.o, a.t | b.t, a.i | b.i, c)


def joinall(avs):
    r = BOT
    for a in avs:
        r = join(r, a)
    return r


def prim_only(av):
    return bool(av.t) and av.t <= {"prim"}


PESSIMISTIC_ITEMS = [False]


def item_of(av):
    """Abstract value of an element of `av` (iteration / subscript)."""
    t = set()
    for tag in av.t:
        if tag == "cont":
            # no recorded item: optimistic warm-up phases assume nothing was put
            # in yet; the final (pessimistic) phases assume anything may be inside
            # (a callee may have filled the container)
            t |= av.i if (av.i or not PESSIMISTIC_ITEMS[0]) else {"?"}
        elif tag == "lxml":
            t.add("lxml")
        elif tag in ("prim", "attrib"):
            t.add("prim")
        elif tag == "std":
            t |= av.i if av.i else {"prim"}
        else:
            t.add("?")
    return AV(av.o, t, EMPTY, "")


def join_env(e1, e2):
    if e1 is None:
        return e2
    if e2 is None:
        return e1
    if e1 is e2:
        return e1
    r = dict(e1)
    for k, v in e2.items():
        if k in r:
            if r[k] is not v:
                r[k] = join(r[k], v)
        else:
            r[k] = v
    return r


def env_eq(e1, e2):
    if e1 is None or e2 is None:
        return e1 is e2
    if e1.keys() != e2.keys():
        return False
    return all(e1[k] == e2[k] for k in e1)


# --------------------------------------------------------------------------- vocabularies

LXML_WRITE = {
    "set", "append", "insert", "remove", "clear", "extend", "addnext",
    "addprevious", "replace", "__setitem__", "__delitem__",
}
LXML_MOVE = {"append", "insert", "extend", "addnext", "addprevious", "replace", "__setitem__"}
LXML_NODE = {"getparent", "getnext", "getprevious", "getroottree", "getroot", "find"}
LXML_LIST = {
    "xpath", "iterchildren", "iterdescendants", "iter", "findall", "getchildren",
    "iterancestors", "itersiblings", "itertext", "iterfind", "evaluate",
}
LXML_PRIM = {"get", "index", "findtext", "getpath", "keys", "values", "items", "getelementpath"}
LXML_FRESH = {"makeelement", "__copy__", "__deepcopy__"}
ATTRIB_WRITE = {"pop", "clear", "update", "setdefault", "popitem", "__setitem__", "__delitem__"}
ETREE_WRITE = {
    "strip_tags", "strip_elements", "strip_attributes", "cleanup_namespaces",
    "indent", "SubElement",
}
ETREE_FRESH = {"fromstring", "parse", "XML", "Element", "ElementTree", "fromstringlist", "HTML"}
CONT_MUT = {"append", "extend", "insert", "add", "update", "setdefault", "appendleft", "extendleft"}
CONT_ITEM = {"pop", "get", "setdefault", "popitem", "popleft", "__getitem__"}
CONT_SAME = {"copy", "items", "keys", "values", "union", "difference", "intersection"}
PRIM_CONT = {
    "split", "rsplit", "splitlines", "partition", "rpartition", "items", "keys",
    "values", "findall", "groups", "timetuple", "as_tuple",
}


def _known_read_names():
    import csv
    import datetime
    import decimal
    import io
    import pathlib
    import re
    import zipfile

    names = set()
    for ty in (str, bytes, int, float, list, dict, set, frozenset, tuple, bytearray,
               io.StringIO, io.BytesIO, pathlib.Path, pathlib.PurePath,
               datetime.datetime, datetime.date, datetime.time, datetime.timedelta,
               decimal.Decimal, zipfile.ZipFile, zipfile.ZipInfo, type(re.compile("a")),
               type(re.match("a", "a")), deque, type(x for x in ()), type(iter([])),
               type(csv.writer(io.StringIO())), type(csv.reader(io.StringIO()))):
        names |= set(dir(ty))
    names |= LXML_NODE | LXML_LIST | LXML_PRIM | LXML_FRESH
    names |= {"is_text", "is_tail", "has_key", "iteritems", "iterkeys", "itervalues",
              "cache_clear", "cache_info", "fget", "fset", "hexdigest", "digest",
              "joinpath", "as_file", "files", "from_iterable", "writerow", "writerows"}
    return names - LXML_WRITE - (CONT_MUT - {"update"}) | {"update"}


KNOWN_READ = _known_read_names()

BUILTIN_PRIM = {
    "len", "bool", "int", "float", "isinstance", "issubclass", "hasattr", "id",
    "callable", "abs", "round", "ord", "chr", "hash", "divmod", "pow", "bytes",
    "hex", "oct", "bin", "ascii", "input", "complex", "bytearray",
}
BUILTIN_STR = {"str", "repr", "format", "print"}
BUILTIN_CONT = {
    "list", "tuple", "set", "frozenset", "sorted", "reversed", "iter", "enumerate",
    "zip", "dict", "filter", "map", "range", "vars", "dir", "slice",
}
BUILTIN_ITEM = {"max", "min", "next", "sum", "any", "all"}
BUILTIN_UNKNOWN = {"exec", "eval", "compile", "__import__", "globals", "locals"}
BUILTIN_EXC = {
    "Exception", "ValueError", "TypeError", "KeyError", "IndexError", "AttributeError",
    "RuntimeError", "NotImplementedError", "OSError", "FileNotFoundError",
    "StopIteration", "AssertionError", "IOError", "UnicodeDecodeError", "ZeroDivisionError",
    "ArithmeticError", "LookupError", "NameError", "BaseException", "DeprecationWarning",
    "FileExistsError", "OverflowError", "UnicodeError", "PermissionError", "Warning",
}
ALL_BUILTINS = set(dir(__import__("builtins")))

PRIM_ANN = {
    "str", "int", "bool", "float", "bytes", "None", "NoneType", "Decimal", "datetime",
    "date", "time", "timedelta", "complex", "dtdate", "dtime",
}
CONT_ANN = {
    "list", "dict", "tuple", "set", "frozenset", "Iterable", "Iterator", "Sequence",
    "Mapping", "Generator", "List", "Dict", "Tuple", "Set", "Collection", "MutableMapping",
    "MutableSequence", "deque",
}

READ_NAMES = {
    "match", "text_at", "serialize", "to_markdown", "to_csv", "get_formatted_text",
    "__str__", "__repr__", "as_dict", "as_json", "as_text", "show_styles", "is_empty",
    "clone", "replace",
}
READ_PREFIXES = ("get_", "search", "is_")
EXCL_PREFIXES = (
    "set_", "insert", "append", "delete", "del_", "add_", "remove", "clear", "strip",
    "rstrip", "optimize", "transpose", "merge", "save", "extend", "fill",
)
ENTRY_CLASSES = [
    "Document", "Body", "Element", "Table", "Row", "Cell", "Column", "Meta", "Manifest",
    "XmlPart", "Content", "Styles", "Paragraph", "Header", "Span", "TOC", "Frame", "List",
    "Note", "Annotation",
]


# --------------------------------------------------------------------------- program model


class ModuleInfo:
    def __init__(self, name, path, tree, is_pkg):
        self.name, self.path, self.tree, self.is_pkg = name, path, tree, is_pkg
        self.ns: dict = {}
        self.pkg = name if is_pkg else name.rpartition(".")[0]


class PropInfo:
    def __init__(self, name, cls):
        self.name, self.cls = name, cls
        self.fget = None
        self.fset = None


class Member:
    def __init__(self, kind, fi=None, prop=None, node=None):
        self.kind, self.fi, self.prop, self.node = kind, fi, prop, node


class ClassInfo:
    def __init__(self, q, name, module, node):
        self.q, self.name, self.module, self.node = q, name, module, node
        self.bases: list = []
        self.ext_bases: list = []
        self.members: dict = {}
        self.mro: list = []
        self.subs: set = set()

    def __repr__(self):
        return f"<class {self.q}>"


class FuncInfo:
    def __init__(self, q, name, module, cls, node, kind, parent=None):
        self.q, self.name, self.module, self.cls = q, name, module, cls
        self.node, self.kind, self.parent = node, kind, parent
        self.pos: list = []
        self.kwonly: list = []
        self.vararg = self.kwarg = None
        self.defaults: dict = {}
        self.ann: dict = {}
        self.nested: dict = {}
        self.relevant: set = set()
        self.body = []
        if node is not None and not isinstance(node, ast.Module):
            a = node.args
            self.pos = [x.arg for x in a.posonlyargs + a.args]
            self.kwonly = [x.arg for x in a.kwonlyargs]
            self.vararg = a.vararg.arg if a.vararg else None
            self.kwarg = a.kwarg.arg if a.kwarg else None
            allpos = a.posonlyargs + a.args
            for arg, d in zip(allpos[len(allpos) - len(a.defaults):], a.defaults):
                self.defaults[arg.arg] = d
            for arg, d in zip(a.kwonlyargs, a.kw_defaults):
                if d is not None:
                    self.defaults[arg.arg] = d
            for arg in allpos + a.kwonlyargs + [x for x in (a.vararg, a.kwarg) if x]:
                if arg.annotation is not None:
                    self.ann[arg.arg] = arg.annotation
            self.body = node.body
            self.relevant = _relevant_params(node, set(self.pos + self.kwonly))
        elif isinstance(node, ast.Module):
            self.body = node.body

    @property
    def self_name(self):
        return self.pos[0] if self.kind == "method" and self.pos else None

    def origin_of(self, p):
        return "self" if p == self.self_name else f"arg:{p}"

    def __repr__(self):
        return f"<func {self.q}>"


def _relevant_params(node, params):
    """Parameters whose None/bool value may select a branch: tested, or forwarded
    as a bare argument to another call."""
    rel = set()

    def names_in_test(t):
        if isinstance(t, ast.Name):
            if t.id in params:
                rel.add(t.id)
        elif isinstance(t, ast.UnaryOp):
            names_in_test(t.operand)
        elif isinstance(t, ast.BoolOp):
            for v in t.values:
                names_in_test(v)
        elif isinstance(t, ast.Compare):
            names_in_test(t.left)
            for c in t.comparators:
                names_in_test(c)
        elif isinstance(t, ast.BinOp):
            names_in_test(t.left)
            names_in_test(t.right)

    for n in ast.walk(node):
        if isinstance(n, (ast.If, ast.While, ast.IfExp, ast.Assert)):
            names_in_test(n.test)
        elif isinstance(n, ast.BoolOp):
            names_in_test(n)
        elif isinstance(n, ast.comprehension):
            for t in n.ifs:
                names_in_test(t)
        elif isinstance(n, ast.Call):
            if isinstance(n.func, ast.Name) and n.func.id in ("getattr", "setattr", "delattr", "hasattr") \
                    and len(n.args) > 1 and isinstance(n.args[1], ast.Name) and n.args[1].id in params:
                rel.add("s:" + n.args[1].id)
            for a in n.args:
                if isinstance(a, ast.Name) and a.id in params:
                    rel.add(a.id)
            for k in n.keywords:
                if isinstance(k.value, ast.Name) and k.value.id in params:
                    rel.add(k.value.id)
    return rel


def _ann_not_string(node):
    """True if the annotation only names primitive types other than str (an lxml
    "smart string" is a str subclass; bytes/int/bool/None/Decimal ... reach no tree)."""
    if node is None:
        return False
    for n in ast.walk(node):
        if isinstance(n, ast.Name) and (n.id not in PRIM_ANN or n.id == "str"):
            return False
        if isinstance(n, ast.Constant) and n.value is not None:
            return False
        if isinstance(n, (ast.Subscript, ast.Attribute)):
            return False
    return True


def mangle(name, clsname):
    if clsname and name.startswith("__") and not name.endswith("__"):
        return "_" + clsname.lstrip("_") + name
    return name


class Program:
    """All modules, classes, functions, properties of the code base (from the AST)."""

    def __init__(self, src_root):
        self.src_root = src_root
        self.modules: dict = {}
        self.classes: dict = {}
        self.class_by_name: dict = {}
        self.funcs: dict = {}
        self.methods_by_name = defaultdict(list)
        self.props_by_name = defaultdict(list)
        self.stored_attrs: set = set()
        self._parse()
        self._collect()
        self._link()
        for mi in self.modules.values():
            cls_stack = []

            def visit(n, cname):
                for c in ast.iter_child_nodes(n):
                    if isinstance(c, ast.ClassDef):
                        visit(c, c.name)
                        continue
                    if isinstance(c, ast.Attribute) and isinstance(c.ctx, (ast.Store, ast.Del)):
                        self.stored_attrs.add(mangle(c.attr, cname))
                    elif isinstance(c, ast.Call) and isinstance(c.func, ast.Name) and c.func.id == "setattr" \
                            and len(c.args) > 1 and isinstance(c.args[1], ast.Constant):
                        self.stored_attrs.add(str(c.args[1].value))
                    visit(c, cname)

            visit(mi.tree, None)

    # -- parsing
    def _parse(self):
        for dirpath, dirnames, filenames in os.walk(self.src_root):
            dirnames[:] = sorted(d for d in dirnames if d != "__pycache__")
            for fn in sorted(filenames):
                if not fn.endswith(".py"):
                    continue
                path = os.path.join(dirpath, fn)
                rel = os.path.relpath(path, self.src_root)[:-3].replace(os.sep, ".")
                is_pkg = rel == "__init__" or rel.endswith(".__init__")
                if is_pkg:
                    rel = rel[: -len("__init__")].rstrip(".")
                with open(path, encoding="utf-8") as f:
                    src = f.read()
                tree = ast.parse(src, filename=path)
                self.modules[rel] = ModuleInfo(rel, path, tree, is_pkg)

    def _top_stmts(self, body):
        for st in body:
            yield st
            if isinstance(st, ast.If):
                yield from self._top_stmts(st.body)
                yield from self._top_stmts(st.orelse)
            elif isinstance(st, ast.Try):
                yield from self._top_stmts(st.body)
                for h in st.handlers:
                    yield from self._top_stmts(h.body)
                yield from self._top_stmts(st.orelse)
                yield from self._top_stmts(st.finalbody)
            elif isinstance(st, ast.With):
                yield from self._top_stmts(st.body)

    def _import_target(self, mi, st):
        if st.level:
            pkg = mi.pkg
            for _ in range(st.level - 1):
                pkg = pkg.rpartition(".")[0]
            target = ".".join(x for x in (pkg, st.module or "") if x)
            return target, True
        mod = st.module or ""
        if mod == "odfdo" or mod.startswith("odfdo."):
            return mod[len("odfdo"):].lstrip("."), True
        return mod, False

    def _collect(self):
        for mi in self.modules.values():
            fi = FuncInfo(f"{mi.name}:<module>", "<module>", mi.name, None, mi.tree, "module")
            self.funcs[fi.q] = fi
            for st in self._top_stmts(mi.tree.body):
                if isinstance(st, ast.ImportFrom):
                    target, internal = self._import_target(mi, st)
                    for al in st.names:
                        local = al.asname or al.name
                        if internal:
                            sub = f"{target}.{al.name}" if target else al.name
                            if sub in self.modules and not (
                                target in self.modules and self._defines(target, al.name)
                            ):
                                mi.ns[local] = ("module", sub)
                            else:
                                mi.ns[local] = ("import", target, al.name)
                        else:
                            mi.ns[local] = ("ext", f"{target}.{al.name}")
                elif isinstance(st, ast.Import):
                    for al in st.names:
                        local = al.asname or al.name.split(".")[0]
                        full = al.name if al.asname else al.name.split(".")[0]
                        if full == "odfdo" or full.startswith("odfdo."):
                            mi.ns[local] = ("module", full[len("odfdo"):].lstrip("."))
                        else:
                            mi.ns[local] = ("extmod", full)
                elif isinstance(st, (ast.FunctionDef, ast.AsyncFunctionDef)):
                    q = f"{mi.name}:{st.name}"
                    f2 = FuncInfo(q, st.name, mi.name, None, st, "function")
                    self.funcs[q] = f2
                    mi.ns[st.name] = ("func", q)
                    self._collect_nested(f2)
                elif isinstance(st, ast.ClassDef):
                    self._collect_class(mi, st)
                elif isinstance(st, ast.Assign):
                    for t in st.targets:
                        for n in ast.walk(t):
                            if isinstance(n, ast.Name):
                                mi.ns.setdefault(n.id, ("var", mi.name, n.id))
                elif isinstance(st, ast.AnnAssign) and isinstance(st.target, ast.Name):
                    mi.ns.setdefault(st.target.id, ("var", mi.name, st.target.id))

    def _defines(self, modname, name):
        mi = self.modules[modname]
        for st in self._top_stmts(mi.tree.body):
            if isinstance(st, (ast.FunctionDef, ast.ClassDef)) and st.name == name:
                return True
            if isinstance(st, ast.Assign):
                for t in st.targets:
                    if isinstance(t, ast.Name) and t.id == name:
                        return True
            if isinstance(st, ast.ImportFrom):
                for al in st.names:
                    if (al.asname or al.name) == name and self._import_target(mi, st)[0] != modname:
                        return True
        return False

    def _collect_nested(self, fi):
        def visit(stmts):
            for st in stmts:
                if isinstance(st, (ast.FunctionDef, ast.AsyncFunctionDef)):
                    q = f"{fi.q}.<locals>.{st.name}"
                    nf = FuncInfo(q, st.name, fi.module, fi.cls, st, "nested", parent=fi)
                    self.funcs[q] = nf
                    fi.nested[st.name] = nf
                    self._collect_nested(nf)
                elif isinstance(st, ast.ClassDef):
                    continue
                else:
                    for fld in ("body", "orelse", "finalbody"):
                        sub = getattr(st, fld, None)
                        if isinstance(sub, list):
                            visit(sub)
                    for h in getattr(st, "handlers", []) or []:
                        visit(h.body)

        visit(fi.body)

    def _collect_class(self, mi, node):
        q = f"{mi.name}:{node.name}"
        ci = ClassInfo(q, node.name, mi.name, node)
        self.classes[q] = ci
        self.class_by_name.setdefault(node.name, ci)
        mi.ns[node.name] = ("class", q)
        for st in self._top_stmts(node.body):
            if isinstance(st, (ast.FunctionDef, ast.AsyncFunctionDef)):
                decos = [ast.unparse(d) for d in st.decorator_list]
                name = mangle(st.name, node.name)
                if "property" in decos or any(d.endswith("cached_property") for d in decos):
                    fi = FuncInfo(f"{q}.{name}", name, mi.name, ci, st, "method")
                    self.funcs[fi.q] = fi
                    prop = PropInfo(name, ci)
                    prop.fget = fi
                    ci.members[name] = Member("prop", prop=prop)
                    self._collect_nested(fi)
                    continue
                setter = [d for d in decos if d.endswith(".setter") or d.endswith(".deleter")]
                if setter:
                    pname = mangle(setter[0].rsplit(".", 1)[0], node.name)
                    fi = FuncInfo(f"{q}.{pname}@setter", pname, mi.name, ci, st, "method")
                    self.funcs[fi.q] = fi
                    mem = ci.members.get(pname)
                    if mem is None or mem.kind != "prop":
                        mem = Member("prop", prop=PropInfo(pname, ci))
                        ci.members[pname] = mem
                    if setter[0].endswith(".setter"):
                        mem.prop.fset = fi
                    self._collect_nested(fi)
                    continue
                kind = "method"
                if "staticmethod" in decos:
                    kind = "static"
                elif "classmethod" in decos:
                    kind = "class"
                fi = FuncInfo(f"{q}.{name}", name, mi.name, ci, st, kind)
                self.funcs[fi.q] = fi
                ci.members[name] = Member("func", fi=fi)
                self._collect_nested(fi)
            elif isinstance(st, ast.Assign):
                for t in st.targets:
                    if isinstance(t, ast.Name):
                        ci.members[mangle(t.id, node.name)] = Member("attr", node=st.value)
            elif isinstance(st, ast.AnnAssign) and isinstance(st.target, ast.Name):
                if st.value is not None:
                    ci.members[mangle(st.target.id, node.name)] = Member("attr", node=st.value)

    # -- linking
    def resolve(self, modname, name, depth=0):
        mi = self.modules.get(modname)
        if mi is None or depth > 12:
            return None
        ent = mi.ns.get(name)
        if ent is None:
            return None
        if ent[0] == "import":
            tgt = ent[1]
            if tgt in self.modules:
                r = self.resolve(tgt, ent[2], depth + 1)
                if r is not None:
                    return r
                sub = f"{tgt}.{ent[2]}" if tgt else ent[2]
                if sub in self.modules:
                    return ("module", sub)
            return ("ext", f"odfdo.{tgt}.{ent[2]}")
        return ent

    def _link(self):
        for ci in self.classes.values():
            for b in ci.node.bases:
                r = None
                if isinstance(b, ast.Name):
                    r = self.resolve(ci.module, b.id)
                if r and r[0] == "class":
                    ci.bases.append(self.classes[r[1]])
                else:
                    ci.ext_bases.append(ast.unparse(b))
        for ci in self.classes.values():
            ci.mro = self._c3(ci)
        for ci in self.classes.values():
            for a in ci.mro[1:]:
                a.subs.add(ci)
        # aliases (append = __append ; _append = Element.append) and PropDef properties
        for ci in self.classes.values():
            for name, mem in list(ci.members.items()):
                if mem.kind != "attr":
                    continue
                v = mem.node
                if isinstance(v, ast.Name):
                    tgt = ci.members.get(mangle(v.id, ci.name))
                    if tgt is not None and tgt.kind in ("func", "prop"):
                        ci.members[name] = tgt
                elif isinstance(v, ast.Attribute) and isinstance(v.value, ast.Name):
                    r = self.resolve(ci.module, v.value.id)
                    if r and r[0] == "class":
                        tgt = self.lookup(self.classes[r[1]], v.attr)
                        if tgt is not None and tgt.kind in ("func", "prop"):
                            ci.members[name] = tgt
            pd = ci.members.get("_properties")
            if pd is not None and pd.kind == "attr" and isinstance(pd.node, (ast.Tuple, ast.List)):
                g = self.funcs.get("element:Element._generic_attrib_getter.<locals>.getter")
                s = self.funcs.get("element:Element._generic_attrib_setter.<locals>.setter")
                for e in pd.node.elts:
                    if isinstance(e, ast.Call) and e.args and isinstance(e.args[0], ast.Constant):
                        pname = e.args[0].value
                        if pname in ci.members and ci.members[pname].kind != "attr":
                            continue
                        prop = PropInfo(pname, ci)
                        prop.fget, prop.fset = g, s
                        ci.members[pname] = Member("prop", prop=prop)
        for ci in self.classes.values():
            for name, mem in ci.members.items():
                if mem.kind == "func":
                    self.methods_by_name[name].append(mem.fi)
                elif mem.kind == "prop":
                    self.props_by_name[name].append(mem.prop)

    def _c3(self, ci, seen=()):
        if ci in seen:
            return [ci]
        seqs = [self._c3(b, seen + (ci,)) for b in ci.bases] + [list(ci.bases)]
        res = [ci]
        seqs = [list(s) for s in seqs if s]
        while seqs:
            for s in seqs:
                h = s[0]
                if not any(h in o[1:] for o in seqs):
                    break
            else:
                h = seqs[0][0]
            res.append(h)
            seqs = [[x for x in s if x is not h] for s in seqs]
            seqs = [s for s in seqs if s]
        return res

    def lookup(self, ci, name, after=None):
        mro = ci.mro
        if after is not None:
            if after not in mro:
                return None
            mro = mro[mro.index(after) + 1:]
        for c in mro:
            m = c.members.get(name)
            if m is not None:
                return m
        return None

    def cha(self, ci, name, after=None):
        """Members `name` may resolve to on an instance of ci or of a subclass."""
        out = []
        for d in [ci, *sorted(ci.subs, key=lambda c: c.q)]:
            m = self.lookup(d, name, after)
            if m is not None and m not in out:
                out.append(m)
        return out

    def has_ext_base(self, ci):
        return any(c.ext_bases and c.ext_bases != ["object"] for c in ci.mro)

    def is_element(self, ci):
        return any(c.q == "element:Element" for c in ci.mro)


# --------------------------------------------------------------------------- summaries


class Summary:
    __slots__ = ("effects", "ret", "captures", "gwrites", "gw_unrestored", "ctaints", "allenv", "fresh")

    def __init__(self):
        self.effects: dict = {}      # origin -> witness (kind, line, desc, callee_key, callee_origin)
        self.ret = BOT
        self.captures: dict = {}     # origin -> frozenset(origins)
        self.gwrites: frozenset = EMPTY
        self.gw_unrestored: frozenset = EMPTY
        self.ctaints: dict = {}      # closure variable -> frozenset(origins)
        self.allenv: dict = {}       # flow-insensitive env (closure of nested functions)
        self.fresh = False           # writes to a fresh tree happen (informative)

    def state(self):
        return (
            frozenset(self.effects), self.ret, tuple(sorted(self.captures.items())),
            self.gwrites, self.gw_unrestored, tuple(sorted(self.ctaints.items())),
            tuple(sorted(self.allenv.items(), key=lambda kv: kv[0])), self.fresh,
        )

    def merge(self, new):
        """self := self JOIN new (witnesses of already known effects are kept)."""
        for o, w in new.effects.items():
            self.effects.setdefault(o, w)
        self.ret = join(self.ret, new.ret)
        for o, s in new.captures.items():
            self.captures[o] = self.captures.get(o, EMPTY) | s
        self.gwrites |= new.gwrites
        self.gw_unrestored |= new.gw_unrestored
        for v, s in new.ctaints.items():
            self.ctaints[v] = self.ctaints.get(v, EMPTY) | s
        for v, a in new.allenv.items():
            self.allenv[v] = join(self.allenv.get(v), a)
        self.fresh = self.fresh or new.fresh


class CallSite:
    __slots__ = ("node", "args", "arg_exprs", "kwargs", "kw_exprs", "star", "dstar")

    def __init__(self, node, args=(), arg_exprs=(), kwargs=None, kw_exprs=None, star=None, dstar=None):
        self.node = node
        self.args, self.arg_exprs = list(args), list(arg_exprs)
        self.kwargs, self.kw_exprs = kwargs or {}, kw_exprs or {}
        self.star, self.dstar = star, dstar

    def all_avs(self):
        out = list(self.args) + list(self.kwargs.values())
        if self.star is not None:
            out.append(self.star)
        if self.dstar is not None:
            out.append(self.dstar)
        return out


def root_var(e):
    while True:
        if isinstance(e, ast.Name):
            return e.id
        if isinstance(e, (ast.Attribute, ast.Subscript, ast.Starred)):
            e = e.value
        elif isinstance(e, ast.Call):
            e = e.func
        else:
            return None


# --------------------------------------------------------------------------- function analyzer


class FA:
    """Abstract interpretation of one function under one specialisation."""

    def __init__(self, an, key):
        self.an = an
        self.P = an.P
        self.key = key
        self.fi = an.P.funcs[key[0]]
        self.spec = dict(key[1])
        self.flag = "@wrap" if "@wrap" in self.spec else ("@new" if "@new" in self.spec else None)
        self.mod = self.fi.module
        self.cls = self.fi.cls
        self.sum = Summary()
        self.closure: dict = {}
        self.rets: list = []
        self.loops: list = []
        self.nonlocals: set = set()
        self.gw_protected: frozenset = EMPTY
        self.alias: dict = {}
        self.local_ann: dict = {}

    # ---- entry
    def run(self):
        fi = self.fi
        env: dict = {}
        if fi.kind == "nested":
            pq = fi.parent.q
            psum = self.an.parent_allenv(pq, self.key)
            for v, a in psum.items():
                self.closure[v] = AV(
                    FS(o if o in ("global", "fresh") or o.startswith("unknown-call:") else "outer:" + o
                       for o in a.o), a.t, a.i, "")
        if fi.kind != "module":
            for p in fi.pos + fi.kwonly + [x for x in (fi.vararg, fi.kwarg) if x]:
                env[p] = self.param_av(p)
        out = self.block(fi.body, env)
        if out is not None:
            self.rets.append((PRIM if fi.kind != "module" else BOT, out))
        ret = joinall(r for r, _ in self.rets)
        if fi.kind != "module" and getattr(fi.node, "returns", None) is not None and not ret.is_bot():
            # a return annotation naming plain data (str, int, tuple[int, ...]) is
            # trusted for the *type* of the result; its origins are kept (smart strings)
            rt, ri = self.ann_types(fi.node.returns)
            if rt == {"prim"} and _ann_not_string(fi.node.returns):
                ret = AV(EMPTY, rt, EMPTY, ret.c)  # bytes / int / bool / None: plain data
            elif rt and rt <= {"prim", "cont"} and ("cont" not in rt or (ri and ri <= {"prim"})):
                ret = AV(ret.o, rt, ri, ret.c)
            else:
                # annotations naming code-base classes are upper bounds: narrow
                def ok(tags):
                    return tags and all(x in ("prim", "cont") or x.startswith("inst:") for x in tags)
                if ok(rt) and (ret.t - {"prim"}):
                    ret = AV(ret.o, self.narrow(ret, set(rt)).t, ret.i, ret.c)
                if "cont" in rt and ok(ri) and "cont" in ret.t and ret.i:
                    ni = self.narrow(AV(EMPTY, ret.i, EMPTY, ""), set(ri)).t
                    ret = AV(ret.o, ret.t, ni, ret.c)
        self.sum.ret = ret
        if fi.kind == "module":
            final = None
            for _, e in self.rets:
                final = join_env(final, e)
            self.sum.allenv = dict(final or {})
        return self.sum

    def param_av(self, p):
        fi = self.fi
        if p in self.spec:
            c = self.spec[p]
            return AV(EMPTY, {"prim"}, EMPTY, c)
        origin = fi.origin_of(p)
        if p == fi.self_name and fi.cls is not None:
            return AV({origin}, {"inst:" + fi.cls.q}, EMPTY, "NN")
        if fi.kind == "class" and fi.pos and p == fi.pos[0] and fi.cls is not None:
            return AV(EMPTY, {"class*:" + fi.cls.q}, EMPTY, "NN")
        if p == fi.vararg:
            extra = self.an.param_av(fi.q, p, self.key)
            return AV({origin}, {"cont"}, extra.t | extra.i, "NN")
        if p == fi.kwarg:
            extra = self.an.param_av(fi.q, p, self.key)
            return AV({origin}, {"cont"}, extra.t | extra.i, "NN")
        t, i = self.ann_types(fi.ann.get(p))
        if t == {"prim"} and _ann_not_string(fi.ann.get(p)):
            # int / bool / float / None / Decimal / datetime ...: not even an lxml
            # "smart string", no tree is reachable from such a value
            return AV(EMPTY, t, EMPTY, "")
        extra = self.an.param_av(fi.q, p, self.key)
        if "?" in t and self.an.is_private(fi):
            # closed world: a private function is only called from the code base,
            # an unannotated / Any parameter has the types of the call-site arguments
            t = (t - {"?"}) | extra.t
        elif "?" in t or "callable" in t:
            t = t | {x for x in extra.t if x.startswith(("func:", "class:", "class*:", "bound:"))}
        if "cont" in t:
            if "?" in i and self.an.is_private(fi):
                i = i - {"?"}
            i = i | extra.i
            if not i and self.an.pess:
                i = FS({"?"})  # nothing known about the content of this container
        if not t and self.an.pess:
            t = FS({"?"})
        return AV({origin}, t, i, "")

    def ann_types(self, node):
        """(types, items) described by an annotation."""
        if node is None:
            return FS({"?"}), EMPTY
        if isinstance(node, ast.Constant):
            if node.value is None:
                return FS({"prim"}), EMPTY
            if isinstance(node.value, str):
                try:
                    return self.ann_types(ast.parse(node.value, mode="eval").body)
                except SyntaxError:
                    return FS({"?"}), EMPTY
            return FS({"?"}), EMPTY
        if isinstance(node, ast.Name):
            n = node.id
            if n in PRIM_ANN:
                return FS({"prim"}), EMPTY
            if n in CONT_ANN:
                return FS({"cont"}), EMPTY
            if n == "Callable":
                return FS({"callable"}), EMPTY
            if n == "XPath":
                return FS({"xpath"}), EMPTY
            if n in ("_Element", "_ElementTree"):
                return FS({"lxml"}), EMPTY
            if n in ("Any", "object", "type"):
                return FS({"?"}), EMPTY
            r = self.P.resolve(self.mod, n)
            if r and r[0] == "class":
                return FS({"inst:" + r[1]}), EMPTY
            ci = self.P.class_by_name.get(n)
            if ci is not None and r is None:
                return FS({"inst:" + ci.q}), EMPTY
            return FS({"std"}), EMPTY
        if isinstance(node, ast.Attribute):
            if node.attr in ("_Element", "_ElementTree"):
                return FS({"lxml"}), EMPTY
            return FS({"std"}), EMPTY
        if isinstance(node, ast.BinOp) and isinstance(node.op, ast.BitOr):
            t1, i1 = self.ann_types(node.left)
            t2, i2 = self.ann_types(node.right)
            return t1 | t2, i1 | i2
        if isinstance(node, ast.Subscript):
            base = node.value.id if isinstance(node.value, ast.Name) else getattr(node.value, "attr", "")
            sl = node.slice
            if base in ("Optional", "Union"):
                elts = sl.elts if isinstance(sl, ast.Tuple) else [sl]
                t, i = FS({"prim"}) if base == "Optional" else EMPTY, EMPTY
                for e in elts:
                    t2, i2 = self.ann_types(e)
                    t, i = t | t2, i | i2
                return t, i
            if base == "type":
                t, _ = self.ann_types(sl)
                return FS("class*:" + x[5:] for x in t if x.startswith("inst:")) or FS({"?"}), EMPTY
            if base in CONT_ANN:
                elts = sl.elts if isinstance(sl, ast.Tuple) else [sl]
                if base in ("dict", "Dict", "Mapping", "MutableMapping") and len(elts) == 2:
                    elts = elts[1:]
                i = EMPTY
                for e in elts:
                    if isinstance(e, ast.Constant) and e.value is Ellipsis:
                        continue
                    t2, _ = self.ann_types(e)
                    i = i | {("?" if x == "callable" else x) for x in t2}
                return FS({"cont"}), i
            if base == "Callable":
                return FS({"callable"}), EMPTY
            return FS({"?"}), EMPTY
        return FS({"?"}), EMPTY

    # ---- effects
    def effect(self, origins, line, desc, callee=None, callee_origin=None):
        for o in origins:
            if o == "fresh":
                self.sum.fresh = True
                continue
            if o not in self.sum.effects:
                self.sum.effects[o] = ("call" if callee else "write", line, desc, callee, callee_origin)

    def write(self, av, node, desc):
        self.effect(av.o, getattr(node, "lineno", 0), desc)

    def unknown_call(self, name, node):
        self.effect({f"unknown-call:{name}"}, getattr(node, "lineno", 0), f"unresolved call {name}()")

    def taint(self, expr, origins, env):
        """Objects reachable from the root variable of `expr` may now reach `origins`."""
        origins = FS(o for o in origins)
        if not origins:
            return
        var = root_var(expr)
        if var is None:
            return
        for other in self.alias.get(var, ()):
            if other != var and other in env and not prim_only(env[other]):
                self._taint_var(other, origins, env)
        self._taint_var(var, origins, env)

    def _taint_var(self, var, origins, env):
        if var in env:
            old = env[var]
            new = origins - old.o
            if not new:
                return
            for o in old.o:
                if o != "fresh" and not o.startswith("unknown-call:"):
                    self.sum.captures[o] = self.sum.captures.get(o, EMPTY) | new
            env[var] = old.add_o(new)
            self.note(var, env[var])
        elif var in self.closure:
            old = self.closure[var]
            self.sum.ctaints[var] = self.sum.ctaints.get(var, EMPTY) | origins
            for o in old.o:
                if o != "fresh":
                    self.sum.captures[o] = self.sum.captures.get(o, EMPTY) | (origins - old.o)
            self.closure[var] = old.add_o(origins)
        else:
            r = self.P.resolve(self.mod, var)
            if r and r[0] == "var":
                self.gwrite(var)
                self.sum.captures["global"] = self.sum.captures.get("global", EMPTY) | origins

    def gwrite(self, name):
        self.sum.gwrites |= {name}
        if name not in self.gw_protected:
            self.sum.gw_unrestored |= {name}

    def note(self, var, av):
        self.sum.allenv[var] = join(self.sum.allenv.get(var), av)

    def bind(self, env, var, av):
        ann = self.local_ann.get(var)
        if ann is not None and (av.t - {"prim"}):
            # `var: Class` declared in this function: upper bound of what var holds
            nt = self.narrow(AV(av.o, av.t - {"prim"}, av.i, av.c), ann).t | (av.t & {"prim"})
            av = AV(av.o, nt, av.i, av.c)
        env[var] = av
        self.note(var, av)
        if var in self.nonlocals and var in self.closure:
            self.closure[var] = join(self.closure[var], av)
            self.sum.ctaints[var] = self.sum.ctaints.get(var, EMPTY) | av.o

    # ---- statements
    def block(self, stmts, env):
        for st in stmts:
            if env is None:
                return None
            env = self.stmt(st, env)
        return env

    def stmt(self, st, env):
        m = getattr(self, "s_" + type(st).__name__, None)
        if m is None:
            for n in ast.iter_child_nodes(st):
                if isinstance(n, ast.expr):
                    self.eval(n, env)
            return env
        return m(st, env)

    def s_Pass(self, st, env):
        return env

    def s_Expr(self, st, env):
        self.eval(st.value, env)
        return env

    def s_Global(self, st, env):
        return env

    def s_Nonlocal(self, st, env):
        self.nonlocals |= set(st.names)
        return env

    def s_Import(self, st, env):
        for al in st.names:
            self.bind(env, al.asname or al.name.split(".")[0], AV(t={"mod:" + al.name}))
        return env

    def s_ImportFrom(self, st, env):
        mi = self.P.modules[self.mod]
        target, internal = self.P._import_target(mi, st)
        for al in st.names:
            local = al.asname or al.name
            av = UNK
            if internal:
                r = self.P.resolve(target, al.name) if target in self.P.modules else None
                if r is not None:
                    av = self.resolved_av(r, env)
            else:
                av = AV(t={f"ext:{target}.{al.name}"})
            self.bind(env, local, av)
        return env

    def s_FunctionDef(self, st, env):
        nf = self.fi.nested.get(st.name)
        if self.fi.kind == "module":
            r = self.P.resolve(self.mod, st.name)
            self.bind(env, st.name, self.resolved_av(r) if r and r[0] == "func" else UNK)
            return env
        if nf is not None and nf.node is st:
            self.bind(env, st.name, AV(t={"func:" + nf.q}, c="NN"))
        else:
            self.bind(env, st.name, UNK)
        return env

    s_AsyncFunctionDef = s_FunctionDef

    def s_ClassDef(self, st, env):
        r = self.P.resolve(self.mod, st.name) if self.fi.kind == "module" else None
        self.bind(env, st.name, self.resolved_av(r) if r and r[0] == "class" else UNK)
        return env

    def s_Return(self, st, env):
        av = self.eval(st.value, env) if st.value is not None else PRIM
        self.rets.append((av, env))
        return None

    def s_Raise(self, st, env):
        if st.exc is not None:
            self.eval(st.exc, env)
        if st.cause is not None:
            self.eval(st.cause, env)
        return None

    def s_Assert(self, st, env):
        self.eval(st.test, env)
        if st.msg is not None:
            self.eval(st.msg, env)
        return self.refine(st.test, env, True)

    def s_Break(self, st, env):
        if self.loops:
            self.loops[-1]["break"].append(env)
        return None

    def s_Continue(self, st, env):
        if self.loops:
            self.loops[-1]["cont"].append(env)
        return None

    def s_Delete(self, st, env):
        for t in st.targets:
            if isinstance(t, ast.Name):
                env.pop(t.id, None)
            elif isinstance(t, ast.Subscript):
                base = self.eval(t.value, env)
                self.eval(t.slice, env)
                self.store_subscript(t, base, BOT, env, "del")
            elif isinstance(t, ast.Attribute):
                base = self.eval(t.value, env)
                self.store_attr(t, base, BOT, env, "del")
        return env

    def s_Assign(self, st, env):
        av = self.eval(st.value, env)
        for t in st.targets:
            self.assign(t, av, env, st.value)
            if isinstance(t, ast.Name) and not prim_only(av) and not isinstance(st.value, ast.Call):
                r = root_var(st.value)
                if r is not None and r != t.id and isinstance(st.value, (ast.Name, ast.Attribute, ast.Subscript)):
                    grp = {t.id, r} | self.alias.get(t.id, set()) | self.alias.get(r, set())
                    for v in grp:
                        self.alias[v] = grp
        return env

    def s_AnnAssign(self, st, env):
        if isinstance(st.target, ast.Name) and self.fi.kind != "module":
            t, _ = self.ann_types(st.annotation)
            if t and all(x == "prim" or x.startswith("inst:") for x in t) and (t - {"prim"}):
                self.local_ann[st.target.id] = set(t)
        if st.value is None:
            return env
        av = self.eval(st.value, env)
        if isinstance(st.target, ast.Name) and "?" in av.t:
            t, i = self.ann_types(st.annotation)
            if "?" not in t and "callable" not in t:
                av = AV(av.o, (av.t - {"?"}) | t, av.i | i, av.c)
        self.assign(st.target, av, env, st.value)
        return env

    def s_AugAssign(self, st, env):
        v = self.eval(st.value, env)
        t = st.target
        if isinstance(t, ast.Name):
            old = self.lookup(t.id, env)
            if "cont" in old.t:
                self.taint(t, v.o, env)
                old = self.lookup(t.id, env)
                self.bind(env, t.id, AV(old.o | v.o, old.t | v.t, old.i | v.i, "NN"))
            elif prim_only(old) and prim_only(v):
                self.bind(env, t.id, AV(EMPTY, {"prim"}, EMPTY, ""))
            else:
                self.dunder(old, "__iadd__", [v], st)
                self.bind(env, t.id, AV(old.o | v.o, old.t | v.t, old.i | v.i, ""))
        elif isinstance(t, ast.Attribute):
            base = self.eval(t.value, env)
            self.load_attr(t, base, env)
            self.store_attr(t, base, v, env, "augmented assignment to")
        elif isinstance(t, ast.Subscript):
            base = self.eval(t.value, env)
            self.eval(t.slice, env)
            self.store_subscript(t, base, v, env, "augmented assignment to")
        return env

    def assign(self, t, av, env, value_expr=None):
        if isinstance(t, ast.Name):
            self.bind(env, t.id, av)
        elif isinstance(t, (ast.Tuple, ast.List)):
            if isinstance(value_expr, (ast.Tuple, ast.List)) and len(value_expr.elts) == len(t.elts) and not any(
                isinstance(e, ast.Starred) for e in list(t.elts) + list(value_expr.elts)
            ):
                for te, ve in zip(t.elts, value_expr.elts):
                    self.assign(te, self.eval(ve, env), env, ve)
            else:
                it = item_of(av)
                for te in t.elts:
                    if isinstance(te, ast.Starred):
                        self.assign(te.value, AV(av.o, {"cont"}, it.t, "NN"), env)
                    else:
                        self.assign(te, it, env)
        elif isinstance(t, ast.Attribute):
            base = self.eval(t.value, env)
            self.store_attr(t, base, av, env, "assignment to")
        elif isinstance(t, ast.Subscript):
            base = self.eval(t.value, env)
            self.eval(t.slice, env)
            self.store_subscript(t, base, av, env, "assignment to")
        elif isinstance(t, ast.Starred):
            self.assign(t.value, av, env)

    def s_If(self, st, env):
        self.eval(st.test, env)
        tv = self.truth(st.test, env)
        e1 = e2 = None
        if tv is not False:
            e1 = self.block(st.body, self.refine(st.test, dict(env), True))
        if tv is not True:
            e2 = self.block(st.orelse, self.refine(st.test, dict(env), False))
        return join_env(e1, e2)

    def loop(self, env, head, body, orelse, infinite=False):
        """head(env) -> env at body entry (or None)."""
        ctx = {"break": [], "cont": []}
        self.loops.append(ctx)
        cur = env
        exit_env = None
        for _ in range(12):
            ctx["cont"] = []
            ent = head(dict(cur))
            out = self.block(body, ent) if ent is not None else None
            nxt = cur
            for e in [out, *ctx["cont"]]:
                nxt = join_env(nxt, e)
            if env_eq(nxt, cur):
                break
            cur = nxt
        self.loops.pop()
        exit_env = None if infinite else cur
        if orelse and exit_env is not None:
            exit_env = self.block(orelse, dict(exit_env))
        for e in ctx["break"]:
            exit_env = join_env(exit_env, e)
        return exit_env

    def s_For(self, st, env):
        it = self.eval(st.iter, env)
        self.dunder(it, "__iter__", [], st)

        def head(e):
            self.bind_iter(st.target, st.iter, it, e)
            return e

        return self.loop(env, head, st.body, st.orelse)

    s_AsyncFor = s_For

    def bind_iter(self, target, iter_expr, it, env):
        """Bind a loop target; enumerate/zip/.items() are unpacked precisely."""
        if isinstance(target, (ast.Tuple, ast.List)) and isinstance(iter_expr, ast.Call):
            f = iter_expr.func
            n = len(target.elts)
            if isinstance(f, ast.Name) and f.id == "enumerate" and n == 2 and iter_expr.args:
                self.assign(target.elts[0], PRIM, env)
                self.assign(target.elts[1], item_of(self.eval_quiet(iter_expr.args[0], env)), env)
                return
            if isinstance(f, ast.Name) and f.id == "zip" and n == len(iter_expr.args):
                for te, a in zip(target.elts, iter_expr.args):
                    self.assign(te, item_of(self.eval_quiet(a, env)), env)
                return
            if isinstance(f, ast.Attribute) and f.attr == "items" and n == 2:
                base = self.eval_quiet(f.value, env)
                if base.t <= {"cont", "attrib", "prim"}:
                    self.assign(target.elts[0], PRIM, env)
                    self.assign(target.elts[1], item_of(base), env)
                    return
        self.assign(target, item_of(it), env)

    def s_While(self, st, env):
        def head(e):
            self.eval(st.test, e)
            if self.truth(st.test, e) is False:
                return None
            return self.refine(st.test, e, True)

        # `while True`: the only exits are the breaks (returns are recorded apart)
        infinite = isinstance(st.test, ast.Constant) and bool(st.test.value)
        return self.loop(env, head, st.body, st.orelse, infinite)

    def s_With(self, st, env):
        for item in st.items:
            av = self.eval(item.context_expr, env)
            self.dunder(av, "__enter__", [], st)
            if item.optional_vars is not None:
                self.assign(item.optional_vars, AV(av.o, av.t, av.i, "NN"), env)
        out = self.block(st.body, env)
        return out

    s_AsyncWith = s_With

    def s_Try(self, st, env):
        saved = self.gw_protected
        if st.finalbody:
            probe = FA(self.an, self.key)
            probe.closure = dict(self.closure)
            probe.block(st.finalbody, dict(env))
            self.gw_protected = saved | probe.sum.gwrites
        start = dict(env)
        body_out = self.block(st.body, env)
        self.gw_protected = saved
        # handlers may start from any point of the body
        hstart = dict(join_env(start, body_out))
        for v, a in self.sum.allenv.items():
            if v in hstart:
                hstart[v] = join(hstart[v], a)
        outs = []
        if body_out is not None:
            outs.append(self.block(st.orelse, body_out) if st.orelse else body_out)
        for h in st.handlers:
            he = dict(hstart)
            if h.type is not None:
                self.eval(h.type, he)
            if h.name:
                self.bind(he, h.name, AV(t={"std"}, c="NN"))
            outs.append(self.block(h.body, he))
        res = None
        for o in outs:
            res = join_env(res, o)
        if st.finalbody:
            fin_in = join_env(res, hstart) if res is None else res
            fin_out = self.block(st.finalbody, dict(fin_in))
            if res is None:
                return None
            return fin_out
        return res

    s_TryStar = s_Try

    def s_Match(self, st, env):
        self.eval(st.subject, env)
        res = None
        for case in st.cases:
            e = dict(env)
            for n in ast.walk(case.pattern):
                for fld in ("name", "rest"):
                    nm = getattr(n, fld, None)
                    if isinstance(nm, str):
                        self.bind(e, nm, UNK)
            res = join_env(res, self.block(case.body, e))
        return join_env(res, env)

    # ---- truth / refinement
    def truth(self, t, env):
        if isinstance(t, ast.Constant):
            return bool(t.value)
        if isinstance(t, ast.Name):
            c = self.lookup(t.id, env, quiet=True).c
            if c in ("None", "False", "s:"):
                return False
            if c == "True" or c.startswith("s:"):
                return True
            return None
        if isinstance(t, ast.Attribute) and t.attr == "_do_init" and self.flag:
            return self.flag == "@new"
        if isinstance(t, ast.UnaryOp) and isinstance(t.op, ast.Not):
            v = self.truth(t.operand, env)
            return None if v is None else (not v)
        if isinstance(t, ast.BoolOp):
            vals = [self.truth(v, env) for v in t.values]
            if isinstance(t.op, ast.And):
                if any(v is False for v in vals):
                    return False
                return True if all(v is True for v in vals) else None
            if any(v is True for v in vals):
                return True
            return False if all(v is False for v in vals) else None
        if isinstance(t, ast.Compare) and len(t.ops) == 1:
            op, l, r = t.ops[0], t.left, t.comparators[0]
            if isinstance(op, (ast.Is, ast.IsNot, ast.Eq, ast.NotEq)):
                if isinstance(l, ast.Constant) and l.value is None:
                    l, r = r, l
                if isinstance(r, ast.Constant) and r.value is None and isinstance(l, ast.Name):
                    c = self.lookup(l.id, env, quiet=True).c
                    if c == "None":
                        res = True
                    elif notnone(c):
                        res = False
                    else:
                        return None
                    return res if isinstance(op, (ast.Is, ast.Eq)) else (not res)
        return None

    def refine(self, t, env, branch):
        """Refine env knowing that test `t` evaluated to `branch`."""
        if env is None:
            return None
        if isinstance(t, ast.UnaryOp) and isinstance(t.op, ast.Not):
            return self.refine(t.operand, env, not branch)
        if isinstance(t, ast.BoolOp):
            if isinstance(t.op, ast.And) and branch or isinstance(t.op, ast.Or) and not branch:
                for v in t.values:
                    env = self.refine(v, env, branch)
            return env
        if isinstance(t, ast.Name) and t.id in env:
            av = env[t.id]
            if branch and av.c in ("", "None"):
                if av.c == "":
                    env[t.id] = AV(av.o, av.t, av.i, "NN")
            elif not branch and av.c == "NN" and av.t and not (av.t & {"prim", "cont", "?", "std"}):
                pass
            return env
        if isinstance(t, ast.Compare) and len(t.ops) == 1:
            op, l, r = t.ops[0], t.left, t.comparators[0]
            if isinstance(op, (ast.Is, ast.IsNot)) and isinstance(r, ast.Constant) and r.value is None \
                    and isinstance(l, ast.Name) and l.id in env:
                is_none = branch if isinstance(op, ast.Is) else not branch
                av = env[l.id]
                if is_none:
                    env[l.id] = AV(EMPTY, {"prim"}, EMPTY, "None")
                elif av.c in ("", "None"):
                    env[l.id] = AV(av.o, av.t, av.i, "NN")
            return env
        if isinstance(t, ast.Call) and isinstance(t.func, ast.Name) and t.func.id == "isinstance" \
                and len(t.args) == 2 and isinstance(t.args[0], ast.Name) and t.args[0].id in env and branch:
            tgt = self.isinstance_types(t.args[1], env)
            if tgt:
                av = env[t.args[0].id]
                env[t.args[0].id] = self.narrow(av, tgt)
            return env
        return env

    def isinstance_types(self, e, env):
        elts = e.elts if isinstance(e, ast.Tuple) else [e]
        out = set()
        for x in elts:
            t, _ = self.ann_types(x)
            if "?" in t or "callable" in t:
                return None
            out |= t
        return out

    def narrow(self, av, tgt):
        keep = set()
        for t in av.t:
            if t == "?" or t == "callable":
                keep |= tgt
            elif t in tgt:
                keep.add(t)
            elif t.startswith("inst:"):
                ci = self.P.classes.get(t[5:])
                for g in tgt:
                    if g.startswith("inst:") and ci is not None:
                        gi = self.P.classes.get(g[5:])
                        if gi is None:
                            continue
                        if gi in ci.mro:
                            keep.add(t)
                        elif ci in gi.mro:
                            keep.add(g)
                        elif ci.subs & gi.subs:
                            keep.add(g)
                    elif g in ("prim", "std") and ci is not None and self.P.has_ext_base(ci):
                        keep.add(t)
            elif t == "prim" and "std" in tgt or t == "std" and "prim" in tgt:
                keep.add(t)
        if not keep:
            # infeasible according to the types: keep the value (sound), no narrowing
            return av
        return AV(av.o, keep, av.i, "NN")

    # ---- names
    def lookup(self, name, env, quiet=False):
        if name in env:
            return env[name]
        if name in self.closure:
            return self.closure[name]
        r = self.P.resolve(self.mod, name)
        if r is not None:
            return self.resolved_av(r, env)
        if name in ALL_BUILTINS:
            return AV(t={"builtin:" + name}, c="NN")
        return BOT

    def resolved_av(self, r, env=None):
        k = r[0]
        if k == "class":
            return AV(t={"class:" + r[1]}, c="NN")
        if k == "func":
            return AV(t={"func:" + r[1]}, c="NN")
        if k == "var":
            return self.an.gvar(r[1], r[2], self.key)
        if k == "ext":
            return AV(t={"ext:" + r[1]}, c="NN")
        if k == "extmod":
            return AV(t={"mod:" + r[1]}, c="NN")
        if k == "module":
            return AV(t={"imod:" + r[1]}, c="NN")
        return UNK

    def module_var_of(self, expr, env):
        """(mod, name) if expr is a Name denoting a module-level variable."""
        if isinstance(expr, ast.Name) and expr.id not in env and expr.id not in self.closure:
            r = self.P.resolve(self.mod, expr.id)
            if r and r[0] == "var":
                return r[1], r[2]
        if isinstance(expr, ast.Name) and self.fi.kind == "module":
            return self.mod, expr.id
        return None

    # ---- expressions
    def eval(self, e, env):
        if e is None:
            return BOT
        m = getattr(self, "e_" + type(e).__name__, None)
        if m is None:
            r = BOT
            for n in ast.iter_child_nodes(e):
                if isinstance(n, ast.expr):
                    r = join(r, self.eval(n, env))
            return AV(r.o, {"?"}, EMPTY, "")
        return m(e, env)

    eval_quiet = eval

    def e_Constant(self, e, env):
        v = e.value
        if v is None:
            return AV(t={"prim"}, c="None")
        if v is True:
            return AV(t={"prim"}, c="True")
        if v is False:
            return AV(t={"prim"}, c="False")
        if isinstance(v, str) and len(v) < 48:
            return AV(t={"prim"}, c="s:" + v)
        return AV(t={"prim"}, c="NN")

    def e_Name(self, e, env):
        return self.lookup(e.id, env)

    def e_JoinedStr(self, e, env):
        for v in e.values:
            if isinstance(v, ast.FormattedValue):
                av = self.eval(v.value, env)
                self.dunder(av, "__repr__" if v.conversion == ord("r") else "__str__", [], e)
                if v.format_spec is not None:
                    self.eval(v.format_spec, env)
        return AV(t={"prim"}, c="NN")

    def e_FormattedValue(self, e, env):
        self.eval(e.value, env)
        return PRIM

    def _seq(self, elts, env):
        o, i = set(), set()
        for x in elts:
            av = self.eval(x.value if isinstance(x, ast.Starred) else x, env)
            if isinstance(x, ast.Starred):
                av = item_of(av)
            o |= av.o
            i |= av.t
        return AV(o, {"cont"}, i, "NN")

    def e_List(self, e, env):
        return self._seq(e.elts, env)

    e_Tuple = e_Set = e_List

    def e_Dict(self, e, env):
        o, i = set(), set()
        for k, v in zip(e.keys, e.values):
            if k is not None:
                o |= self.eval(k, env).o
                av = self.eval(v, env)
                o |= av.o
                i |= av.t
            else:
                av = self.eval(v, env)
                o |= av.o
                i |= item_of(av).t
        return AV(o, {"cont"}, i, "NN")

    def _comp(self, e, env, elts):
        env = dict(env)
        for g in e.generators:
            it = self.eval(g.iter, env)
            self.dunder(it, "__iter__", [], e)
            self.bind_iter(g.target, g.iter, it, env)
            for t in g.ifs:
                self.eval(t, env)
                env = self.refine(t, env, True)
        o, i = set(), set()
        for x in elts:
            av = self.eval(x, env)
            o |= av.o
            i |= av.t
        return o, i

    def e_ListComp(self, e, env):
        o, i = self._comp(e, env, [e.elt])
        return AV(o, {"cont"}, i, "NN")

    e_SetComp = e_GeneratorExp = e_ListComp

    def e_DictComp(self, e, env):
        env2 = dict(env)
        o, i = self._comp(e, env2, [e.value])
        o2, _ = self._comp(e, env2, [e.key])
        return AV(o | o2, {"cont"}, i, "NN")

    def e_Starred(self, e, env):
        return self.eval(e.value, env)

    def e_Slice(self, e, env):
        for x in (e.lower, e.upper, e.step):
            if x is not None:
                self.eval(x, env)
        return PRIM

    def e_Lambda(self, e, env):
        return UNK

    def e_Await(self, e, env):
        return self.eval(e.value, env)

    def e_Yield(self, e, env):
        av = self.eval(e.value, env) if e.value is not None else PRIM
        self.rets.append((AV(av.o, {"cont"}, av.t, "NN"), None))
        return UNK

    def e_YieldFrom(self, e, env):
        av = self.eval(e.value, env)
        self.rets.append((AV(av.o, {"cont"}, item_of(av).t, "NN"), None))
        return UNK

    def e_NamedExpr(self, e, env):
        av = self.eval(e.value, env)
        self.assign(e.target, av, env, e.value)
        return av

    def e_IfExp(self, e, env):
        self.eval(e.test, env)
        tv = self.truth(e.test, env)
        r = BOT
        if tv is not False:
            r = join(r, self.eval(e.body, self.refine(e.test, dict(env), True)))
        if tv is not True:
            r = join(r, self.eval(e.orelse, self.refine(e.test, dict(env), False)))
        return r

    def e_BoolOp(self, e, env):
        r = BOT
        env2 = dict(env)
        for i, v in enumerate(e.values):
            av = self.eval(v, env2)
            tv = self.truth(v, env2)
            last = i == len(e.values) - 1
            if isinstance(e.op, ast.And):
                if tv is True and not last:
                    pass
                else:
                    r = join(r, av)
                if tv is False:
                    break
                env2 = self.refine(v, env2, True)
            else:
                if tv is False and not last:
                    pass
                else:
                    r = join(r, AV(av.o, av.t, av.i, av.c if last else ("NN" if av.c in ("", "NN", "True") else av.c)))
                if tv is True:
                    break
                env2 = self.refine(v, env2, False)
        return r

    def e_UnaryOp(self, e, env):
        av = self.eval(e.operand, env)
        if isinstance(e.op, ast.Not):
            self.dunder(av, "__bool__", [], e)
            tv = self.truth(e, env)
            return AV(t={"prim"}, c={True: "True", False: "False", None: "NN"}[tv])
        return AV(EMPTY, {"prim"}, EMPTY, "NN") if prim_only(av) else AV(av.o, av.t, av.i, "")

    _CMP = {ast.Eq: "__eq__", ast.NotEq: "__eq__", ast.Lt: "__lt__", ast.LtE: "__le__",
            ast.Gt: "__gt__", ast.GtE: "__ge__"}

    def e_Compare(self, e, env):
        left = self.eval(e.left, env)
        for op, c in zip(e.ops, e.comparators):
            right = self.eval(c, env)
            d = self._CMP.get(type(op))
            if d:
                self.dunder(left, d, [right], e)
                self.dunder(right, d, [left], e)
            elif isinstance(op, (ast.In, ast.NotIn)):
                self.dunder(right, "__contains__", [left], e)
            left = right
        tv = self.truth(e, env)
        return AV(t={"prim"}, c={True: "True", False: "False", None: "NN"}[tv])

    _BIN = {ast.Add: "__add__", ast.Sub: "__sub__", ast.Mult: "__mul__", ast.Mod: "__mod__",
            ast.Div: "__truediv__", ast.FloorDiv: "__floordiv__", ast.BitOr: "__or__",
            ast.BitAnd: "__and__", ast.BitXor: "__xor__", ast.Pow: "__pow__"}

    def e_BinOp(self, e, env):
        a = self.eval(e.left, env)
        b = self.eval(e.right, env)
        if prim_only(a) and (prim_only(b) or isinstance(e.op, ast.Mod)):
            return AV(t={"prim"}, c="NN")
        d = self._BIN.get(type(e.op))
        r = BOT
        if d:
            r = join(self.dunder(a, d, [b], e), self.dunder(b, "__r" + d[2:], [a], e))
        return join(r, AV(a.o | b.o, a.t | b.t, a.i | b.i, "NN"))

    def e_Subscript(self, e, env):
        base = self.eval(e.value, env)
        self.eval(e.slice, env)
        if isinstance(e.slice, ast.Slice):
            t = set()
            for tag in base.t:
                t.add("cont" if tag == "lxml" else tag)
            i = base.i | ({"lxml"} if "lxml" in base.t else EMPTY)
            return AV(base.o, t, i, "NN")
        mv = self.module_var_of(e.value, env)
        if mv and isinstance(e.slice, ast.Constant):
            kav = self.an.gvar_key(mv, e.slice.value, self.key)
            if kav is not None:
                return AV(base.o if not prim_only(kav) else EMPTY, kav.t, kav.i, "")
        r = item_of(base)
        for tag in base.t:
            if tag.startswith("inst:"):
                r = join(r, self.dunder(AV(base.o, {tag}), "__getitem__", [PRIM], e))
        return r

    # ---- attributes
    def cname(self):
        return self.cls.name if self.cls is not None else None

    def e_Attribute(self, e, env):
        v = e.value
        if isinstance(v, ast.Call) and isinstance(v.func, ast.Name) and v.func.id == "super":
            return self.super_member(e, env, None)
        base = self.eval(v, env)
        return self.load_attr(e, base, env)

    def load_attr(self, node, base, env):
        attr = mangle(node.attr, self.cname())
        if attr == "_do_init" and self.flag:
            return AV(t={"prim"}, c="True" if self.flag == "@new" else "False")
        r = BOT
        for tag in base.t:
            r = join(r, self.attr_on(tag, base, attr, node, env))
        return r

    def class_attr(self, ci, node):
        if isinstance(node, ast.Constant):
            return self.e_Constant(node, {})
        if isinstance(node, (ast.Tuple, ast.List, ast.Set, ast.Dict)):
            sub = FA(self.an, (f"{ci.module}:<module>", EMPTY))
            av = sub.eval(node, {})
            return AV(EMPTY, av.t, av.i, "NN")
        if isinstance(node, ast.Name):
            r = self.P.resolve(ci.module, node.id)
            if r is not None and r[0] != "var":
                return self.resolved_av(r)
        return UNK

    def field(self, attr, base):
        f = self.an.field_av(attr, self.key)
        if f is None:
            if attr.startswith("__") and attr.endswith("__"):
                return UNK
            if attr in self.P.stored_attrs:
                return BOT  # assigned somewhere in the code base: filled in by the fixpoint
            return AV(base.o, {"?"}, EMPTY, "")
        if prim_only(f) or (f.t <= {"prim", "cont"} and f.i and f.i <= {"prim"}):
            # plain data (ints, strings, lists of ints ...) cannot reach a tree
            return AV(EMPTY, f.t, f.i, "")
        return AV(base.o, f.t, f.i, "")

    def attr_on(self, tag, base, attr, node, env):
        P = self.P
        if tag == "prim" or tag == "fieldname":
            return PRIM
        if tag == "lxml":
            if attr in ("text", "tail", "tag", "prefix", "sourceline", "base"):
                return PRIM
            if attr == "attrib":
                return AV(base.o, {"attrib"}, EMPTY, "NN")
            if attr == "nsmap":
                return AV(EMPTY, {"cont"}, {"prim"}, "NN")
            return AV(base.o, {"?"}, EMPTY, "")
        if tag == "attrib":
            return PRIM
        if tag in ("std", "xpath"):
            return AV(base.o, {"std"}, base.i, "")
        if tag == "cont":
            return AV(base.o, {"?"}, EMPTY, "")
        if tag.startswith("mod:"):
            return AV(t={f"ext:{tag[4:]}.{attr}"}, c="NN")
        if tag.startswith("ext:"):
            return AV(t={f"{tag}.{attr}"}, c="NN")
        if tag.startswith("imod:"):
            m = tag[5:]
            r = P.resolve(m, attr)
            if r is not None:
                return self.resolved_av(r)
            sub = f"{m}.{attr}" if m else attr
            if sub in P.modules:
                return AV(t={"imod:" + sub}, c="NN")
            return UNK
        if tag.startswith("class:") or tag.startswith("class*:"):
            exact = tag.startswith("class:")
            ci = P.classes.get(tag.split(":", 1)[1])
            if ci is None:
                return UNK
            if attr in ("__name__", "__qualname__", "__module__", "__doc__"):
                return PRIM
            mems = [P.lookup(ci, attr)] if exact else P.cha(ci, attr)
            r = BOT
            for m in mems:
                if m is None:
                    continue
                if m.kind == "func":
                    r = join(r, AV(t={"func:" + m.fi.q}, c="NN"))
                elif m.kind == "prop":
                    r = join(r, UNK)
                else:
                    r = join(r, self.class_attr(ci, m.node))
            return r if not r.is_bot() else UNK
        if tag.startswith("inst:"):
            ci = P.classes.get(tag[5:])
            if ci is None:
                return AV(base.o, {"?"}, EMPTY, "")
            if attr == "__class__":
                return AV(t={"class*:" + ci.q}, c="NN")
            if attr == "__dict__":
                return AV(EMPTY, {"cont"}, {"fieldname"}, "NN")
            mems = P.cha(ci, attr)
            r = BOT
            recv = AV(base.o, {tag}, EMPTY, "NN")
            for m in mems:
                if m.kind == "prop":
                    if m.prop.fget is not None:
                        r = join(r, self.call_func(m.prop.fget, recv, CallSite(node), env, node.value))
                elif m.kind == "func":
                    if m.fi.kind == "method":
                        r = join(r, AV(base.o, {"bound:" + m.fi.q}, EMPTY, "NN"))
                    else:
                        r = join(r, AV(t={"func:" + m.fi.q}, c="NN"))
                else:
                    r = join(r, self.class_attr(ci, m.node))
            if not mems or self.an.field_av(attr, self.key) is not None:
                if mems and self.an.field_av(attr, self.key) is None:
                    pass
                else:
                    r = join(r, self.field(attr, base))
            return r
        if tag == "?":
            r = BOT
            known = False
            for prop in self.P.props_by_name.get(attr, ()):
                known = True
                if prop.fget is not None:
                    r = join(r, self.call_func(prop.fget, AV(base.o, {"inst:" + prop.cls.q}, EMPTY, "NN"),
                                               CallSite(node), env, node.value))
            if attr in ("text", "tail", "tag", "prefix"):
                known = True
                r = join(r, PRIM)
            if attr == "attrib":
                known = True
                r = join(r, AV(base.o, {"attrib"}, EMPTY, "NN"))
            if attr in ("is_text", "is_tail"):
                known = True
                r = join(r, PRIM)
            for fi in self.P.methods_by_name.get(attr, ()):
                known = True
                if fi.kind == "method":
                    r = join(r, AV(base.o, {"bound:" + fi.q}, EMPTY, "NN"))
                else:
                    r = join(r, AV(t={"func:" + fi.q}, c="NN"))
            f = self.an.field_av(attr, self.key)
            if f is not None:
                known = True
                r = join(r, AV(base.o, f.t, f.i, ""))
            if not known:
                return self.field(attr, base)
            return r
        return AV(base.o, {"?"}, EMPTY, "")

    def super_member(self, node, env, call):
        """super().attr  /  super().attr(...)"""
        P = self.P
        ci = self.cls
        fi = self.fi
        while fi.kind == "nested":
            fi = fi.parent
        sname = fi.self_name or (fi.pos[0] if fi.pos else None)
        recv = self.lookup(sname, env) if sname else UNK
        if ci is None:
            if call is not None:
                self.unknown_call("super()." + node.attr, node)
            return UNK
        attr = mangle(node.attr, ci.name)
        r = BOT
        for m in P.cha(ci, attr, after=ci):
            if m.kind == "func":
                if call is None:
                    r = join(r, AV(recv.o, {"bound:" + m.fi.q}, EMPTY, "NN"))
                    continue
                flag = self.flag if (attr == "__init__" and self.fi.name == "__init__") else None
                if m.fi.kind == "static":
                    r = join(r, self.call_func(m.fi, None, call, env))
                else:
                    r = join(r, self.call_func(m.fi, recv, call, env, ast.Name(id=sname or "self"), flag))
            elif m.kind == "prop" and m.prop.fget is not None:
                v = self.call_func(m.prop.fget, recv, CallSite(node), env, ast.Name(id=sname or "self"))
                if call is not None:
                    v = self.call_value(v, call, env, node, node.attr)
                r = join(r, v)
        return r

    def store_attr(self, node, base, v, env, how):
        attr = mangle(node.attr, self.cname())
        line = node
        if (self.fi.q, attr + "=") in self.an.assume_pure:
            return  # what-if run: this assignment is assumed removed (known finding)
        for tag in base.t:
            if tag == "lxml":
                self.write(base, line, f"{how} .{attr} of an lxml node")
            elif tag.startswith("inst:"):
                ci = self.P.classes.get(tag[5:])
                mems = self.P.cha(ci, attr) if ci is not None else []
                plain = not mems
                recv = AV(base.o, {tag}, EMPTY, "NN")
                for m in mems:
                    if m.kind == "prop":
                        if m.prop.fset is not None and how != "del":
                            self.call_func(m.prop.fset, recv, CallSite(node, [v], [None]), env, node.value)
                        elif how == "del":
                            self.unknown_call("deleter:" + attr, node)
                    else:
                        plain = True
                if plain:
                    self.an.add_field(attr, v)
                    self.taint(node.value, v.o, env)
            elif tag == "?":
                for prop in self.P.props_by_name.get(attr, ()):
                    if prop.fset is not None:
                        self.call_func(prop.fset, AV(base.o, {"inst:" + prop.cls.q}, EMPTY, "NN"),
                                       CallSite(node, [v], [None]), env, node.value)
                if attr in ("text", "tail", "tag", "base"):
                    self.write(base, line, f"{how} .{attr} of a possible lxml node")
                elif not self.P.props_by_name.get(attr):
                    self.an.add_field(attr, v)
                self.taint(node.value, v.o, env)
            else:
                self.an.add_field(attr, v)
                self.taint(node.value, v.o, env)

    def store_subscript(self, node, base, v, env, how):
        for tag in base.t:
            if tag == "lxml":
                self.write(base, node, f"{how} item of an lxml node")
                if "lxml" in v.t or "?" in v.t or "cont" in v.t:
                    self.write(v, node, "lxml node moved by item assignment")
            elif tag == "attrib":
                self.write(base, node, f"{how} .attrib[...]")
            elif tag == "?":
                self.write(base, node, f"{how} item of a possible lxml node")
                self.taint(node.value, v.o, env)
            elif tag.startswith("inst:"):
                self.dunder(AV(base.o, {tag}), "__delitem__" if how == "del" else "__setitem__", [PRIM, v], node)
                self.taint(node.value, v.o, env)
            else:
                self.taint(node.value, v.o, env)
                tgt = node.value
                if isinstance(tgt, ast.Name) and tgt.id in env and "cont" in env[tgt.id].t and v.t:
                    old = env[tgt.id]
                    self.bind(env, tgt.id, AV(old.o, old.t, old.i | v.t, old.c))
                elif isinstance(tgt, ast.Attribute):
                    self.an.add_field(mangle(tgt.attr, self.cname()), AV(EMPTY, EMPTY, v.t, ""))
                mv = self.module_var_of(tgt, env)
                if mv is not None and how != "del":
                    self.gwrite(mv[1])
                    self.sum.captures["global"] = self.sum.captures.get("global", EMPTY) | v.o
                    if isinstance(node.slice, ast.Constant):
                        self.an.add_gvar_key(mv, node.slice.value, v)
                    else:
                        self.an.add_gvar_key(mv, None, v)

    # ---- calls
    def e_Call(self, e, env):
        args, arg_exprs, star = [], [], None
        for a in e.args:
            if isinstance(a, ast.Starred):
                star = join(star, self.eval(a.value, env))
            else:
                args.append(self.eval(a, env))
                arg_exprs.append(a)
        kwargs, kw_exprs, dstar = {}, {}, None
        for k in e.keywords:
            v = self.eval(k.value, env)
            if k.arg is None:
                dstar = join(dstar, v)
            else:
                kwargs[k.arg] = v
                kw_exprs[k.arg] = k.value
        call = CallSite(e, args, arg_exprs, kwargs, kw_exprs, star, dstar)
        f = e.func
        if isinstance(f, ast.Attribute) and (self.fi.q, f.attr) in self.an.assume_pure:
            return PRIM  # what-if run: this call is assumed to be removed (known finding)
        if isinstance(f, ast.Attribute):
            v = f.value
            # Element.clone.fget(self)
            if f.attr in ("fget", "fset") and isinstance(v, ast.Attribute):
                cav = self.eval(v.value, env)
                for tag in cav.t:
                    if tag.startswith(("class:", "class*:")):
                        ci = self.P.classes.get(tag.split(":", 1)[1])
                        m = self.P.lookup(ci, mangle(v.attr, self.cname())) if ci else None
                        if m is not None and m.kind == "prop":
                            fn = m.prop.fget if f.attr == "fget" else m.prop.fset
                            if fn is not None and args:
                                rest = CallSite(e, args[1:], arg_exprs[1:], kwargs, kw_exprs, star, dstar)
                                return self.call_func(fn, args[0], rest, env, arg_exprs[0])
                self.unknown_call(ast.unparse(f), e)
                return UNK
            if isinstance(v, ast.Call) and isinstance(v.func, ast.Name) and v.func.id == "super":
                return self.super_member(f, env, call)
            # Element.__init__: kwargs.pop("tag_or_elem", None) under a constructor flag
            if (self.flag and f.attr in ("pop", "get") and isinstance(v, ast.Name) and v.id == self.fi.kwarg
                    and e.args and isinstance(e.args[0], ast.Constant) and e.args[0].value == "tag_or_elem"):
                kw = self.lookup(v.id, env)
                if self.flag == "@wrap":
                    return AV(kw.o, {"lxml"}, EMPTY, "NN")
                return AV(t={"prim"}, c="None")
            base = self.eval(v, env)
            return self.call_method(base, f, call, env)
        fav = self.eval(f, env)
        hint = f.id if isinstance(f, ast.Name) else ast.unparse(f)[:40]
        return self.call_value(fav, call, env, e, hint)

    def args_origins(self, call):
        o = set()
        for a in call.all_avs():
            o |= a.o
        return FS(o)

    def eval_default(self, fi, expr):
        if isinstance(expr, ast.Constant):
            return self.e_Constant(expr, {})
        if isinstance(expr, ast.Name):
            r = self.P.resolve(fi.module, expr.id)
            if r is not None and r[0] in ("func", "class"):
                return self.resolved_av(r)
            if r is not None and r[0] == "var":
                g = self.an.gvar(r[1], r[2], self.key)
                return AV(g.o, g.t, g.i, "")
            return UNK
        if isinstance(expr, (ast.Tuple, ast.List, ast.Dict, ast.Set)):
            return AV(t={"cont"}, i={"prim"}, c="NN")
        if isinstance(expr, ast.UnaryOp) and isinstance(expr.operand, ast.Constant):
            return AV(t={"prim"}, c="NN")
        return UNK

    def bind_params(self, fi, recv, call):
        params = list(fi.pos)
        bound, bexpr = {}, {}
        idx = 0
        if fi.kind in ("method", "class", "nested") and recv is not None and params:
            # "nested" with a receiver: the PropDef-generated property closures
            bound[params[0]] = recv
            idx = 1
        for a, ex in zip(call.args, call.arg_exprs):
            if idx < len(params):
                bound[params[idx]] = a
                bexpr[params[idx]] = ex
                idx += 1
            elif fi.vararg:
                bound[fi.vararg] = join(bound.get(fi.vararg), AV(a.o, {"cont"}, a.t, "NN"))
        for k, a in call.kwargs.items():
            if k in params or k in fi.kwonly:
                bound[k] = a
                bexpr[k] = call.kw_exprs.get(k)
            elif fi.kwarg:
                bound[fi.kwarg] = join(bound.get(fi.kwarg), AV(a.o, {"cont"}, a.t, "NN"))
        for p in params[idx:] + fi.kwonly:
            if p in bound:
                continue
            d = self.eval_default(fi, fi.defaults[p]) if p in fi.defaults else None
            extra = BOT
            if call.star is not None and p in params:
                extra = join(extra, item_of(call.star))
            if call.dstar is not None:
                extra = join(extra, item_of(call.dstar))
            if d is None and extra.is_bot():
                continue
            bound[p] = d if extra.is_bot() else AV((d.o if d else EMPTY) | extra.o,
                                                   (d.t if d else EMPTY) | extra.t,
                                                   (d.i if d else EMPTY) | extra.i, "")
        if call.star is not None and fi.vararg:
            bound[fi.vararg] = join(bound.get(fi.vararg), AV(call.star.o, {"cont"}, item_of(call.star).t, "NN"))
        if call.dstar is not None and fi.kwarg:
            bound[fi.kwarg] = join(bound.get(fi.kwarg), AV(call.dstar.o, {"cont"}, item_of(call.dstar).t, "NN"))
        return bound, bexpr

    def related(self, fi):
        """'child' if fi is nested in the current function, 'sibling' if both share
        an enclosing function chain, else None."""
        if fi.kind != "nested":
            return None
        if fi.parent is self.fi:
            return "child"
        p = self.fi
        while p is not None and p.kind == "nested":
            p = p.parent
            if fi.parent is p:
                return "sibling"
        if self.fi.kind == "nested" and fi.parent is self.fi.parent:
            return "sibling"
        return None

    def call_func(self, fi, recv, call, env, recv_expr=None, flag=None):
        bound, bexpr = self.bind_params(fi, recv, call)
        spec = set()
        for p in fi.relevant:
            av = bound.get(p)
            if p.startswith("s:"):
                av = bound.get(p[2:])
                if av is not None and av.c.startswith("s:"):
                    spec.add((p[2:], av.c))
                continue
            if av is not None and av.c in ("None", "True", "False") and p != fi.self_name:
                spec.add((p, av.c))
        if flag:
            spec.add((flag, ""))
        ckey = self.an.make_key(fi.q, FS(spec))
        s = self.an.summary(ckey, self.key)
        for p, av in bound.items():
            self.an.add_param(fi.q, p, av)
        rel = self.related(fi)
        sname = fi.self_name
        self_o = recv.o if (recv is not None and fi.kind == "method") else (
            bound[sname].o if sname and sname in bound else EMPTY)
        if recv is None and sname and sname in bexpr:
            recv_expr = bexpr[sname]

        def mp(o):
            if o == "self":
                return self_o
            if o.startswith("arg:"):
                av = bound.get(o[4:])
                return av.o if av is not None else EMPTY
            if o.startswith("outer:"):
                x = o[6:]
                if rel == "child":
                    return FS({x})
                if rel == "sibling":
                    return FS({o})
                return FS({"fresh"}) if x == "fresh" else FS({"global"})
            return FS({o})

        def mps(os):
            out = set()
            for o in os:
                out |= mp(o)
            return FS(out)

        line = getattr(call.node, "lineno", 0)
        for o in s.effects:
            self.effect(mp(o), line, f"call {fi.q}", ckey, o)
        if s.fresh:
            self.sum.fresh = True
        self._self_captured = EMPTY
        for o, srcs in s.captures.items():
            src_m = mps(srcs)
            if not src_m:
                continue
            expr = None
            if o == "self":
                expr = recv_expr
                self._self_captured = src_m
            elif o.startswith("arg:"):
                expr = bexpr.get(o[4:])
            if o == "global":
                self.sum.captures["global"] = self.sum.captures.get("global", EMPTY) | src_m
            elif expr is not None:
                self.taint(expr, src_m, env)
            else:
                for m in mp(o):
                    if m != "fresh" and not m.startswith("unknown-call:"):
                        self.sum.captures[m] = self.sum.captures.get(m, EMPTY) | (src_m - {m})
        if s.ctaints:
            for var, srcs in s.ctaints.items():
                src_m = mps(srcs)
                if rel == "child" and var in env:
                    self.taint(ast.Name(id=var), src_m, env)
                elif var in self.closure:
                    self.taint(ast.Name(id=var), src_m, env)
        if s.gwrites:
            self.sum.gwrites |= s.gwrites
            self.sum.gw_unrestored |= (s.gw_unrestored - self.gw_protected)
        r = s.ret
        return AV(mps(r.o), r.t, r.i, r.c)

    def construct(self, ci, exact, call, env, node):
        P = self.P
        elem = P.is_element(ci)
        flag = None
        if elem:
            if "tag_or_elem" in call.kwargs:
                flag = "@wrap"
            elif call.dstar is None:
                flag = "@new"
        targets = [ci] if exact else [ci, *sorted(ci.subs, key=lambda c: c.q)]
        base_o = call.kwargs["tag_or_elem"].o if flag == "@wrap" else FS({"fresh"})
        captured = set()
        for c in targets:
            m = P.lookup(c, "__init__")
            if m is not None and m.kind == "func":
                inst = AV(base_o, {"inst:" + c.q}, EMPTY, "NN")
                self.call_func(m.fi, inst, call, env, None, flag if P.is_element(c) else None)
                captured |= self._self_captured
        return AV(base_o | self.args_origins(call) | captured, {"inst:" + ci.q}, EMPTY, "NN")

    def callbacks(self, call, item):
        """Function-typed arguments of a builtin/stdlib call are called back."""
        r = BOT
        for a in call.all_avs():
            for tag in a.t:
                if tag.startswith("func:") or tag.startswith("bound:"):
                    fi = self.P.funcs.get(tag.split(":", 1)[1])
                    if fi is None:
                        continue
                    n = len([p for p in fi.pos if p not in fi.defaults])
                    if tag.startswith("bound:") or (fi.kind == "method" and False):
                        recv = AV(a.o, {"inst:" + fi.cls.q} if fi.cls else {"?"}, EMPTY, "NN")
                        r = join(r, self.call_func(fi, recv, CallSite(call.node, [item] * max(n - 1, 0), [None] * max(n - 1, 0)), {}))
                    else:
                        r = join(r, self.call_func(fi, None, CallSite(call.node, [item] * n, [None] * n), {}))
                elif tag in ("?", "callable") and False:
                    pass
        return r

    def call_value(self, av, call, env, node, hint):
        r = BOT
        for tag in av.t:
            if tag.startswith("func:"):
                fi = self.P.funcs.get(tag[5:])
                if fi is None:
                    self.unknown_call(hint, node)
                else:
                    r = join(r, self.call_func(fi, None, call, env))
            elif tag.startswith("bound:"):
                fi = self.P.funcs.get(tag[6:])
                if fi is None:
                    self.unknown_call(hint, node)
                else:
                    recv = AV(av.o, {"inst:" + fi.cls.q} if fi.cls else {"?"}, EMPTY, "NN")
                    r = join(r, self.call_func(fi, recv, call, env))
            elif tag.startswith("class:") or tag.startswith("class*:"):
                ci = self.P.classes.get(tag.split(":", 1)[1])
                if ci is None:
                    self.unknown_call(hint, node)
                else:
                    r = join(r, self.construct(ci, tag.startswith("class:"), call, env, node))
            elif tag == "xpath":
                o = call.args[0].o if call.args else EMPTY
                r = join(r, AV(o, {"cont", "prim"}, {"lxml", "prim"}, "NN"))
            elif tag.startswith("ext:"):
                r = join(r, self.call_ext(tag[4:], call, env, node))
            elif tag.startswith("builtin:"):
                r = join(r, self.call_builtin(tag[8:], call, env, node))
            elif tag == "?":
                self.unknown_call(hint, node)
                r = join(r, AV(av.o | self.args_origins(call), {"?"}, EMPTY, ""))
            elif tag.startswith("inst:"):
                r = join(r, self.dunder(AV(av.o, {tag}), "__call__", call.args, node))
            elif tag == "callable":
                r = join(r, AV(self.args_origins(call), {"?"}, EMPTY, ""))
            else:
                r = join(r, AV(av.o | self.args_origins(call), {"std"}, EMPTY, ""))
        return r

    def dunder(self, av, name, args, node):
        r = BOT
        if not av.t:
            return r
        call = CallSite(node, list(args), [None] * len(args))
        for tag in av.t:
            if tag.startswith("inst:"):
                ci = self.P.classes.get(tag[5:])
                if ci is None:
                    continue
                for m in self.P.cha(ci, name):
                    if m.kind == "func":
                        r = join(r, self.call_func(m.fi, AV(av.o, {tag}, EMPTY, "NN"), call, {}))
            elif tag == "?":
                for fi in self.P.methods_by_name.get(name, ()):
                    r = join(r, self.call_func(fi, AV(av.o, {"inst:" + fi.cls.q}, EMPTY, "NN"), call, {}))
            elif tag == "cont" and name in ("__str__", "__repr__") and av.i - {"prim", "cont"}:
                r = join(r, self.dunder(item_of(av), "__repr__", [], node))
        return r

    def call_ext(self, dotted, call, env, node):
        last = dotted.rsplit(".", 1)[-1]
        args = call.args
        a0 = args[0] if args else BOT
        if last == "deepcopy" and dotted.startswith("copy"):
            self.dunder(a0, "__deepcopy__", [PRIM], node)
            return AV({"fresh"}, a0.t, a0.i, a0.c if a0.c == "None" else "NN")
        if dotted == "copy.copy":
            return AV(a0.o | {"fresh"}, a0.t, a0.i, "NN")
        if dotted.startswith("lxml"):
            if last in ETREE_WRITE:
                self.write(a0, node, f"etree.{last}() on a live tree")
                return AV(a0.o, {"lxml"}, EMPTY, "NN")
            if last in ETREE_FRESH:
                return AV({"fresh"}, {"lxml"}, EMPTY, "NN")
            if last in ("tostring", "tounicode", "tostringlist", "dump", "iselement", "QName"):
                if last == "tostring" and self.an.strict_tostring:
                    self.write(a0, node, "etree.tostring() (strict mode: potential writer)")
                return AV(t={"prim"}, c="NN")
            if last in ("XPath", "ETXPath"):
                return AV(t={"xpath"}, c="NN")
            if self.args_origins(call) - {"fresh"}:
                self.unknown_call("lxml." + last, node)
            return AV(self.args_origins(call), {"?"}, EMPTY, "")
        self.callbacks(call, AV(self.args_origins(call), {"?"}, EMPTY, ""))
        if last in PRIM_ANN or last in ("sub", "subn", "escape", "fill", "wrap", "dedent", "join",
                                        "quote", "unquote", "guess_type", "getcwd", "b64encode",
                                        "standard_b64decode", "standard_b64encode", "b64decode"):
            return AV(t={"prim"} if last != "subn" and last != "wrap" else {"cont"}, i={"prim"} if last in ("subn", "wrap") else EMPTY, c="NN")
        if dotted.startswith("itertools"):
            i = set()
            for a in call.all_avs():
                i |= item_of(a).t if last != "from_iterable" else {"?"}
            return AV(self.args_origins(call), {"cont"}, i, "NN")
        if last == "cast" and len(args) == 2:
            return args[1]
        o = self.args_origins(call)
        i = {"?"} if any(a.o and not prim_only(a) for a in call.all_avs()) else EMPTY
        return AV(o, {"std"}, i, "NN")

    def call_builtin(self, name, call, env, node):
        args = call.args
        a0 = args[0] if args else BOT
        allo = self.args_origins(call)
        if name in BUILTIN_STR:
            for a in args:
                self.dunder(a, "__repr__" if name == "repr" else "__str__", [], node)
            return AV(t={"prim"}, c="NN")
        if name == "len":
            self.dunder(a0, "__len__", [], node)
            return AV(t={"prim"}, c="NN")
        if name == "bool":
            self.dunder(a0, "__bool__", [], node)
            return AV(t={"prim"}, c="NN")
        if name in BUILTIN_PRIM:
            return AV(t={"prim"}, c="NN")
        if name in BUILTIN_CONT:
            for a in args:
                self.dunder(a, "__iter__", [], node)
            i = set()
            if name in ("enumerate", "zip"):
                i = {"cont"}
            elif name in ("range", "dir"):
                i = {"prim"}
            elif name == "map":
                cb = self.callbacks(call, joinall(item_of(a) for a in args[1:]))
                i = set(cb.t) or {"?"}
                allo |= cb.o
            elif name == "dict":
                for a in args:
                    i |= item_of(a).t if a.t <= {"cont"} and a.i <= {"prim", "cont"} and False else (a.i or {"?"})
                for a in call.kwargs.values():
                    i |= a.t
            else:
                if name in ("filter", "sorted"):
                    self.callbacks(call, joinall(item_of(a) for a in args))
                for a in (args[1:] if name == "filter" else args[:1]):
                    i |= item_of(a).t
            return AV(allo, {"cont"}, i, "NN")
        if name in BUILTIN_ITEM:
            if name in ("any", "all"):
                return AV(t={"prim"}, c="NN")
            self.callbacks(call, joinall(item_of(a) for a in args))
            r = BOT
            for a in args:
                r = join(r, item_of(a) if ("cont" in a.t or "std" in a.t) else a)
                if len(args) > 1:
                    r = join(r, a)
            return AV(r.o, r.t or {"prim"}, r.i, "")
        if name == "getattr":
            base = a0
            r = args[2] if len(args) > 2 else BOT
            if len(args) > 1 and args[1].c.startswith("s:") and call.arg_exprs[0] is not None:
                fake = ast.Attribute(value=call.arg_exprs[0], attr=args[1].c[2:], ctx=ast.Load())
                ast.copy_location(fake, node)
                return join(r, self.load_attr(fake, base, env))
            fieldwise = len(args) > 1 and args[1].t == {"fieldname"}
            for prop in ([] if fieldwise else self.all_props(base)):
                if prop.fget is not None:
                    r = join(r, self.call_func(prop.fget, AV(base.o, {"inst:" + prop.cls.q}, EMPTY, "NN"),
                                               CallSite(node), env))
            return join(r, AV(base.o, {"?"}, EMPTY, ""))
        if name in ("setattr", "delattr"):
            base = a0
            v = args[2] if len(args) > 2 else BOT
            if len(args) > 1 and args[1].c.startswith("s:") and call.arg_exprs[0] is not None:
                fake = ast.Attribute(value=call.arg_exprs[0], attr=args[1].c[2:], ctx=ast.Store())
                ast.copy_location(fake, node)
                self.store_attr(fake, base, v, env, "setattr" if name == "setattr" else "del")
                return PRIM
            # setattr(obj, name, v) with name drawn from some `x.__dict__`: field-wise
            # copy of instance fields (never properties), the field types are preserved
            fieldwise = len(args) > 1 and args[1].t == {"fieldname"}
            for prop in ([] if fieldwise else self.all_props(base)):
                if prop.fset is not None:
                    self.call_func(prop.fset, AV(base.o, {"inst:" + prop.cls.q}, EMPTY, "NN"),
                                   CallSite(node, [v], [None]), env)
            if "lxml" in base.t:
                self.write(base, node, "setattr on an lxml node")
            if name == "setattr" and not fieldwise and any(
                    not x.startswith(("class:", "class*:")) for x in base.t):
                self.an.add_field("*", v)
            if call.arg_exprs and call.arg_exprs[0] is not None:
                self.taint(call.arg_exprs[0], v.o, env)
            return PRIM
        if name == "type":
            if len(args) == 1:
                # a class object: harmless unless it is instantiated
                t = {"class*:" + x[5:] for x in a0.t if x.startswith("inst:")}
                return AV(t=t or {"std"}, c="NN")
            return UNK
        if name == "super":
            return UNK
        if name in BUILTIN_UNKNOWN:
            self.unknown_call(name, node)
            return AV(allo, {"?"}, EMPTY, "")
        if name in BUILTIN_EXC or name in ("open", "object", "memoryview"):
            return AV(allo, {"std"}, EMPTY, "NN")
        if name in ("property", "staticmethod", "classmethod"):
            return UNK
        return AV(allo, {"?"}, EMPTY, "")

    def all_props(self, base):
        out = []
        for tag in base.t:
            if tag.startswith("inst:"):
                ci = self.P.classes.get(tag[5:])
                if ci is None:
                    continue
                for c in {*ci.mro, *ci.subs, *(x for s in ci.subs for x in s.mro)}:
                    for m in c.members.values():
                        if m.kind == "prop" and m.prop not in out:
                            out.append(m.prop)
            elif tag == "?":
                for props in self.P.props_by_name.values():
                    for p in props:
                        if p not in out:
                            out.append(p)
        return out

    def call_method(self, base, f, call, env):
        name = mangle(f.attr, self.cname())
        r = BOT
        for tag in base.t:
            r = join(r, self.method_on(tag, base, name, f, call, env))
        return r

    def method_on(self, tag, base, name, f, call, env):
        P = self.P
        node = call.node
        args = call.args
        allo = self.args_origins(call)
        if tag == "fieldname":
            return AV(t={"prim"}, c="NN")
        if tag == "prim":
            if name == "getparent":
                return AV(base.o, {"lxml"}, EMPTY, "")
            if name in ("format", "join", "__mod__"):
                for a in args:
                    self.dunder(a, "__str__", [], node)
                    if name == "join":
                        self.dunder(item_of(a), "__str__", [], node)
            if name in PRIM_CONT:
                return AV(EMPTY, {"cont"}, {"prim"}, "NN")
            return AV(t={"prim"}, c="NN")
        if tag == "cont":
            if name in CONT_MUT:
                self.taint(f.value, allo, env)
                tgt = f.value
                newi = set()
                for a in args:
                    newi |= item_of(a).t if name in ("extend", "update", "extendleft") else a.t
                for a in call.kwargs.values():
                    newi |= a.t
                if isinstance(tgt, ast.Name) and tgt.id in env and newi:
                    old = env[tgt.id]
                    self.bind(env, tgt.id, AV(old.o, old.t, old.i | newi, old.c))
                elif isinstance(tgt, ast.Attribute) and newi:
                    self.an.add_field(mangle(tgt.attr, self.cname()), AV(EMPTY, EMPTY, newi, ""))
                mv = self.module_var_of(tgt, env)
                if mv is not None:
                    self.gwrite(mv[1])
                    self.an.add_gvar_key(mv, None, AV(EMPTY, newi, EMPTY, ""))
                if name == "setdefault":
                    return join(item_of(base), args[1] if len(args) > 1 else PRIM)
                return PRIM
            mv = self.module_var_of(f.value, env)
            if name in CONT_ITEM:
                r = None
                if mv is not None and call.arg_exprs and isinstance(call.arg_exprs[0], ast.Constant):
                    kav = self.an.gvar_key(mv, call.arg_exprs[0].value, self.key)
                    if kav is not None:
                        r = AV(base.o if not prim_only(kav) else EMPTY, kav.t, kav.i, "")
                if r is None:
                    r = item_of(base)
                if name == "get":
                    r = join(r, args[1] if len(args) > 1 else AV(t={"prim"}, c="None"))
                    r = AV(r.o, r.t, r.i, "")
                if name == "pop" and len(args) > 1:
                    r = join(r, args[1])
                return r
            if mv is not None and name in ("clear", "remove", "sort", "reverse", "discard"):
                self.gwrite(mv[1])
            if name in CONT_SAME:
                return AV(base.o, {"cont"}, base.i if name != "keys" else {"prim"}, "NN")
            if name == "sort":
                self.callbacks(call, item_of(base))
            if name in ("send", "__next__"):
                return item_of(base)
            return AV(t={"prim"}, c="NN")
        if tag == "std":
            self.callbacks(call, AV(allo, {"?"}, EMPTY, ""))
            for a in args:
                if name in ("writerow", "write", "writelines", "writerows"):
                    self.dunder(a, "__str__", [], node)
                    self.dunder(item_of(a), "__str__", [], node)
            return AV(base.o | allo, {"std"}, base.i, "")
        if tag == "lxml":
            if name in LXML_WRITE:
                self.write(base, node, f"lxml {name}() on a live node")
                if name in LXML_MOVE:
                    for a in call.all_avs():
                        if a.t - {"prim"}:
                            self.write(a, node, f"lxml node moved by {name}()")
                return PRIM
            if name in LXML_NODE:
                return AV(base.o, {"lxml"}, EMPTY, "")
            if name in LXML_LIST:
                return AV(base.o, {"cont"}, {"lxml", "prim"}, "NN")
            if name in LXML_PRIM:
                return AV(t={"prim"}, c="")
            if name in LXML_FRESH:
                return AV({"fresh"}, {"lxml"}, EMPTY, "NN")
            if name in ("write", "write_c14n", "xinclude", "xslt", "relaxng", "xmlschema"):
                if name == "xinclude":
                    self.write(base, node, "lxml xinclude()")
                return PRIM
            self.unknown_call("lxml." + name, node)
            return AV(base.o, {"?"}, EMPTY, "")
        if tag == "attrib":
            if name in ATTRIB_WRITE:
                self.write(base, node, f".attrib.{name}() on a live node")
            return AV(t={"prim"} if name not in ("items", "keys", "values") else {"cont"},
                      i={"prim"} if name in ("items", "keys", "values") else EMPTY, c="")
        if tag == "xpath":
            return AV(call.args[0].o if call.args else EMPTY, {"cont", "prim"}, {"lxml", "prim"}, "NN")
        if tag.startswith(("mod:", "ext:", "imod:")):
            fav = self.attr_on(tag, base, name, f, env)
            return self.call_value(fav, call, env, node, name)
        if tag.startswith("builtin:"):
            if name == "__new__":
                t = set()
                for a in args:
                    t |= {"inst:" + x.split(":", 1)[1] for x in a.t if x.startswith(("class:", "class*:"))}
                return AV({"fresh"}, t or {"?"}, EMPTY, "NN")
            if tag[8:] in ("str", "dict", "list", "bytes", "int", "float", "set", "tuple"):
                return AV(allo, {"cont"} if name in PRIM_CONT or tag[8:] in ("dict", "list", "set", "tuple") else {"prim"}, {"prim"}, "NN")
            return AV(allo, {"?"}, EMPTY, "")
        if tag.startswith("func:") or tag.startswith("bound:") or tag == "callable":
            return UNK
        if tag.startswith("class:") or tag.startswith("class*:"):
            exact = tag.startswith("class:")
            ci = P.classes.get(tag.split(":", 1)[1])
            if ci is None:
                self.unknown_call(name, node)
                return UNK
            mems = [P.lookup(ci, name)] if exact else P.cha(ci, name)
            mems = [m for m in mems if m is not None]
            r = BOT
            for m in mems:
                if m.kind == "func":
                    if m.fi.kind == "class":
                        r = join(r, self.call_func(m.fi, AV(t={"class*:" + ci.q if not exact else tag}, c="NN"), call, env))
                    else:
                        r = join(r, self.call_func(m.fi, None, call, env))
                elif m.kind == "attr":
                    r = join(r, self.call_value(self.class_attr(ci, m.node), call, env, node, name))
                else:
                    self.unknown_call(f"{ci.name}.{name}", node)
            if not mems:
                if name == "__new__" or P.has_ext_base(ci):
                    return AV({"fresh"} | allo, {"inst:" + ci.q}, EMPTY, "NN")
                if name in ("__subclasses__", "mro"):
                    return AV(t={"cont"}, i={"class*:" + ci.q}, c="NN")
                self.unknown_call(f"{ci.name}.{name}", node)
            return r
        if tag.startswith("inst:"):
            ci = P.classes.get(tag[5:])
            if ci is None:
                self.unknown_call(name, node)
                return UNK
            recv = AV(base.o, {tag}, EMPTY, "NN")
            mems = P.cha(ci, name)
            r = BOT
            for m in mems:
                if m.kind == "func":
                    if m.fi.kind == "method":
                        r = join(r, self.call_func(m.fi, recv, call, env, f.value))
                    elif m.fi.kind == "class":
                        r = join(r, self.call_func(m.fi, AV(t={"class*:" + ci.q}, c="NN"), call, env))
                    else:
                        r = join(r, self.call_func(m.fi, None, call, env))
                elif m.kind == "prop":
                    if m.prop.fget is not None:
                        v = self.call_func(m.prop.fget, recv, CallSite(node), env, f.value)
                        r = join(r, self.call_value(v, call, env, node, name))
                else:
                    r = join(r, self.call_value(self.class_attr(ci, m.node), call, env, node, name))
            if not mems:
                fav = self.an.field_av(name, self.key)
                if fav is not None:
                    return self.call_value(AV(base.o, fav.t, fav.i, ""), call, env, node, name)
                if P.has_ext_base(ci):
                    return AV(EMPTY, {"prim"} if name not in PRIM_CONT else {"cont"}, {"prim"}, "NN")
                return BOT
            return r
        if tag == "?":
            r = BOT
            cands = P.methods_by_name.get(name, ())
            for fi in cands:
                if fi.kind == "method":
                    recv = AV(base.o, {"inst:" + fi.cls.q}, EMPTY, "NN")
                    r = join(r, self.call_func(fi, recv, call, env, f.value))
                elif fi.kind == "class":
                    r = join(r, self.call_func(fi, AV(t={"class*:" + fi.cls.q}, c="NN"), call, env))
                else:
                    r = join(r, self.call_func(fi, None, call, env))
            for prop in P.props_by_name.get(name, ()):
                if prop.fget is not None:
                    v = self.call_func(prop.fget, AV(base.o, {"inst:" + prop.cls.q}, EMPTY, "NN"),
                                       CallSite(node), env, f.value)
                    r = join(r, self.call_value(v, call, env, node, name))
            fav = self.an.field_av(name, self.key)
            if fav is not None and (fav.t - {"prim", "cont"}):
                r = join(r, self.call_value(AV(base.o, fav.t - {"prim", "cont"}, fav.i, ""), call, env, node, name))
            if name in LXML_WRITE:
                self.write(base, node, f"{name}() on a possible lxml node")
                if name in LXML_MOVE:
                    for a in call.all_avs():
                        if a.t - {"prim"}:
                            self.write(a, node, f"node possibly moved by {name}()")
            if name in CONT_MUT:
                self.taint(f.value, allo, env)
            if name == "getparent":
                return join(r, AV(base.o, {"lxml"}, EMPTY, ""))
            known = name in KNOWN_READ or name in LXML_WRITE or name in CONT_MUT
            if not cands and not known and fav is None and not P.props_by_name.get(name):
                if (base.o | allo) - {"fresh"}:
                    self.unknown_call(name, node)
            if known or not cands:
                r = join(r, AV(base.o | allo, {"?"}, EMPTY, ""))
            return r
        return AV(base.o | allo, {"?"}, EMPTY, "")


# --------------------------------------------------------------------------- whole-program fixpoint

MAX_SPECS = 48
_CALLABLE_TAGS = ("func:", "class:", "class*:", "bound:")


def default_src_root():
    repo = os.environ.get("PYVC_REPO")
    if repo:
        return os.path.join(repo, "src", "odfdo")
    return "/repo/src/odfdo"


class Analysis:
    def __init__(self, src_root=None, strict_tostring=False, verbose=False, assume_pure=None):
        self.src_root = src_root or default_src_root()
        self.strict_tostring = strict_tostring
        self.verbose = verbose
        self.P = Program(self.src_root)
        self.sums: dict = {}
        self.deps = defaultdict(set)
        self.work: deque = deque()
        self.queued: set = set()
        self.keys_of = defaultdict(set)
        self.field_avs: dict = {}
        self.field_deps = defaultdict(set)
        self.param_avs: dict = {}
        self.gkeys: dict = {}
        self.gdeps = defaultdict(set)
        self.errors: list = []
        self.runs = 0
        self.table_version = 0
        self.phases = 0
        self.frozen = False
        self.pess = False
        self.roots: set = set()
        self.assume_pure = set(assume_pure or ())
        self.entry_points: list = []
        self.entry_keys: dict = {}
        self.entry_default_keys: dict = {}
        self.summaries: dict = {}
        self.global_writes: dict = {}

    # ---- tables used by the function analyzer
    def enqueue(self, key):
        if key not in self.queued:
            self.queued.add(key)
            self.work.append(key)

    def make_key(self, q, spec):
        key = (q, spec)
        if key in self.sums:
            return key
        if len(self.keys_of[q]) >= MAX_SPECS:
            flags = FS(x for x in spec if x[0].startswith("@"))
            return (q, flags)
        return key

    def summary(self, key, requester):
        if requester is not None:
            self.deps[key].add(requester)
        s = self.sums.get(key)
        if s is None:
            s = self.sums[key] = Summary()
            self.keys_of[key[0]].add(key)
            self.enqueue(key)
        return s

    def parent_allenv(self, pq, requester):
        self.summary((pq, EMPTY), requester)
        out: dict = {}
        for k in list(self.keys_of[pq]):
            self.deps[k].add(requester)
            for v, a in self.sums[k].allenv.items():
                out[v] = join(out.get(v), a)
        return out

    def field_av(self, attr, requester):
        self.field_deps[attr].add(requester)
        f = self.field_avs.get(attr)
        w = self.field_avs.get("*")
        if w is not None and f is not None:
            return join(f, w)
        return f

    def add_field(self, attr, v):
        if (not v.t and not v.i) or self.frozen:
            return
        new = AV(EMPTY, v.t, v.i, "")
        old = self.field_avs.get(attr)
        j = new if old is None else join(old, new)
        j = AV(EMPTY, j.t, j.i, "")
        if old is None or j != old:
            self.field_avs[attr] = j
            self.table_version += 1
            for k in (self.field_deps[attr] if attr != "*" else list(self.sums)):
                self.enqueue(k)

    def param_av(self, q, p, requester):
        return self.param_avs.get((q, p), BOT)

    def add_param(self, q, p, av):
        fi = self.P.funcs[q]
        if self.is_private(fi):
            t = av.t
        else:
            t = FS(x for x in av.t if x.startswith(_CALLABLE_TAGS))
        i = av.i if "cont" in av.t else EMPTY
        if (not t and not i) or self.frozen:
            return
        old = self.param_avs.get((q, p), BOT)
        j = AV(EMPTY, old.t | t, old.i | i, "")
        if j != old:
            self.param_avs[(q, p)] = j
            self.table_version += 1
            for k in self.keys_of[q]:
                self.enqueue(k)

    def _gvar_keys(self, mv):
        return self.gkeys.get(mv, {})

    def gvar(self, mod, name, requester):
        s = self.summary((f"{mod}:<module>", EMPTY), requester)
        self.gdeps[(mod, name)].add(requester)
        av = s.allenv.get(name)
        if av is None:
            return BOT
        keys = self._gvar_keys((mod, name))
        i = set(av.i)
        for kav in keys.values():
            i |= kav.t
        harmless = ("func:", "class:", "class*:", "ext:", "mod:", "imod:", "builtin:")
        def live(tags):
            return any(x not in ("prim", "std", "xpath", "cont", "callable") and not x.startswith(harmless)
                       for x in tags)
        is_global = live(av.t) or ("cont" in av.t and (live(i) or (not i and bool(keys)) or (not i and not av.i)))
        if "cont" in av.t and not i:
            is_global = True
            if self.pess:
                i = {"?"}
        if prim_only(av):
            is_global = False
        return AV({"global"} if is_global else EMPTY, av.t, FS(i), "")

    def gvar_key(self, mv, key, requester):
        self.gdeps[mv].add(requester)
        keys = self._gvar_keys(mv)
        if key not in keys:
            return None
        return join(keys[key], keys.get(None))

    def add_gvar_key(self, mv, key, v):
        if self.frozen:
            return
        keys = self.gkeys.setdefault(mv, {})
        new = AV(EMPTY, v.t, v.i, "")
        old = keys.get(key)
        j = new if old is None else AV(EMPTY, old.t | new.t, old.i | new.i, "")
        if old is None or j != old:
            keys[key] = j
            self.table_version += 1
            for k in self.gdeps[mv]:
                self.enqueue(k)

    # ---- fixpoint
    def run_fixpoint(self):
        while self.work:
            key = self.work.popleft()
            self.queued.discard(key)
            self.runs += 1
            fa = FA(self, key)
            try:
                new = fa.run()
            except RecursionError:
                raise
            except Exception as exc:  # analysis bug: stay sound
                import traceback

                self.errors.append((key, repr(exc), traceback.format_exc()))
                new = fa.sum
                new.effects.setdefault(
                    "unknown-call:<analysis-error>", ("write", 0, f"analysis error {exc!r}", None, None)
                )
            old = self.sums[key]
            before = old.state()
            old.merge(new)
            if old.state() != before:
                for d in list(self.deps[key]):
                    self.enqueue(d)
                if self.P.funcs[key[0]].nested:
                    for nf in self.P.funcs[key[0]].nested.values():
                        for k in list(self.keys_of[nf.q]):
                            self.enqueue(k)

    def is_private(self, fi):
        if fi.kind == "nested":
            return True
        n = fi.name
        return n.startswith("_") and not (n.startswith("__") and n.endswith("__")) and fi.q not in self.roots

    def root_functions(self):
        P = self.P
        out = []
        for q, fi in P.funcs.items():
            if fi.kind in ("method", "static", "class") and fi.cls is not None:
                if not fi.name.startswith("_") or (fi.name.startswith("__") and fi.name.endswith("__")):
                    out.append(q)
        root = P.modules.get("")
        if root is not None:
            for name in root.ns:
                r = P.resolve("", name)
                if r and r[0] == "func":
                    out.append(r[1])
        return out

    # ---- entry points
    @staticmethod
    def is_read_name(name):
        if name.startswith("_") and name not in ("__str__", "__repr__"):
            return False
        if name.startswith(EXCL_PREFIXES):
            return False
        return name in READ_NAMES or name.startswith(READ_PREFIXES)

    def default_spec(self, fi):
        spec = set()
        for p in fi.relevant:
            d = fi.defaults.get(p)
            if isinstance(d, ast.Constant) and (d.value is None or d.value is True or d.value is False):
                spec.add((p, repr(d.value)))
        return FS(spec)

    def enumerate_entries(self):
        P = self.P
        classes = [P.class_by_name[n] for n in ENTRY_CLASSES if n in P.class_by_name]
        for ci in sorted(P.classes.values(), key=lambda c: c.q):
            if ci.module.split(".")[-1].startswith("mixin_") and ci not in classes:
                classes.append(ci)
        for ci in classes:
            for name, m in ci.members.items():
                if m.kind == "prop":
                    fi = m.prop.fget
                    if fi is None or fi.cls is not ci or m.prop.cls is not ci or name.startswith("_"):
                        continue
                    self._add_entry(fi.q, fi, EMPTY)
                elif m.kind == "func":
                    fi = m.fi
                    if fi.cls is not ci or fi.name != name or not self.is_read_name(name):
                        continue
                    if name == "replace" and "new" in fi.pos + fi.kwonly:
                        self._add_entry(fi.q + "[new=None]", fi, FS({("new", "None")}))
                    else:
                        self._add_entry(fi.q, fi, EMPTY)

    def _add_entry(self, label, fi, spec):
        if label in self.entry_keys:
            return
        self.entry_points.append(label)
        key = (fi.q, spec)
        self.entry_keys[label] = key
        self.summary(key, None)
        dspec = self.default_spec(fi) | spec
        if dspec != spec:
            dk = (fi.q, FS(x for x in dspec if (x[0], "None") not in spec or x[1] == "None"))
            self.entry_default_keys[label] = dk
            self.summary(dk, None)

    def run(self):
        t0 = time.time()
        PESSIMISTIC_ITEMS[0] = False
        for q in self.P.funcs:
            fi = self.P.funcs[q]
            if fi.kind == "module":
                self.summary((q, EMPTY), None)
        self.run_fixpoint()
        # roots of the closed world: every public or dunder method / property of
        # every class and the module-level functions exported by the package, with
        # arbitrary arguments; private helpers are analysed under the
        # specialisations their callers use.
        self.roots = set(self.root_functions())
        for q in self.roots:
            self.summary((q, EMPTY), None)
        self.enumerate_entries()
        self.run_fixpoint()
        # The type tables (fields, parameters, global dict keys) only grow, but a
        # summary computed while they were incomplete may contain stale effects:
        # recompute all summaries from bottom until a whole phase leaves the tables
        # unchanged.  The result is the least fixpoint w.r.t. the final tables.
        while True:
            self.phases += 1
            version = self.table_version
            self.errors = []
            for key in list(self.sums):
                self.sums[key] = Summary()
                self.enqueue(key)
            self.run_fixpoint()
            if self.table_version == version or self.phases >= 12:
                if self.pess:
                    break
                # tables stable under the optimistic defaults: switch to the
                # pessimistic ones (what is still unknown now is really unknown)
                self.pess = True
                PESSIMISTIC_ITEMS[0] = True
        # generic summaries of the remaining (internal) functions, for the record:
        # computed against the final tables, which they do not feed
        self.frozen = True
        for q in self.P.funcs:
            self.summary((q, EMPTY), None)
        self.run_fixpoint()
        for q, fi in self.P.funcs.items():
            s = self.sums[(q, EMPTY)]
            eff = set(s.effects)
            if s.fresh:
                eff.add("fresh")
            self.summaries[q] = eff
            if s.gwrites:
                self.global_writes[q] = {
                    "names": sorted(s.gwrites),
                    "restored_in_finally": not s.gw_unrestored,
                }
        self.elapsed = time.time() - t0
        return self

    # ---- verdicts
    @staticmethod
    def fmt_key(key):
        q, spec = key
        if not spec:
            return q
        return q + "[" + ",".join(f"{p}={c}" if c else p for p, c in sorted(spec)) + "]"

    def chain_of(self, key, origin):
        out, seen = [], set()
        while key is not None and (key, origin) not in seen:
            seen.add((key, origin))
            w = self.sums[key].effects.get(origin)
            if w is None:
                break
            kind, line, desc, ckey, co = w
            out.append({"fn": self.fmt_key(key), "line": line, "what": desc, "origin": origin})
            if kind == "write":
                break
            key, origin = ckey, co
        return out

    def verdict_of_key(self, key):
        s = self.sums[key]
        live = [o for o in s.effects if not o.startswith("unknown-call:")]
        unk = [o for o in s.effects if o.startswith("unknown-call:")]
        if live:
            live.sort(key=lambda o: (o != "self", not o.startswith("arg:"), o))
            return "may-mutate", self.chain_of(key, live[0])
        if unk:
            return "unknown", self.chain_of(key, sorted(unk)[0])
        return "pure", []

    def verdict(self, entry):
        key = self.entry_keys.get(entry)
        if key is None:
            cands = [e for e in self.entry_points if e.endswith(":" + entry) or e.endswith("." + entry)]
            if not cands:
                cands = [e for e in self.entry_points if entry in e]
            if len(cands) != 1 and (entry, EMPTY) in self.sums:
                return self.verdict_of_key((entry, EMPTY))
            if len(cands) != 1:
                raise KeyError(f"{entry!r}: {len(cands)} matching entry points")
            key = self.entry_keys[cands[0]]
        return self.verdict_of_key(key)

    def report(self):
        rows = []
        counts = {"pure": 0, "may-mutate": 0, "unknown": 0}
        for e in self.entry_points:
            key = self.entry_keys[e]
            v, chain = self.verdict_of_key(key)
            counts[v] += 1
            row = {"entry": e, "verdict": v, "chain": chain,
                   "effects": sorted(self.sums[key].effects)}
            dk = self.entry_default_keys.get(e)
            if dk is not None:
                dv, dchain = self.verdict_of_key(dk)
                row["verdict_with_default_arguments"] = dv
                row["default_spec"] = self.fmt_key(dk)
                if dv != v:
                    row["chain_with_default_arguments"] = dchain
            mod = getattr(self, "modulo", None)
            if mod is not None and v != "pure" and e in mod.entry_keys:
                mv, mchain = mod.verdict_of_key(mod.entry_keys[e])
                row["verdict_modulo_known_finding"] = mv
                if mv != "pure":
                    row["chain_modulo_known_finding"] = mchain
                else:
                    m2 = getattr(self, "modulo_f2", None)
                    only_f2 = m2 is not None and m2.verdict_of_key(m2.entry_keys[e])[0] == "pure"
                    row["depends_on_known_findings"] = (
                        ["F2:meta-wrap"] if only_f2 else ["F1:markdown-optimize_width", "F2:meta-wrap"])
                mdk = mod.entry_default_keys.get(e)
                if mdk is not None:
                    row["verdict_modulo_known_finding_default_arguments"] = mod.verdict_of_key(mdk)[0]
            s = self.sums[key]
            if s.gwrites:
                row["python_global_state_written"] = sorted(s.gwrites)
                row["global_state_restored_in_finally"] = not s.gw_unrestored
            rows.append(row)
        mcounts = None
        if getattr(self, "modulo", None) is not None:
            mcounts = {"pure": 0, "may-mutate": 0, "unknown": 0, "only_via_F2": 0, "via_F1": 0}
            for row in rows:
                mv = row.get("verdict_modulo_known_finding", row["verdict"])
                mcounts[mv] += 1
                dep = row.get("depends_on_known_findings")
                if dep:
                    mcounts["only_via_F2" if len(dep) == 1 else "via_F1"] += 1
        return {
            "src_root": self.src_root,
            "strict_tostring": self.strict_tostring,
            "functions": len(self.P.funcs),
            "classes": len(self.P.classes),
            "summaries_computed": len(self.sums),
            "function_analyses_run": self.runs,
            "phases": self.phases,
            "elapsed_s": round(getattr(self, "elapsed", 0.0), 2),
            "analysis_errors": [(self.fmt_key(k), e) for k, e, _ in self.errors],
            "entry_points": len(self.entry_points),
            "counts": counts,
            "counts_modulo_known_findings": mcounts,
            "assumed_removed": sorted(list(k) for k in self.assume_pure),
            "entries": rows,
        }


# Historical: on the tree before the "fix:" commits two defects (F1: MDTable._md_format
# called self.optimize_width() on the live table; F2: MetaAutoReload/MetaTemplate.__init__
# assigned attributes outside `if self._do_init:`) had to be assumed removed to see the
# rest.  Both are fixed upstream now, the default run assumes nothing.  The what-if
# mechanism itself stays available: analyze(assume_pure=[("mod:Class.func", "call"),
# ("mod:Class.func", "attr=")]) / --assume-removed FUNC:CALL.
KNOWN_FINDINGS: list = []


def analyze(src_root=None, strict_tostring=False, verbose=False, assume_pure=None, modulo_known=False):
    """Run the effect inference (one run, nothing assumed).  `assume_pure` is a list of
    (function, "call") / (function, "attr=") statements treated as removed (what-if)."""
    an = Analysis(src_root, strict_tostring, verbose, assume_pure).run()
    an.modulo = an.modulo_f2 = None
    if modulo_known and not assume_pure and KNOWN_FINDINGS:
        an.modulo = Analysis(src_root, strict_tostring, verbose, KNOWN_FINDINGS).run()
    return an


def short_chain(chain):
    parts = []
    for c in chain:
        parts.append(f"{c['fn']}:{c['line']}")
    s = " -> ".join(parts)
    if chain:
        s += f"  [{chain[-1]['what']}]"
    return s


def main(argv=None):
    ap = argparse.ArgumentParser(prog="python -m pyvc.effects", description=__doc__.split("\n\n")[0])
    ap.add_argument("--json", help="write the full report to this file")
    ap.add_argument("--entry", help="only print entry points containing this substring")
    ap.add_argument("--src-root", help="source root (default $PYVC_REPO/src/odfdo or /repo/src/odfdo)")
    ap.add_argument("--strict-tostring", action="store_true", help="treat etree.tostring as a potential writer")
    ap.add_argument("--assume-removed", action="append", default=[], metavar="FUNC:CALL",
                    help="what-if: treat the call .CALL() inside FUNC as removed")
    ap.add_argument("--no-modulo", action="store_true", help="(kept for compatibility, no effect)")
    ap.add_argument("--summary", help="print the summary of the functions whose name contains this substring")
    args = ap.parse_args(argv)
    assume = [tuple(x.rsplit(":", 1)) for x in args.assume_removed] or None
    an = analyze(args.src_root, args.strict_tostring, assume_pure=assume)
    if assume:
        print("# WHAT-IF run, statements assumed removed:", assume)
    rep = an.report()
    for row in rep["entries"]:
        if args.entry and args.entry not in row["entry"]:
            continue
        line = f"{row['verdict'].upper():<10} {row['entry']}"
        mv = row.get("verdict_modulo_known_finding")
        if mv == "pure":
            line += "  (only via known finding " + "+".join(
                x.split(":")[0] for x in row.get("depends_on_known_findings", [])) + ")"
        if row["chain"]:
            line += "  <- " + short_chain(row["chain"])
        if mv and mv != "pure":
            line += "   || other reason: " + short_chain(row["chain_modulo_known_finding"])
        dv = row.get("verdict_modulo_known_finding_default_arguments") if mv and mv != "pure" else \
            row.get("verdict_with_default_arguments")
        if dv and dv != (mv if mv and mv != "pure" else row["verdict"]):
            line += f"   (with default arguments: {dv.upper()})"
        print(line)
    if args.summary:
        for key in sorted(an.sums, key=an.fmt_key):
            if args.summary in key[0]:
                s = an.sums[key]
                print(f"SUMMARY {an.fmt_key(key)}: effects={sorted(s.effects)} fresh={s.fresh} ret={s.ret} "
                      f"captures={ {k: sorted(v) for k, v in s.captures.items()} } gwrites={sorted(s.gwrites)}")
    c = rep["counts"]
    print(f"# entry points: {rep['entry_points']}  pure: {c['pure']}  may-mutate: {c['may-mutate']}  "
          f"unknown: {c['unknown']}   ({rep['functions']} functions, {rep['summaries_computed']} summaries, "
          f"{rep['function_analyses_run']} analyses, {rep['elapsed_s']} s, {len(rep['analysis_errors'])} analysis errors)",
          file=sys.stderr if False else sys.stdout)
    m = rep.get("counts_modulo_known_findings")
    if m:
        print(f"# modulo the known findings (what-if run, {len(KNOWN_FINDINGS)} statements assumed removed): "
              f"pure: {m['pure']}  may-mutate: {m['may-mutate']}  unknown: {m['unknown']}   "
              f"[of the {m['pure'] - c['pure']} conditional ones: {m['only_via_F2']} depend only on F2 (meta wrap), "
              f"{m['via_F1']} also on F1 (markdown optimize_width)]")
    for k, e in rep["analysis_errors"][:10]:
        print(f"# ANALYSIS ERROR in {k}: {e}")
    if args.json:
        with open(args.json, "w") as f:
            json.dump(rep, f, indent=1)
    return 0


if __name__ == "__main__":
    sys.exit(main())
