"""Property-level driver: ./check <Cxx> [--tier quick|thorough] | replay <file> | list

Exit codes: 0 every obligation of the property discharged (known findings excepted);
1 at least one unlisted obligation refuted (VIOLATION line); 2 undecided; 3 checker crash.
"""
from __future__ import annotations

import importlib
import itertools
import json
import os
import sys
import time
import traceback
from concurrent.futures import ProcessPoolExecutor

ROOT = os.path.dirname(os.path.dirname(os.path.abspath(__file__)))
REPO = os.environ.get("PYVC_REPO", "/repo")
# runs against a scratch copy (mutants, seeded changes) must not overwrite the evidence of the real tree
OUT = os.environ.get("PYVC_OUT_DIR", ROOT)


def _setup_path():
    src = os.path.join(REPO, "src")
    if src not in sys.path:
        sys.path.insert(0, src)
    if ROOT not in sys.path:
        sys.path.insert(0, ROOT)


_setup_path()

import z3  # noqa: E402

from . import native, smt  # noqa: E402
from .engine import Engine, PathEnd, Unsupported, resolve_target  # noqa: E402
from .spec import REGISTRY  # noqa: E402

_LOADED = False


def load_specs():
    global _LOADED
    if _LOADED:
        return
    import specs

    for m in specs.MODULES:
        importlib.import_module(m)
    _LOADED = True


def sigcases(con):
    out = []
    for sig in con.sigs:
        names = list(sig)
        alts = [sig[n].alternatives() for n in names]
        out.extend(dict(zip(names, combo)) for combo in itertools.product(*alts))
    return out


def load_findings():
    p = os.path.join(ROOT, "known_findings.json")
    if not os.path.exists(p):
        return {"known": [], "fixed": []}
    with open(p) as f:
        return json.load(f)


# ------------------------------------------------------------------ worker
RLIMIT_PER_MS = 4000   # about one millisecond of z3 work on an idle core of this sandbox
CVC5_RLIMIT_FIRST = 500_000      # cvc5 resource units, about 5 s
CVC5_RLIMIT_LAST = 4_000_000     # about 2.5 min (quick tier; x3 thorough)
OLD_Z3_RLIMIT = 2_500_000_000   # /usr/bin/z3 (4.8.12): deterministic budget, about 3x the hardest VC on the unchanged tree


def solve_text(text, timeout_ms, use_cvc5=True, prefer=None):
    """z3 5.1 E-matching only (short), z3 5.1 with MBQI, the z3 4.8.12 binary, then cvc5, on the SMT-LIB text of one VC."""
    t0 = time.time()
    res, model, backend, reason = "unknown", None, "z3", ""
    has_str = " String" in text or "str." in text
    if prefer == "cvc5" or has_str:
        # string / real VCs: cvc5 first under a small deterministic budget (it decides most of them in milliseconds,
        # while z3's sequence solver spends its whole wall-clock allowance before giving up)
        r3, _t, reason3 = smt._solve_cvc5(text, 120000, rlimit=CVC5_RLIMIT_FIRST)
        if r3 == "unsat":
            return "discharged", None, "cvc5", "", time.time() - t0
    for mbqi, tmo in ((False, min(timeout_ms, 4000)), (True, timeout_ms)):
        # a fresh context per VC: the verdict is a function of the VC text, not of what the worker solved before
        ctx = z3.Context()
        s = z3.Solver(ctx=ctx)
        # deterministic resource budget (verdicts must not flip when the machine is loaded);
        # the wall-clock limit is only a generous safety net
        s.set("rlimit", tmo * RLIMIT_PER_MS)
        s.set("timeout", tmo * 12)
        if not mbqi:
            s.set("smt.mbqi", False)
        s.from_string(text)
        r = s.check()
        if r == z3.unsat:
            res, backend = "discharged", "z3" if not mbqi else "z3-mbqi"
            break
        if r == z3.sat:
            res, backend, model = "refuted", "z3" if not mbqi else "z3-mbqi", s.model().translate(z3.main_ctx())
            break
        reason = s.reason_unknown()
    if res == "unknown" and " String" not in text and "str." not in text:
        # (string VCs go straight to cvc5: the old sequence solver only burns its budget on them)
        # the Debian z3 4.8.12 binary: its quantifier instantiation order decides nested if-then-else
        # list terms that z3 5.1 leaves open; only `unsat` is used
        r2, _t, reason2 = smt._solve_z3_old(text, OLD_Z3_RLIMIT, 600)
        if r2 == "unsat":
            res, backend = "discharged", "z3-4.8.12"
        else:
            reason = reason + " | z3-4.8.12: " + reason2
    if res == "unknown" and use_cvc5:
        r3, _t, reason3 = smt._solve_cvc5(text, 900000, rlimit=CVC5_RLIMIT_LAST * (1 if timeout_ms <= 10000 else 3))
        if r3 == "unsat":
            res, backend = "discharged", "cvc5"
        elif r3 == "sat":
            res, backend = "refuted", "cvc5"
        else:
            reason = reason + " | cvc5: " + reason3
    return res, model, backend, reason, time.time() - t0


def gen_unit(job):
    """One (contract, signature case, input case): symbolic execution -> SMT-LIB texts of the VCs."""
    target, sc_index, pid, tier, exclusions, seed, case = job
    _setup_path()
    load_specs()
    con = REGISTRY[target]
    sc = sigcases(con)[sc_index]
    out = {"target": target, "sc_index": sc_index, "case": None, "in_case": case, "vcs": [], "undecided": None, "paths": 0,
           "assumptions": [], "src": None, "gen_s": 0.0, "cuts": []}
    t0 = time.time()
    try:
        en = Engine(con, sc, prop_filter={pid}, exclusions=exclusions.get(target), case=case)
        out["case"] = en.case_label
        out["src"] = en.src_info
        en.run()
    except Unsupported as e:
        out["undecided"] = f"unsupported: {e}"
        return out
    except RecursionError as e:  # pragma: no cover
        out["undecided"] = f"recursion: {e}"
        return out
    except PathEnd:
        raise
    except Exception as e:  # noqa
        # the contract (a loop invariant naming a local, a clause reading a field ...) does not fit the code as it is
        # now: the unit is undecided, the run goes on (a crash of the whole check would hide every other verdict)
        out["undecided"] = f"contract does not fit the code: {type(e).__name__}: {e}"
        return out
    out["gen_s"] = time.time() - t0
    out["paths"] = len(en.paths)
    out["cuts"] = sorted(en.cuts)
    out["assumptions"] = sorted(en.assumption_notes)
    for ob in en.obligations.values():
        if pid not in ob.props:
            continue
        out["vcs"].append({"name": ob.name, "kind": ob.kind, "size": len(ob.assumptions), "text": smt.to_smt2(ob)})
    return out


def solve_unit(job):
    """Discharge one VC; on sat / unknown look for a replayable input of the real function."""
    name, kind, size, text, tier, target, sc_index, seed, case = job
    _setup_path()
    load_specs()
    timeout_ms = 10000 if tier == "quick" else 60000
    res, model, backend, reason, t = solve_text(text, timeout_ms, prefer=REGISTRY[target].prefer)
    rec = {"name": name, "kind": kind, "status": res, "backend": backend, "time": round(t, 3), "size": size,
           "reason": reason if res == "unknown" else ""}
    if res == "refuted":
        con = REGISTRY[target]
        sc = sigcases(con)[sc_index]
        rec["replay"] = replay_refutation(con, sc, name, model, seed, case=case)
    return rec


def search_unit(job):
    """The solver gave no verdict on some VC of this function: look once for a concrete input on which
    the real function breaks its contract (any clause).  Only a replayed witness makes it a violation."""
    target, sc_index, seed, case = job
    _setup_path()
    load_specs()
    con = REGISTRY[target]
    sc = sigcases(con)[sc_index]
    return replay_refutation(con, sc, f"{target}/*", None, seed, any_label=True, case=case)


def _in_case(con, case, argvals):
    if case is None:
        return True
    from .spec import Args
    try:
        pre = Args({k: native.nview(v) for k, v in argvals.items()})
        return bool(con.cases[case](pre))
    except Exception:  # noqa
        return True


def replay_refutation(con, sc, obname, model, seed, any_label=False, case=None):
    """Concretise the counter-model, run the real function, evaluate the clause natively.
    Falls back to a small-scope native search for a witness of the same clause."""
    info = {"obligation": obname, "reproduced": False, "input": None, "observed": None, "model": None,
            "search": None}
    label = obname.split("/")[1] if "/" in obname else obname
    if model is not None:
        info["model"] = str(model)[:2000]
        try:
            argvals = native.concretize(con, sc, model)
            info["input"] = repr(argvals)[:2000]
            nr = native.native_eval(con, argvals)
            info["observed"] = nr.outcome
            info["in_domain"] = nr.in_domain
            hits = [f for f in nr.failures if f[0] == label]
            if nr.in_domain and hits and _in_case(con, case, argvals):
                info["reproduced"] = True
                info["failure"] = hits[0]
                info["argvals"] = _jsonable(argvals)
                return info
        except NotImplementedError as e:
            info["observed"] = f"concretize: {e}"
        except Exception as e:  # noqa
            info["observed"] = f"replay crashed: {type(e).__name__}: {e}"
    # bounded native search for a real witness of the same clause
    tried = 0
    try:
        for argvals in native.sample_inputs(con, sc, 3000, seed=seed, scope=4):
            tried += 1
            if tried > 3000:
                break
            if not _in_case(con, case, argvals):
                continue
            nr = native.native_eval(con, argvals)
            if not nr.in_domain:
                continue
            hits = [f for f in nr.failures if any_label or f[0] == label]
            if hits:
                info.update(reproduced=True, input=repr(argvals)[:2000], observed=nr.outcome,
                            failure=hits[0], argvals=_jsonable(argvals), search=f"small-scope search, {tried} inputs")
                return info
    except NotImplementedError:
        pass
    info["search"] = f"small-scope search found nothing in {tried} inputs"
    return info


def _jsonable(x):
    try:
        json.dumps(x)
        return x
    except TypeError:
        return repr(x)


def crosscheck_unit(job):
    """CPython cross-check: the contract evaluated natively on sampled inputs of the real function."""
    target, sc_index, count, seed = job[:4]
    only_case = job[4] if len(job) > 4 else None
    _setup_path()
    load_specs()
    con = REGISTRY[target]
    sc = sigcases(con)[sc_index]
    n = 0
    fails = []
    per_label = {}
    cap = count if con.bounded is None else 10 ** 9
    if only_case is not None:
        cap = count * 5
    try:
        for argvals in native.sample_inputs(con, sc, count, seed=seed):
            if only_case is not None and not _in_case(con, only_case, argvals):
                continue
            nr = native.native_eval(con, argvals)
            if not nr.in_domain:
                continue
            n += 1
            for f in nr.failures:
                # at most 25 recorded failures per clause label; the evaluation goes on, so that many failures of
                # one (possibly known) clause cannot hide a different clause failing on a later input
                per_label[f[0]] = per_label.get(f[0], 0) + 1
                if per_label[f[0]] > 25:
                    continue
                fails.append({"label": f[0], "detail": f[1], "input": repr(argvals)[:500], "observed": nr.outcome,
                              "argvals": _jsonable(argvals), "in_case": nr.case})
            if n >= cap:
                break
    except NotImplementedError as e:
        return {"target": target, "case": sc_index, "evaluations": 0, "fails": [], "skipped": str(e)}
    b = con.bounded
    if only_case is not None:
        b = dict(con.bounded_cases[only_case])
        b["scope"] = f"case '{only_case}': " + b.get("scope", "inputs of the contract's generator")
    return {"target": target, "case": sc_index, "evaluations": n, "fails": fails, "bounded": b}


# ------------------------------------------------------------------ property run
EXTRA = {}  # pid -> list of callables(ctx) -> dict   (non-symex checkers: effects, registry, bounded)


def extra(pid):
    def deco(f):
        EXTRA.setdefault(pid, []).append(f)
        return f

    return deco


def run_property(pid, tier="quick", seed=0, jobs=None):
    t_start = time.time()
    load_specs()
    findings = load_findings()
    known = [k for k in findings.get("known", []) if k["property"] == pid]
    exclusions = {}
    # an input class listed as a known finding of a function is excluded for every property whose
    # clauses sit on that function (the defect is the function's, whichever property names it)
    for k in findings.get("known", []):
        if k.get("target") and k.get("clause") and k.get("case"):
            exclusions.setdefault(k["target"], {}).setdefault(k["clause"], []).append(k["case"])
    cons = [c for c in REGISTRY.values() if pid in c.props and not c.trusted]
    jobs_list = []
    bjobs = []
    skipped_cases = []
    for con in cons:
        for i, _sc in enumerate(sigcases(con)):
            if con.bounded is not None:
                bjobs.append((con.target, i, 200 if tier == "quick" else 8000, seed))
            else:
                for case in (list(con.cases) or [None]):
                    if case is not None and case in con.bounded_cases:
                        bjobs.append((con.target, i, 200 if tier == "quick" else 8000, seed, case))
                        continue
                    if case is not None and case in exclusions.get(con.target, {}).get("*", []):
                        skipped_cases.append(f"{con.target} case:{case} (listed known finding: not explored, witness replayed)")
                        continue
                    jobs_list.append((con.target, i, pid, tier, exclusions, seed, case))
    nproc = jobs or min(16, os.cpu_count() or 1)
    results = []
    cross = []
    count = 50 if tier == "quick" else 2000
    cjobs = sorted({(j[0], j[1], count, seed) for j in jobs_list}) + bjobs
    cjobs = [c for c in cjobs if REGISTRY[c[0]].bounded is not None or REGISTRY[c[0]].gen is not None
             or not any(type(t).__name__ in ("Model", "Opaque") for t in sigcases(REGISTRY[c[0]])[c[1]].values())]
    if cjobs:
        with ProcessPoolExecutor(max_workers=nproc) as ex:
            futs = [ex.submit(gen_unit, j) for j in jobs_list]
            cfuts = [ex.submit(crosscheck_unit, j) for j in cjobs]
            sfuts = []
            for f in futs:
                u = f.result()
                if os.environ.get("PYVC_LOG"):
                    print(f"  [gen {u['gen_s']:.1f}s paths={u['paths']} vcs={len(u.get('vcs', []))}] {u['target']} {u.get('in_case')}",
                          file=sys.stderr, flush=True)
                u["obligations"] = []
                results.append(u)
                for vc in u.pop("vcs"):
                    sfuts.append((u, ex.submit(solve_unit, (vc["name"], vc["kind"], vc["size"], vc["text"], tier,
                                                            u["target"], u["sc_index"], seed, u["in_case"]))))
            for u, f in sfuts:
                rec = f.result()
                u["obligations"].append(rec)
                if os.environ.get("PYVC_LOG") and (rec["time"] > 5 or rec["status"] != "discharged"):
                    print(f"  [{rec['status']} {rec['backend']} {rec['time']}s] {rec['name'][-110:]}", file=sys.stderr, flush=True)
            # one native witness search per function that has undecided VCs
            need = {}
            for u in results:
                if any(o["status"] == "unknown" for o in u.get("obligations", [])) or u.get("undecided"):
                    need.setdefault((u["target"], u["sc_index"], u["in_case"]), []).append(u)
            nf = {k: ex.submit(search_unit, (k[0], k[1], seed, k[2])) for k in need}
            for k, f in nf.items():
                rp = f.result()
                if rp.get("reproduced"):
                    for u in need[k]:
                        if u.get("undecided"):
                            # no VC could be generated for this unit, but the real function breaks its contract on
                            # a concrete input: that is the verdict
                            u["obligations"] = [{"name": f"{u['target']}[{u.get('case')}]/contract-on-real-function",
                                                 "kind": "unit", "status": "refuted", "backend": "native-search",
                                                 "time": 0.0, "size": 0, "reason": u["undecided"], "replay": rp}]
                            u["undecided"] = None
                            u["paths"] = u.get("paths") or 0
                            continue
                        for o in u["obligations"]:
                            if o["status"] == "unknown":
                                o["status"] = "refuted"
                                o["backend"] = "native-search"
                                o["replay"] = rp
            for f in cfuts:
                cross.append(f.result())
    extras = []
    extras.append(run_lemmas(pid, tier))
    for fn in EXTRA.get(pid, []):
        extras.append(fn({"pid": pid, "tier": tier, "seed": seed, "known": known}))
    extras.append({"assumptions": skipped_cases})
    return assemble(pid, tier, seed, cons, results, cross, extras, known, findings, time.time() - t_start)


def run_lemmas(pid, tier):
    """Spec-level lemmas (hand-written inductions, composition lemmas): each part is an obligation."""
    from .spec import LEMMAS, AXIOMS

    out = {"obligations": 0, "discharged": 0, "violations": [], "undecided": [], "samples": [],
           "assumptions": [], "by_backend": {}, "solver_time": 0.0}
    timeout_ms = 10000 if tier == "quick" else 60000
    for name, lem in LEMMAS.items():
        if pid not in lem.props:
            continue
        for label, assumptions, goal in lem.fn():
            s = z3.Solver()
            s.set("timeout", timeout_ms)
            for a in assumptions:
                s.add(a)
            s.add(z3.Not(goal))
            t0 = time.time()
            r = s.check()
            dt = time.time() - t0
            out["obligations"] += 1
            out["solver_time"] += dt
            full = f"lemma:{name}/{label}"
            if r == z3.unsat:
                out["discharged"] += 1
                out["by_backend"]["z3"] = out["by_backend"].get("z3", 0) + 1
            elif r == z3.sat:
                out["violations"].append({"kind": "lemma", "name": full, "status": "refuted", "backend": "z3",
                                          "replay": {"reproduced": False, "obligation": full,
                                                     "model": str(s.model())[:1500]}})
            else:
                out["undecided"].append(f"{full}: solver unknown")
            out["samples"].append({"obligation": full, "status": str(r), "time_s": round(dt, 3)})
    used = set()
    for c in REGISTRY.values():
        if pid in c.props:
            for u in c.uses:
                if u.name in AXIOMS:
                    used.add(f"definitional axiom {u.name}: {u.note}")
    out["assumptions"] = sorted(used)
    return out


def match_known(known, target, clause_label, argvals_repr):
    for k in known:
        if k.get("target") == target and k.get("clause") == clause_label and not k.get("case"):
            return k
    return None


BASELINE_FILE = os.path.join(ROOT, "specs", "obligation_baseline.json")


def _clause_key(name):
    """obligation name without its path / conjunct suffix: function[signature case|input case]/kind:label"""
    return name.split("/path:")[0]


def load_baseline(pid):
    """clause keys all of whose obligations were discharged on the unchanged tree (committed; written only by
    `PYVC_WRITE_BASELINE=1 ./check <pid>`, never at ordinary run time)"""
    try:
        with open(BASELINE_FILE) as f:
            return set(json.load(f).get(pid, []))
    except FileNotFoundError:
        return set()


def assemble(pid, tier, seed, cons, results, cross, extras, known, findings, wall):
    obligations = []
    undecided = []
    violations = []
    baseline = load_baseline(pid)
    lines = []
    backends = {}
    solver_time = 0.0
    functions = []
    assumptions = set()
    for r in results:
        if r["undecided"]:
            undecided.append(f"{r['target']}[{r['case']}]: {r['undecided']}")
            continue
        functions.append({"target": r["target"], "case": r["case"], "paths": r["paths"], **(r["src"] or {})})
        for c in r.get("cuts", []):
            assumptions.add(f"{r['target']}[{r['case']}]: {c} (paths beyond the cut are not covered: bounded)")
        assumptions.update(r["assumptions"])
        for ob in r["obligations"]:
            obligations.append(ob)
            solver_time += ob["time"]
            backends[ob["backend"]] = backends.get(ob["backend"], 0) + 1
            if ob["status"] == "unknown":
                if _clause_key(ob["name"]) in baseline:
                    # the obligation was discharged on the unchanged tree and is not discharged on this one: it is
                    # reported as the violation, with the solvers' output, although no failing input was found
                    violations.append({"kind": "regressed", **ob, "replay": {
                        "reproduced": False, "obligation": ob["name"],
                        "solver_output": ob["reason"] or "unknown (resource limit)",
                        "baseline": "every obligation of this clause is discharged on the unchanged tree "
                                    "(specs/obligation_baseline.json)",
                        "search": (ob.get("replay") or {}).get("search") if isinstance(ob.get("replay"), dict) else None}})
                else:
                    undecided.append(f"{ob['name']}: solver unknown ({ob['reason']})")
            elif ob["status"] == "refuted":
                violations.append({"kind": "obligation", **ob})
    if os.environ.get("PYVC_WRITE_BASELINE") and REPO == "/repo" and tier == "quick":
        by = {}
        for o in obligations:
            by.setdefault(_clause_key(o["name"]), []).append(o["status"])
        try:
            with open(BASELINE_FILE) as f:
                bl = json.load(f)
        except FileNotFoundError:
            bl = {}
        bl[pid] = sorted(k for k, sts in by.items() if all(st == "discharged" for st in sts))
        with open(BASELINE_FILE, "w") as f:
            json.dump(bl, f, indent=0, sort_keys=True)
    # native cross-check failures are violations too: the real function breaks its contract on
    # a concrete input (and if the clause was discharged, the engine is unsound: crash)
    engine_unsound = []
    discharged_names = {o["name"] for o in obligations if o["status"] == "discharged"}
    seen_native = set()
    for c in cross:
        for f in c["fails"]:
            if (c["target"], f["label"], f.get("in_case")) in seen_native:
                continue
            seen_native.add((c["target"], f["label"], f.get("in_case")))
            con = REGISTRY[c["target"]]
            labels = {cl.label: cl for cl in con.ensures}
            lab = f["label"].split(":", 1)[1] if ":" in f["label"] else f["label"]
            cl = labels.get(lab)
            if cl is not None and pid not in cl.props:
                continue
            if cl is None and con.raises_props is not None and pid not in con.raises_props:
                continue
            violations.append({"kind": "native", "name": f"{c['target']}/{f['label']}", "replay": {
                "reproduced": True, "input": f["input"], "observed": f["observed"], "failure": [f["label"], f["detail"]],
                "argvals": f["argvals"], "in_case": f.get("in_case"),
                "obligation": f"{c['target']}/{f['label']} (native cross-check)"}})
    extra_obl = 0
    extra_dis = 0
    bounded = []
    for c in cross:
        if c.get("bounded"):
            bounded.append({"function": c["target"], "bound": c["bounded"]["scope"], "reason": c["bounded"]["reason"],
                            "evaluations": c["evaluations"], "failures": len(c["fails"]),
                            "label": "bounded (not counted as proved)"})
    extra_samples = []
    for e in extras:
        extra_obl += e.get("obligations", 0)
        extra_dis += e.get("discharged", 0)
        violations.extend(e.get("violations", []))
        undecided.extend(e.get("undecided", []))
        bounded.extend(e.get("bounded", []))
        assumptions.update(e.get("assumptions", []))
        functions.extend(e.get("functions", []))
        extra_samples.extend(e.get("samples", []))
        for b, n in e.get("by_backend", {}).items():
            backends[b] = backends.get(b, 0) + n
        solver_time += e.get("solver_time", 0.0)
    # classify violations against known findings
    unlisted = []
    known_hit = {}
    for v in violations:
        k = classify(v, known)
        if k is None:
            unlisted.append(v)
        else:
            known_hit.setdefault(k["id"], []).append(v)
    # witnesses of known findings must still reproduce
    for k in known:
        ok, detail = replay_known(k)
        if ok:
            lines.append(f"KNOWN-FINDING: property={pid} {k['what_fails']}")
        else:
            lines.append(f"NOTE: known finding {k['id']} no longer reproduces ({detail})")
    os.makedirs(os.path.join(OUT, "replay"), exist_ok=True)
    for fn in os.listdir(os.path.join(OUT, "replay")):
        if fn.startswith(pid + "_"):
            os.unlink(os.path.join(OUT, "replay", fn))
    exit_code = 0
    seen_v = set()
    dedup = []
    for v in unlisted:
        key = (v.get("name") or "").split("/path:")[0]
        if key in seen_v:
            continue
        seen_v.add(key)
        dedup.append(v)
    for i, v in enumerate(dedup):
        path = os.path.join(OUT, "replay", f"{pid}_{i}.json")
        rp = v.get("replay") or {}
        with open(path, "w") as f:
            json.dump({"property": pid, "obligation": v.get("name"), "kind": v.get("kind"), "status": v.get("status"),
                       "backend": v.get("backend"), "replay": rp, "tier": tier}, f, indent=1, default=str)
        tail = "" if rp.get("reproduced") else " no-failing-input-found"
        lines.append(f"VIOLATION property={pid} replay={path} obligation={v.get('name')}{tail}")
        exit_code = 1
    if exit_code == 0 and undecided:
        exit_code = 2
        for u in undecided[:40]:
            lines.append(f"UNDECIDED property={pid} {u}")
    n_obl = len(obligations) + extra_obl
    n_dis = sum(1 for o in obligations if o["status"] == "discharged") + extra_dis
    if exit_code == 0 and n_obl == 0:
        lines.append(f"CRASH property={pid}: zero obligations generated (vacuous)")
        exit_code = 3
    samples = [{"obligation": o["name"], "status": o["status"], "backend": o["backend"], "time_s": o["time"],
                "assumptions": o["size"]} for o in obligations[:12]] + extra_samples[:12]
    known_excluded = sum(1 for k in known)
    evidence = {
        "property_id": pid,
        "tier": tier,
        "seed": seed,
        "level": "proof",
        "coverage": {
            "obligations": n_obl,
            "discharged": n_dis,
            "checker_cmd": f"./check {pid} --tier {tier}",
            "trusted_base": sorted(trusted_base(cons) | set(assumptions)),
            "samples": samples or [{"note": "no obligations"}],
            "functions_under_contract": functions,
            "by_backend": backends,
            "solver_time_s": round(solver_time, 3),
            "refuted": [v.get("name") for v in violations],
            "undecided": undecided,
            "known_findings_listed": [k["id"] for k in known],
            "bounded": bounded,
            "native_crosscheck_evaluations": sum(c["evaluations"] for c in cross),
            "explanation": "obligations = VCs generated from the real source of /repo by pyvc on this run; "
                           "discharged = unsat answers of z3 5.1 / z3 4.8.12 / cvc5; bounded entries are not counted as proved",
        },
        "assumptions": sorted(assumptions),
        "wall_s": round(wall, 2),
        "violations": len(unlisted),
    }
    os.makedirs(os.path.join(OUT, "evidence"), exist_ok=True)
    with open(os.path.join(OUT, "evidence", f"{pid}.json"), "w") as f:
        json.dump(evidence, f, indent=1, default=str)
    for ln in lines:
        print(ln)
    print(f"{pid} tier={tier}: obligations={n_obl} discharged={n_dis} refuted={len(violations)} "
          f"(unlisted {len(unlisted)}) undecided={len(undecided)} functions={len(functions)} "
          f"wall={wall:.1f}s exit={exit_code}")
    return exit_code


def trusted_base(cons):
    out = set()
    for c in REGISTRY.values():
        if c.trusted:
            out.add(f"assumed contract: {c.target} ({c.note})" if c.note else f"assumed contract: {c.target}")
    out.add("z3 (5.1 wheel and 4.8.12 binary) / cvc5 soundness; pyvc symbolic executor (guarded by the CPython cross-check and mutant self-test)")
    out.add("Python ints are unbounded: integer arithmetic is encoded as mathematical (exact)")
    return out


def classify(v, known):
    """A violation is 'known' only if it names the listed obligation (function, clause) and, when
    the finding lists an input class, only inside that class (the engine proves the rest)."""
    name = v.get("name", "")
    import fnmatch
    for k in known:
        if k.get("match") and k["match"] in name:
            return k
        if k.get("labels") and v.get("kind") == "native":
            lab = name.rsplit("/", 1)[-1]
            if any(fnmatch.fnmatchcase(lab, pat) for pat in k["labels"]):
                return k
        tgt, clause = k.get("target"), k.get("clause")
        if tgt and clause and name.startswith(tgt) and f"/{clause}" in name and not k.get("case"):
            return k
        if tgt and k.get("case") and name.startswith(tgt) and v.get("kind") == "native":
            # a native failure of a function with a listed input class: known only inside the class
            rp = v.get("replay") or {}
            if rp.get("in_case") == k["case"]:
                return k
    return None


def replay_known(k):
    w = k.get("witness")
    if not w:
        return True, "no witness script"
    try:
        env = {}
        import contextlib
        import io
        with contextlib.redirect_stdout(io.StringIO()):      # a witness script may print; the check's stdout is its interface
            exec(compile(w, f"<witness {k['id']}>", "exec"), env)
        ok = bool(env.get("REPRODUCED"))
        return ok, env.get("DETAIL", "")
    except Exception as e:  # noqa
        return False, f"witness crashed: {type(e).__name__}: {e}"


def replay_file(path):
    with open(path) as f:
        d = json.load(f)
    _setup_path()
    load_specs()
    rp = d.get("replay") or {}
    print(json.dumps(d, indent=1)[:4000])
    name = d.get("obligation", "")
    target = name.split("[")[0].split("/")[0]
    if rp.get("argvals") is not None and target in REGISTRY and isinstance(rp["argvals"], dict):
        nr = native.native_eval(REGISTRY[target], rp["argvals"])
        print("native replay:", nr.outcome, "failures:", nr.failures)
        return 1 if nr.failures else 0
    return 1


def selftest(pid):
    """Thorough tier: the fixed mutants of /verif/mutants/<pid>.json (applied to a scratch copy of /repo/src, removed
    afterwards) must each make the quick check report a violation; a surviving mutant means the machinery is blind
    (exit 3, never a property violation).  The result is appended to the evidence file."""
    import shutil
    import subprocess
    import tempfile
    mf = os.path.join(ROOT, "mutants", f"{pid}.json")
    if not os.path.exists(mf):
        return 0
    killed, missed = [], []
    for m in json.load(open(mf)):
        tmp = tempfile.mkdtemp(prefix="pyvc_selftest_")
        try:
            shutil.copytree(os.path.join(REPO, "src"), tmp + "/src", ignore=shutil.ignore_patterns("__pycache__"))
            path = f"{tmp}/src/odfdo/{m['file']}"
            src = open(path).read()
            if src.count(m["old"]) != 1:
                missed.append({"mutant": m, "reason": "mutation site not found (the source changed)"})
                continue
            open(path, "w").write(src.replace(m["old"], m["new"]))
            env = dict(os.environ, PYVC_REPO=tmp, PYVC_OUT_DIR=tmp + "/out", PYVC_NO_SELFTEST="1",
                       PYTHONPATH=tmp + "/src:" + ROOT)
            p = subprocess.run([sys.executable, "-m", "pyvc.check", pid, "--tier", "quick"], env=env, cwd=ROOT,
                               capture_output=True, text=True, timeout=3000)
            if p.returncode == 1 and "VIOLATION" in p.stdout:
                killed.append({"mutant": m["file"] + ": " + m["old"][:60] + " -> " + m["new"][:60],
                               "first": [ln[:200] for ln in p.stdout.splitlines() if ln.startswith("VIOLATION")][:2]})
            else:
                missed.append({"mutant": m, "reason": f"quick check exit {p.returncode}"})
        finally:
            shutil.rmtree(tmp, ignore_errors=True)
    ev = os.path.join(OUT, "evidence", f"{pid}.json")
    d = json.load(open(ev))
    d["coverage"]["mutants_killed"] = killed
    d["coverage"]["mutants_missed"] = missed
    json.dump(d, open(ev, "w"), indent=1, default=str)
    print(f"{pid} selftest: {len(killed)} mutants killed, {len(missed)} missed")
    if missed:
        print(f"CRASH property={pid}: self-test mutant survived: {missed[0]}")
        return 3
    return 0


def main(argv=None):
    argv = argv or sys.argv[1:]
    if not argv:
        print(__doc__)
        return 3
    if argv[0] == "replay":
        return replay_file(argv[1])
    pid = argv[0]
    tier = os.environ.get("VERIF_TIER", "quick")
    if "--tier" in argv:
        tier = argv[argv.index("--tier") + 1]
    seed = int(os.environ.get("VERIF_SEED", "0") or 0)
    try:
        rc = run_property(pid, tier, seed)
        if rc == 0 and tier == "thorough" and REPO == "/repo" and not os.environ.get("PYVC_NO_SELFTEST"):
            rc = selftest(pid)
        return rc
    except Exception:  # noqa
        traceback.print_exc()
        print(f"CRASH property={pid}")
        return 3


if __name__ == "__main__":
    # run through the importable module object, so that spec modules registering extras see the same EXTRA
    from pyvc import check as _check
    sys.exit(_check.main())
