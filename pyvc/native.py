"""Native evaluation of contracts on the real functions: replay of counter-models,
small-scope witness search, and the CPython cross-check of proved contracts."""
from __future__ import annotations

import copy
import inspect
import itertools
import random

import z3

from .engine import resolve_target
from .spec import Args, Const, Contract, Model, NView, Opaque, TupleOf, _Bool, _Int, _IntList, _Str


class NativeResult:
    def __init__(self):
        self.in_domain = True
        self.failures = []  # (label, detail)
        self.outcome = None
        self.checked = 0
        self.case = None


class DView(dict):
    """native snapshot of a dict, remembering the object it came from"""
    ref = None


def nview(v):
    if isinstance(v, list):
        return NView(list(v), ref=v)
    if isinstance(v, dict):
        d = DView(v)
        d.ref = v
        return d
    tn = type(v).__name__
    if tn in ("Row", "Table") and hasattr(v, "_indexes"):
        from .xmlnative import NVaultView
        return NVaultView(v)
    if tn in ("Cell", "Column"):
        from .xmlnative import NWrapView
        return NWrapView(v)
    return v


def native_eval(con: Contract, argvals: dict, labels=None) -> NativeResult:
    """Call the real function on argvals and evaluate the contract natively."""
    res = NativeResult()
    if con.call_native is not None:
        return con.call_native(con, None, argvals, labels)
    fn, _node, _mod, _info = resolve_target(con.target)
    args = {k: (copy.deepcopy(v) if isinstance(v, (list, dict, set)) else v) for k, v in argvals.items()}
    pre = Args({k: nview(v) for k, v in args.items()})
    try:
        if con.requires is not None and not con.requires(pre):
            res.in_domain = False
            return res
    except Exception as e:  # requires not evaluable on this input
        res.in_domain = False
        res.outcome = f"requires raised {type(e).__name__}: {e}"
        return res
    for cname, cpred in con.cases.items():
        try:
            if cpred(pre):
                res.case = cname
                break
        except Exception:  # noqa
            pass
    # the contract's pre views are snapshots; call on the live objects
    snap = Args({k: nview(v) for k, v in args.items()})
    try:
        out = fn(**args)
        raised = None
    except Exception as e:  # noqa
        out = None
        raised = e
    if raised is not None:
        res.outcome = f"raised {type(raised).__name__}: {raised}"
        allowed = None
        for et, cond in con.raises.items():
            if isinstance(raised, et):
                allowed = cond
                break
        res.checked += 1
        if allowed is None:
            res.failures.append((f"raises:{type(raised).__name__}", f"undeclared exception {raised!r}"))
        elif not allowed(snap):
            res.failures.append((f"raises:{type(raised).__name__}", "raised outside its declared condition"))
        return res
    res.outcome = f"returned {out!r}"[:300]
    if con.raises_exact:
        for et, cond in con.raises.items():
            res.checked += 1
            if cond(snap):
                res.failures.append((f"must-raise:{et.__name__}", "returned although the exception was due"))
    r = nview(out)
    post = Args({k: nview(v) for k, v in args.items()})
    for cl in con.ensures:
        if labels is not None and cl.label not in labels:
            continue
        if cl.when is not None and not cl.when(snap):
            continue
        res.checked += 1
        try:
            ok = cl.fn(snap, r, post)
        except Exception as e:  # noqa
            ok = False
            res.failures.append((f"ensures:{cl.label}", f"clause raised {type(e).__name__}: {e}"))
            continue
        if not ok:
            res.failures.append((f"ensures:{cl.label}", "clause is false"))
    return res


# ------------------------------------------------------------------ model -> inputs
def model_value(model, expr, default=None):
    v = model.eval(expr, model_completion=True)
    if z3.is_int_value(v):
        return v.as_long()
    if z3.is_true(v):
        return True
    if z3.is_false(v):
        return False
    if z3.is_string_value(v):
        return v.as_string()
    return default


def concretize(con: Contract, sigcase: dict, model) -> dict:
    """Default concretisation of a counter-model into arguments of the real function."""
    if con.concretize is not None:
        return con.concretize(con, sigcase, model)
    out = {}
    for name, t in sigcase.items():
        if isinstance(t, _Int):
            out[name] = model_value(model, z3.Int(name), 0)
        elif isinstance(t, _Bool):
            out[name] = model_value(model, z3.Bool(name), False)
        elif isinstance(t, _Str):
            out[name] = model_value(model, z3.String(name), "")
        elif isinstance(t, _IntList):
            n = model_value(model, z3.Int(name + ".len"), 0)
            arr = z3.Array(name + ".arr", z3.IntSort(), z3.IntSort())
            n = max(0, min(n, 64))
            out[name] = [model_value(model, z3.Select(arr, i), 0) for i in range(n)]
        elif isinstance(t, Const):
            out[name] = t.value
        elif isinstance(t, TupleOf) and all(isinstance(e, _Int) for e in t.elts):
            out[name] = tuple(model_value(model, z3.Int(f"{name}.{i}"), 0) for i in range(len(t.elts)))
        else:
            raise NotImplementedError(f"concretize {t.name}")
    return out


# ------------------------------------------------------------------ small-scope / random inputs
def gen_values(t, rnd, scope):
    if isinstance(t, _Int):
        if t.pool is not None:
            return list(t.pool)
        return list(range(-3, 31)) + [51, 52, 53, 99, 100, 255, 256, 701, 702, 703, 16383, 16384, 18277, 18278,
                                      475253, 475254, 10**9, -10**6]
    if isinstance(t, _Bool):
        return [False, True]
    if isinstance(t, _Str):
        if t.pool is not None:
            return list(t.pool)
        alpha = getattr(t, "alphabet", None) or "aZ09 #:.'\"$-"
        out = [""]
        for n in range(1, min(scope, t.maxlen) + 1):
            for tup in itertools.product(alpha, repeat=n):
                out.append("".join(tup))
        return out
    if isinstance(t, _IntList):
        out = []
        for n in range(0, min(scope, 4) + 1):
            for tup in itertools.product(range(0, scope + 2), repeat=n):
                out.append(list(tup))
        return out
    if isinstance(t, Const):
        return [t.value]
    if isinstance(t, TupleOf):
        pools = [gen_values(e, rnd, scope) for e in t.elts]
        out = []
        for _ in range(400):
            out.append(tuple(rnd.choice(p) for p in pools))
        return out
    raise NotImplementedError(t.name)


def sample_inputs(con: Contract, sigcase: dict, count, seed=0, scope=4):
    """Yield up to `count` argument dicts drawn from the small scope (shuffled deterministically)."""
    if con.gen is not None:
        yield from con.gen(con, sigcase, count, seed)
        return
    rnd = random.Random(seed)
    names = list(sigcase)
    pools = []
    for n in names:
        vals = gen_values(sigcase[n], rnd, scope)
        rnd.shuffle(vals)
        pools.append(vals)
    total = 1
    for p in pools:
        total *= max(1, len(p))
    if total <= count * 4:
        combos = list(itertools.product(*pools))
        rnd.shuffle(combos)
        for c in combos:
            yield dict(zip(names, c))
        return
    for _ in range(count * 6):
        yield {n: rnd.choice(p) for n, p in zip(names, pools)}
