"""Contract language: sidecar contracts on real functions of /repo.

Spec lambdas are evaluated twice: symbolically (z3 terms, list views) to build the
verification conditions, and natively (Python values of a real run) to replay a
counter-model.  ``S`` provides the connectives that dispatch on the mode.
"""
from __future__ import annotations

import z3

from . import lists as L

REGISTRY: dict[str, "Contract"] = {}


# ------------------------------------------------------------------ sig types
class SigT:
    def alternatives(self):
        return [self]


class _Int(SigT):
    name = "Int"

    def __init__(self, pool=None):
        self.pool = pool

    def of(self, pool):
        return _Int(pool)


class _Bool(SigT):
    name = "Bool"


class _Str(SigT):
    name = "Str"

    def __init__(self, alphabet=None, pool=None, maxlen=3):
        self.alphabet = alphabet
        self.pool = pool
        self.maxlen = maxlen

    def of(self, alphabet=None, pool=None, maxlen=3):
        return _Str(alphabet, pool, maxlen)


class _IntList(SigT):
    name = "IntList"


class _StrList(SigT):
    name = "StrList"


StrList = _StrList()


class Const(SigT):
    def __init__(self, value):
        self.value = value
        self.name = f"Const({value!r})"


class OneOf(SigT):
    def __init__(self, *alts):
        self.alts = alts
        self.name = "OneOf(" + ",".join(a.name for a in alts) + ")"

    def alternatives(self):
        out = []
        for a in self.alts:
            out.extend(a.alternatives())
        return out


class TupleOf(SigT):
    def __init__(self, *elts):
        self.elts = elts
        self.name = "Tuple(" + ",".join(e.name for e in elts) + ")"


class Opaque(SigT):
    """A value of a real Python type whose content is abstract (type-dispatch proofs)."""

    def __init__(self, pytype, **fields):
        self.pytype = pytype
        self.fields = fields
        self.name = f"Opaque({pytype.__name__})"


class Model(SigT):
    """An abstract model object (see pyvc.models); ``maker(engine, name)`` builds it."""

    def __init__(self, name, maker, **kw):
        self.name = name
        self.maker = maker
        self.kw = kw


Int = _Int()
Bool = _Bool()
Str = _Str()
IntList = _IntList()
NoneT = Const(None)
OptInt = OneOf(Int, NoneT)
OptStr = OneOf(Str, NoneT)


# ------------------------------------------------------------------ contract
class Clause:
    def __init__(self, label, props, fn, when=None):
        self.label = label
        self.props = set(props)
        self.fn = fn
        self.when = when  # optional predicate over args: clause applies only when true


class Inv:
    def __init__(self, fn, decreases=None, types=None, modifies=None, props=None, hints=None):
        self.fn = fn
        # hints(a, v) -> [(lemma, args)]: ground instances of proved lemmas (their `statement`, a ForAll)
        # assumed at the loop head, for lemmas whose trigger would otherwise start a matching loop
        self.hints = hints
        self.decreases = decreases
        self.types = types or {}
        self.modifies = modifies
        self.props = props


class Contract:
    def __init__(
        self,
        target,
        sig,
        requires=None,
        raises=None,
        ensures=(),
        cases=None,
        loops=None,
        inline=(),
        props=(),
        pure=True,
        concretize=None,
        call=None,
        trusted=False,
        note="",
        result=None,
        raises_exact=True,
        unroll=None,
        modifies=None,
        result_alias=None,
        call_native=None,
        gen=None,
        bounded=None,
        uses=(),
        result_term=None,
        raises_props=None,
        bounded_cases=None,
        observer=False,
        prefer=None,
    ):
        self.target = target
        # sig: one dict, or a list of dicts (alternative signature groups varying together)
        self.sigs = [dict(g) for g in sig] if isinstance(sig, (list, tuple)) else [dict(sig)]
        self.sig = self.sigs[0]
        self.requires = requires
        self.raises = raises or {}
        self.ensures = list(ensures)
        self.cases = cases or {}
        self.loops = loops or {}
        self.inline = set(inline)
        self.props = set(props)
        for c in self.ensures:
            self.props |= c.props
        self.pure = pure
        self.concretize = concretize
        self.call = call
        self.trusted = trusted  # assumed, never verified (external / dependency)
        self.note = note
        self.result = result  # sig type of the result for modular use
        self.raises_exact = raises_exact
        self.unroll = unroll
        self.modifies = modifies
        self.result_alias = result_alias
        self.call_native = call_native
        self.gen = gen
        self.bounded = bounded
        self.uses = list(uses)  # Axiom / Lemma objects whose formulas are assumed in every VC
        # exact functional spec of a list result as a list term over the (pre-state) arguments;
        # the function's own `runs`-style clause must state equality with this same term
        self.result_term = result_term
        self.raises_props = set(raises_props) if raises_props is not None else None
        # input cases the executor cannot reach: name -> dict(scope=..., reason=...); checked natively
        # over the generator's inputs of that case and reported as bounded, never as proved
        self.bounded_cases = bounded_cases or {}
        # observer: the function does not modify the model objects it is given; only then may its
        # contract be applied to a caller's state without an exact `call` hook
        self.observer = observer
        self.prefer = prefer      # "cvc5": try cvc5 before z3 on this function's VCs (real/float arithmetic)
        self.result_alias = result_alias
        self.call_native = call_native
        self.gen = gen
        self.bounded = bounded
        self.uses = list(uses)  # Axiom / Lemma objects whose formulas are assumed in every VC
        # exact functional spec of a list result as a list term over the (pre-state) arguments;
        # the function's own `runs`-style clause must state equality with this same term
        self.result_term = result_term
        self.raises_props = set(raises_props) if raises_props is not None else None
        # input cases the executor cannot reach: name -> dict(scope=..., reason=...); checked natively
        # over the generator's inputs of that case and reported as bounded, never as proved
        self.bounded_cases = bounded_cases or {}
        # observer: the function does not modify the model objects it is given; only then may its
        # contract be applied to a caller's state without an exact `call` hook
        self.observer = observer
        self.prefer = prefer      # "cvc5": try cvc5 before z3 on this function's VCs (real/float arithmetic)


LEMMAS: dict[str, "Lemma"] = {}
AXIOMS: dict[str, "Axiom"] = {}


class Axiom:
    """A definitional axiom of a spec function (primitive recursion: conservative), or an
    assumed fact about a dependency.  ``formula`` is a closed z3 term."""

    def __init__(self, name, formula, kind="definition", note=""):
        self.name = name
        self.formula = formula
        self.kind = kind
        self.note = note
        AXIOMS[name] = self


class Lemma:
    """A spec-level lemma: ``fn()`` returns (assumptions, goal) as z3 terms.  Used for
    inductions written out by hand (base / step) and for composition lemmas over contracts."""

    def __init__(self, name, props, fn, note="", statement=None, uses=()):
        self.name = name
        self.props = set(props)
        self.fn = fn  # () -> list of (label, assumptions, goal)
        self.note = note
        self.statement = statement  # closed z3 formula usable by contracts once proved
        self.uses = list(uses)
        LEMMAS[name] = self

    @property
    def formula(self):
        return self.statement


def contract(target, **kw):
    c = Contract(target, **kw)
    REGISTRY[target] = c
    return c


# ------------------------------------------------------------------ views
class LView:
    """Symbolic view of a list value at one program point."""

    def __init__(self, term, ref=None):
        self.term = term
        self.ref = ref

    @property
    def n(self):
        return self.term.length()

    def __getitem__(self, j):
        if isinstance(j, slice):
            return LView(L.slice_term(self.term, j.start, j.stop))
        jj = L.simp_int(j)
        if L.is_conc_int(jj) and jj < 0:
            jj = L.simp_int(L.zint(self.n) + jj)
        elif not L.is_conc_int(jj):
            pass
        return self.term.sel(jj)


class NView(list):
    """Native view of a list value (snapshot) remembering the object it came from."""

    def __init__(self, items, ref=None):
        super().__init__(items)
        self.ref = ref

    @property
    def n(self):
        return len(self)


class Args:
    def __init__(self, d):
        self.__dict__.update(d)

    def __getitem__(self, k):
        return self.__dict__[k]


def is_sym(*xs):
    return any(isinstance(x, (z3.ExprRef, LView)) for x in xs)


# ------------------------------------------------------------------ connectives
class _S:
    """Dual-mode connectives.  Arguments may be callables (lazy) for native safety."""

    @staticmethod
    def _force(x):
        return x() if callable(x) else x

    def And(self, *xs):
        vals = []
        for x in xs:
            v = self._force(x)
            if isinstance(v, z3.ExprRef):
                vals.append(v)
            elif not v:
                if any(isinstance(self._force(y), z3.ExprRef) for y in ()):
                    pass
                return False
            # python True: drop
        if not vals:
            return True
        return z3.And(*vals) if len(vals) > 1 else vals[0]

    def Or(self, *xs):
        vals = []
        for x in xs:
            v = self._force(x)
            if isinstance(v, z3.ExprRef):
                vals.append(v)
            elif v:
                return True
        if not vals:
            return False
        return z3.Or(*vals) if len(vals) > 1 else vals[0]

    def Not(self, x):
        x = self._force(x)
        if isinstance(x, z3.ExprRef):
            return z3.Not(x)
        return not x

    def Implies(self, a, b):
        a = self._force(a)
        if isinstance(a, z3.ExprRef):
            bv = self._force(b)
            if isinstance(bv, z3.ExprRef):
                return z3.Implies(a, bv)
            return True if bv else z3.Not(a)
        if not a:
            return True
        return self._force(b)

    def If(self, c, a, b):
        c = self._force(c)
        if isinstance(c, z3.ExprRef):
            return L._ite(c, self._force(a), self._force(b))
        return self._force(a) if c else self._force(b)

    def Iff(self, a, b):
        a = self._force(a)
        b = self._force(b)
        if isinstance(a, z3.ExprRef) or isinstance(b, z3.ExprRef):
            return L.lift(a) == L.lift(b)
        return bool(a) == bool(b)

    def len(self, x):
        if isinstance(x, LView):
            return x.n
        if isinstance(x, z3.SeqRef):
            return z3.Length(x)
        return len(x)

    def forall(self, fn, lo, hi, pats=None, name="i"):
        """forall i in [lo, hi): fn(i)."""
        if is_sym(lo, hi) or getattr(self, "_symbolic", False):
            i = z3.FreshInt(name)
            body = fn(i)
            if not isinstance(body, z3.ExprRef):
                if body:
                    return True
                body = z3.BoolVal(False)
            guard = z3.And(L.zint(lo) <= i, i < L.zint(hi))
            kw = {}
            if pats is not None:
                ps = [p for p in pats(i) if pat_ok(p)]
                if ps:
                    kw["patterns"] = [p if not isinstance(p, (list, tuple)) else mpat(*p) for p in ps]
                    kw["_keep"] = ps
            kw.pop("_keep", None)
            return z3.ForAll([i], z3.Implies(guard, body), **kw)
        vals = [fn(i) for i in range(lo, hi)]
        if any(isinstance(v, z3.ExprRef) for v in vals):
            return self.And(*vals)
        return all(vals)

    def exists(self, fn, lo, hi, name="i"):
        if is_sym(lo, hi) or getattr(self, "_symbolic", False):
            i = z3.FreshInt(name)
            body = fn(i)
            if not isinstance(body, z3.ExprRef):
                body = z3.BoolVal(bool(body))
            return z3.Exists([i], z3.And(L.zint(lo) <= i, i < L.zint(hi), body))
        vals = [fn(i) for i in range(lo, hi)]
        if any(isinstance(v, z3.ExprRef) for v in vals):
            return self.Or(*vals)
        return any(vals)

    def same(self, x, y):
        rx = getattr(x, "ref", x)
        ry = getattr(y, "ref", y)
        return rx is ry

    def is_none(self, x):
        return x is None

    def same_or_eq(self, x, y):
        """equal values where None only equals None"""
        if x is None or y is None:
            return x is y
        if is_sym(x, y):
            return L.lift(x) == L.lift(y)
        return x == y

    # strings ---------------------------------------------------------------
    def concat(self, *xs):
        if is_sym(*xs):
            return z3.Concat(*[L.lift(x) for x in xs]) if len(xs) > 1 else L.lift(xs[0])
        return "".join(xs)

    def contains(self, s, sub):
        if is_sym(s, sub):
            return z3.Contains(L.lift(s), L.lift(sub))
        return sub in s

    def prefixof(self, p, s):
        if is_sym(s, p):
            return z3.PrefixOf(L.lift(p), L.lift(s))
        return s.startswith(p)

    def suffixof(self, p, s):
        if is_sym(s, p):
            return z3.SuffixOf(L.lift(p), L.lift(s))
        return s.endswith(p)

    def in_re(self, s, re_z3, re_py):
        """membership in a regular language given both as z3 regex and python `re` pattern"""
        if is_sym(s):
            return z3.InRe(s, re_z3)
        import re as _re

        return _re.fullmatch(re_py, s, _re.S) is not None

    def all_chars(self, s, cls_z3, cls_py, nonempty=False):
        """every character of s satisfies the class (given on code points, z3 and python)"""
        if is_sym(s):
            from .builtins_model import all_chars as _ac
            f = _ac(L.lift(s), cls_z3)
            return z3.And(z3.Length(s) > 0, f) if nonempty else f
        return (len(s) > 0 or not nonempty) and all(cls_py(ord(ch)) for ch in s)

    def substr(self, s, lo, ln):
        if is_sym(s, lo, ln):
            return z3.SubString(L.lift(s), L.zint(lo), L.zint(ln))
        return s[lo : lo + ln]

    def eq(self, a, b):
        if is_sym(a, b):
            if isinstance(a, LView) or isinstance(b, LView):
                raise TypeError("use list_eq")
            if a is None or b is None:
                return a is b
            return L.lift(a) == L.lift(b)
        return a == b

    def list_eq(self, a, b):
        """pointwise equality of two list views / native lists"""
        if isinstance(a, LView) or isinstance(b, LView):
            a = a if isinstance(a, LView) else LView(L.LConc(list(a)))
            b = b if isinstance(b, LView) else LView(L.LConc(list(b)))
            return self.And(
                L.lift(a.n) == L.lift(b.n) if is_sym(a.n, b.n) else a.n == b.n,
                self.forall(lambda i: L.lift(a[i]) == L.lift(b[i]), 0, a.n),
            )
        return list(a) == list(b)


S = _S()


# ------------------------------------------------------------------ common predicates
def strictly_increasing(m, lo_bound=-1):
    """m[0] > lo_bound and m[i-1] < m[i]: the map well-formedness (local + global form)."""
    n = S.len(m)
    if isinstance(m, LView):
        return z3.And(
            S.forall(lambda i: m[i] > lo_bound, 0, n, pats=lambda i: [m[i]]),
            _mono(m, n),
        )
    return all(m[i] > lo_bound for i in range(n)) and all(m[i - 1] < m[i] for i in range(1, n))


def _mono(m, n):
    i = z3.FreshInt("i")
    j = z3.FreshInt("j")
    kw = {}
    mi, mj = m[i], m[j]
    if pat_ok([mi, mj]):
        kw["patterns"] = [mpat(mi, mj)]
    return z3.ForAll([i, j], z3.Implies(z3.And(0 <= i, i < j, j < L.zint(n)), m[i] < m[j]), **kw)


def qforall(vs, body, pats=()):
    """ForAll with the given patterns when they are admissible E-matching patterns, else without."""
    good = []
    keep = []
    for p_ in pats:
        if isinstance(p_, (list, tuple)):
            if pat_ok(list(p_)):
                keep.append(list(p_))
                good.append(mpat(*p_))
        elif pat_ok(p_):
            keep.append(p_)
            good.append(p_)
    if good:
        return z3.ForAll(vs, body, patterns=good)
    return z3.ForAll(vs, body)


def mpat(*terms):
    """z3.MultiPattern, keeping the argument terms referenced during the call (z3py 5.1
    rebinds its *args before calling Z3_mk_pattern, which frees inline temporaries)."""
    keep = list(terms)
    p = z3.MultiPattern(*keep)
    return p


_PAT_OPS = {z3.Z3_OP_SELECT, z3.Z3_OP_STORE, z3.Z3_OP_UNINTERPRETED, z3.Z3_OP_ADD, z3.Z3_OP_SUB, z3.Z3_OP_ANUM,
            z3.Z3_OP_SEQ_EXTRACT, z3.Z3_OP_SEQ_LENGTH, z3.Z3_OP_SEQ_AT, z3.Z3_OP_SEQ_NTH}


def pat_ok(p):
    """May this term (or list of terms) be used as an E-matching pattern?"""
    if isinstance(p, (list, tuple)):
        return all(pat_ok(x) for x in p)
    if not isinstance(p, z3.ExprRef):
        return False
    todo = [p]
    top = True
    while todo:
        t = todo.pop()
        if z3.is_app(t):
            k = t.decl().kind()
            if k not in _PAT_OPS:
                return False
            if top and k in (z3.Z3_OP_ADD, z3.Z3_OP_SUB, z3.Z3_OP_ANUM):
                return False
            if top and k == z3.Z3_OP_UNINTERPRETED and t.num_args() == 0:
                return False
            todo.extend(t.children())
        top = False
    return True
