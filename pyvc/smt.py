"""Discharge obligations: z3 (in worker processes, from SMT-LIB text) then cvc5 on unknowns."""
from __future__ import annotations

import os
import subprocess
import tempfile
import time
from concurrent.futures import ProcessPoolExecutor

import z3


def _alpha_key(e, memo):
    """structural key of a term, invariant under renaming of bound variables (de Bruijn indices are used as they are)"""
    i = e.get_id()
    k = memo.get(i)
    if k is not None:
        return k
    if z3.is_quantifier(e):
        pats = tuple(tuple(_alpha_key(c, memo) for c in e.pattern(j).children()) for j in range(e.num_patterns()))
        k = ("Q", e.is_forall(), tuple(e.var_sort(j).name() for j in range(e.num_vars())),
             _alpha_key(e.body(), memo), pats)
    elif z3.is_var(e):
        k = ("V", z3.get_var_index(e), e.sort().name())
    elif z3.is_app(e):
        d = e.decl()
        k = (d.name(), d.kind(), e.sort().name() if e.num_args() == 0 else "",
             tuple(str(p_) for p_ in d.params()) if d.kind() != z3.Z3_OP_UNINTERPRETED and e.num_args() else (),
             tuple(_alpha_key(c, memo) for c in e.children()))
        if e.num_args() == 0:
            k = k + (e.sexpr(),)
    else:
        k = ("?", e.sexpr())
    k = hash(k) if False else k
    memo[i] = k
    return k


def _conjuncts(a, out):
    if z3.is_and(a):
        for c in a.children():
            _conjuncts(c, out)
    else:
        out.append(a)


def dedup_assumptions(assumptions):
    """Top-level conjuncts of the assumptions with alpha-equivalent duplicates removed (the same invariant
    reaches a VC through requires, callee contracts and loop facts under different bound-variable names;
    dropping a repeated hypothesis is sound and keeps the solver from instantiating it several times)."""
    memo, seen, out = {}, set(), []
    flat = []
    for a in assumptions:
        _conjuncts(a, flat)
    for a in flat:
        if z3.is_true(a):
            continue
        try:
            k = _alpha_key(a, memo)
        except Exception:  # noqa
            out.append(a)
            continue
        if k in seen:
            continue
        seen.add(k)
        out.append(a)
    return out


def to_smt2(ob):
    s = z3.Solver()
    for a in dedup_assumptions(ob.assumptions):
        s.add(a)
    s.add(z3.Not(ob.goal))
    return s.to_smt2()


def _solve_z3(text, timeout_ms, mbqi):
    t0 = time.time()
    try:
        s = z3.Solver()
        s.set("timeout", timeout_ms)
        if not mbqi:
            s.set("smt.mbqi", False)
        s.from_string(text)
        r = s.check()
        res = str(r)
        reason = s.reason_unknown() if r == z3.unknown else ""
    except z3.Z3Exception as e:  # pragma: no cover
        res, reason = "error", str(e)
    return res, time.time() - t0, reason


def _solve_cvc5(text, timeout_ms, rlimit=None):
    """cvc5 on the VC text; with `rlimit` the budget is cvc5's deterministic resource limit (about 80 000 units per
    second on this sandbox) and the wall-clock limit only a safety net"""
    t0 = time.time()
    exe = "/usr/bin/cvc5"
    if not os.path.exists(exe):
        return "unknown", 0.0, "no cvc5"
    with tempfile.NamedTemporaryFile("w", suffix=".smt2", delete=False) as f:
        f.write("(set-logic ALL)\n" + text)
        path = f.name
    try:
        p = subprocess.run(
            [exe, "--strings-exp", f"--tlimit={timeout_ms}"] + ([f"--rlimit={rlimit}"] if rlimit else []) + [path],
            capture_output=True, text=True,
            timeout=timeout_ms / 1000 + 5,
        )
        out = p.stdout.strip().splitlines()
        res = out[0] if out else "unknown"
        if res not in ("sat", "unsat", "unknown"):
            res, reason = "unknown", (p.stdout + p.stderr)[:200]
        else:
            reason = ""
    except subprocess.TimeoutExpired:
        res, reason = "unknown", "timeout"
    finally:
        os.unlink(path)
    return res, time.time() - t0, reason


def _solve_z3_old(text, rlimit, wall_s):
    """/usr/bin/z3 (4.8.12) on the VC text under a resource limit; returns (result, seconds, reason)"""
    t0 = time.time()
    exe = "/usr/bin/z3"
    if not os.path.exists(exe):
        return "unknown", 0.0, "no /usr/bin/z3"
    with tempfile.NamedTemporaryFile("w", suffix=".smt2", delete=False) as f:
        f.write(text)
        path = f.name
    try:
        p = subprocess.run([exe, f"rlimit={rlimit}", f"-T:{wall_s}", path], capture_output=True, text=True,
                           timeout=wall_s + 10)
        out = p.stdout.strip().splitlines()
        res = out[0] if out else "unknown"
        reason = ""
        if res not in ("sat", "unsat", "unknown"):
            res, reason = "unknown", (p.stdout + p.stderr)[:200]
        elif res == "unknown":
            reason = "resource limit"
    except subprocess.TimeoutExpired:
        res, reason = "unknown", "timeout"
    finally:
        os.unlink(path)
    return res, time.time() - t0, reason


def _work(item):
    name, text, timeout_ms, use_cvc5 = item
    res, t, reason = _solve_z3(text, timeout_ms, mbqi=False)
    backend = "z3"
    if res == "unknown":
        # a second z3 attempt with MBQI (can only turn unknown into sat/unsat)
        res2, t2, reason2 = _solve_z3(text, timeout_ms, mbqi=True)
        t += t2
        if res2 in ("sat", "unsat"):
            res, reason, backend = res2, reason2, "z3-mbqi"
    if res == "unknown" and use_cvc5:
        res3, t3, reason3 = _solve_cvc5(text, timeout_ms)
        t += t3
        if res3 in ("sat", "unsat"):
            res, reason, backend = res3, reason3, "cvc5"
    return name, res, t, backend, reason


def discharge(obligations, timeout_ms=10000, jobs=None, use_cvc5=True):
    items = [(ob.name, to_smt2(ob), timeout_ms, use_cvc5) for ob in obligations]
    by_name = {ob.name: ob for ob in obligations}
    jobs = jobs or min(16, os.cpu_count() or 1)
    if len(items) <= 2 or jobs == 1:
        results = map(_work, items)
    else:
        ex = ProcessPoolExecutor(max_workers=jobs)
        results = ex.map(_work, items, chunksize=1)
    for name, res, t, backend, reason in results:
        ob = by_name[name]
        ob.status = {"unsat": "discharged", "sat": "refuted"}.get(res, "unknown")
        ob.time = t
        ob.backend = backend
        ob.reason = reason
    return obligations


def get_model(ob, timeout_ms=20000):
    """Re-solve a refuted obligation in-process and return the z3 model (or None)."""
    s = z3.Solver()
    s.set("timeout", timeout_ms)
    for a in ob.assumptions:
        s.add(a)
    s.add(z3.Not(ob.goal))
    if s.check() == z3.sat:
        return s.model()
    return None
