"""Attribute-map model of an Element: a finite map from *constant* qualified attribute names to
`str | absent`, used for the typed-value and repeat-attribute contracts (C06, C07, C12).

State per object: fields["__attrs"]: dict name -> value where value is
   ABSENT | python str | z3 String | Unknown(name)   (Unknown = arbitrary pre-state, never read)
The three wrappers Element.get_attribute / set_attribute / del_attribute and get_attribute_string are
assumed contracts written from their source (thin wrappers over lxml's .get/.set/.attrib)."""
from __future__ import annotations

import z3

from .engine import ObjV, OpaqueV, OptIntV, PyRaise, Unsupported, is_symbolic, py_type_of
from .lists import lift
from .xmlmodel import BaseModel


class _Absent:
    def __repr__(self):
        return "ABSENT"


ABSENT = _Absent()


class Unknown:
    def __init__(self, name):
        self.name = name


class AttrView:
    def __init__(self, obj):
        self.ref = obj
        self.attrs = dict(obj.fields["__attrs"])

    def __getitem__(self, name):
        return self.attrs[name]

    def get(self, name):
        v = self.attrs.get(name, None)
        if v is None:
            return Unknown(name)
        return v

    def absent(self, name):
        return self.attrs.get(name) is ABSENT

    def equals(self, name, value):
        """attribute `name` is present with exactly this string value (z3 Bool or python bool)"""
        v = self.attrs.get(name)
        if v is None or v is ABSENT or isinstance(v, Unknown):
            return False
        if isinstance(v, str) and isinstance(value, str):
            return v == value
        return lift(v) == lift(value)


class AttrModel(BaseModel):
    def view(self, en, obj):
        return AttrView(obj)


ATTR = AttrModel()


def attr_obj_maker(en, name, cls=None, **kw):
    return ObjV(cls, {"__attrs": {}}, model=ATTR)


def _attrs(obj):
    return obj.fields["__attrs"]


def h_del_attribute(en, con, vals, site):
    obj, name = vals["self"], vals["name"]
    if is_symbolic(name):
        raise Unsupported("del_attribute with symbolic name")
    a = _attrs(obj)
    cur = a.get(name)
    if cur is None or isinstance(cur, Unknown):
        # unknown pre-state: present or not.  Under `with suppress(KeyError): <this statement>` the
        # two outcomes are indistinguishable; otherwise fork.
        if en.suppressed(KeyError) or en.choose(2) == 0:
            a[name] = ABSENT
            return None
        a[name] = ABSENT
        raise PyRaise(KeyError, name)
    if cur is ABSENT:
        raise PyRaise(KeyError, name)
    a[name] = ABSENT
    return None


def _encode_bool(v):
    if isinstance(v, bool):
        return "true" if v else "false"
    return z3.If(v, z3.StringVal("true"), z3.StringVal("false"))


def h_set_attribute(en, con, vals, site):
    from odfdo.const import ODF_COLOR_PROPERTY
    obj, name, value = vals["self"], vals["name"], vals["value"]
    if is_symbolic(name):
        raise Unsupported("set_attribute with symbolic name")
    if name in ODF_COLOR_PROPERTY:
        raise Unsupported("colour attribute")
    a = _attrs(obj)
    if value is None:
        a[name] = ABSENT
        return None
    t = py_type_of(value)
    if t is bool:
        a[name] = _encode_bool(value)
        return None
    a[name] = en.to_str(value)
    return None


def h_get_attribute(en, con, vals, site):
    obj, name = vals["self"], vals["name"]
    a = _attrs(obj)
    cur = a.get(name)
    if cur is None or isinstance(cur, Unknown):
        raise Unsupported(f"read of attribute {name} with unknown pre-state")
    if cur is ABSENT:
        return None
    if isinstance(cur, str):
        if cur in ("true", "false"):
            return cur == "true"
        return cur
    if en.decide(lift(cur) == "true"):
        return True
    if en.decide(lift(cur) == "false"):
        return False
    return cur


def h_get_attribute_string(en, con, vals, site):
    obj, name = vals["self"], vals["name"]
    cur = _attrs(obj).get(name)
    if cur is None or isinstance(cur, Unknown):
        raise Unsupported(f"read of attribute {name} with unknown pre-state")
    if cur is ABSENT:
        return None
    return cur
