"""dev runner: python -m pyvc.dev specs.module target"""
import importlib, sys, itertools, time
from pyvc.engine import Engine, Unsupported
from pyvc.spec import REGISTRY
from pyvc import smt

def sigcases(con):
    for sig in con.sigs:
        names = list(sig)
        alts = [sig[n].alternatives() for n in names]
        for combo in itertools.product(*alts):
            yield dict(zip(names, combo))

def main():
    importlib.import_module(sys.argv[1])
    targets = sys.argv[2:] or list(REGISTRY)
    for t in targets:
        con = REGISTRY[t]
        if con.trusted: continue
        import os
        only = os.environ.get("PYVC_CASE")
        for sc, case in [(sc, cs) for sc in sigcases(con) for cs in (list(con.cases) or [None])]:
            if only and case != only: continue
            t0=time.time()
            try:
                en = Engine(con, sc, case=case).run()
            except Unsupported as e:
                print("UNDECIDED", t, e); continue
            obs = list(en.obligations.values())
            smt.discharge(obs, timeout_ms=10000)
            print(f"{t} [{en.case_label}] paths={len(en.paths)} obligations={len(obs)} gen+solve={time.time()-t0:.2f}s")
            for ob in obs:
                flag = ob.status
                print(f"   {flag:10s} {ob.time:6.2f}s {ob.backend:8s} {ob.name} {ob.info if ob.info else ''}")
                if flag=='refuted':
                    m = smt.get_model(ob)
                    print("      model:", str(m)[:600])
def lemmas():
    import z3
    from pyvc.spec import LEMMAS
    for name, lem in LEMMAS.items():
        for label, assumptions, goal in lem.fn():
            sol = z3.Solver(); sol.set("timeout", 20000)
            for a in assumptions: sol.add(a)
            sol.add(z3.Not(goal)); t0=time.time(); r = sol.check()
            print(f"   lemma {name}/{label}: {'discharged' if r==z3.unsat else r} {time.time()-t0:.2f}s")
main()
lemmas()
