"""Native side of the vault model: build real Row / Table / Cell / Column objects from a
counter-model, and evaluate the vault predicates on real objects by reading lxml directly
(never through odfdo's own table API), for replay and for the CPython cross-check."""
from __future__ import annotations

import copy

from lxml import etree

REP_ATTR = {
    "cells": "{urn:oasis:names:tc:opendocument:xmlns:table:1.0}number-columns-repeated",
    "cols": "{urn:oasis:names:tc:opendocument:xmlns:table:1.0}number-columns-repeated",
    "rows": "{urn:oasis:names:tc:opendocument:xmlns:table:1.0}number-rows-repeated",
}
TABLE_NS = "{urn:oasis:names:tc:opendocument:xmlns:table:1.0}"
ITEM_TAGS = {
    "cells": {TABLE_NS + "table-cell", TABLE_NS + "covered-table-cell"},
    "rows": {TABLE_NS + "table-row"},
    "cols": {TABLE_NS + "table-column"},
}
MAP_OF_KIND = {"cells": "_rmap", "rows": "_tmap", "cols": "_cmap"}


def lx(obj):
    return obj._Element__element


def payload(el, kind):
    """content of an item node without its repeat attribute (canonical string)"""
    c = copy.deepcopy(el)
    c.tail = None
    c.attrib.pop(REP_ATTR[kind], None)
    return etree.tostring(c, method="c14n")


def rep_of(el, kind):
    v = el.get(REP_ATTR[kind])
    if v is None:
        return 1
    try:
        return max(int(v), 1)
    except ValueError:
        return 1


def attr_ok(el, kind):
    v = el.get(REP_ATTR[kind])
    return v is None or (v.isascii() and v.isdigit() and str(int(v)) == v and int(v) >= 2)


def item_elements(vault_el, kind):
    """independent reader: the item nodes of a vault node in document order"""
    out = []
    if kind == "cells":
        for ch in vault_el:
            if ch.tag in ITEM_TAGS["cells"]:
                out.append(ch)
        return out
    group = {"rows": {TABLE_NS + "table-rows", TABLE_NS + "table-header-rows", TABLE_NS + "table-row-group"},
             "cols": {TABLE_NS + "table-columns", TABLE_NS + "table-header-columns", TABLE_NS + "table-column-group"}}[kind]
    for ch in vault_el:
        if ch.tag in ITEM_TAGS[kind]:
            out.append(ch)
        elif ch.tag in group:
            for g in ch:
                if g.tag in ITEM_TAGS[kind]:
                    out.append(g)
    return out


class NWrapView:
    """native view of an item wrapper (Cell / Row / Column) at one point in time"""

    def __init__(self, obj, kind=None, existing=None):
        self.ref = obj
        self.el = lx(obj)
        self.kind = kind or kind_of(obj)
        self.rep = rep_of(self.el, self.kind)
        self.pl = payload(self.el, self.kind)
        self.node = id(self.el)
        self.x = getattr(obj, "x", None)
        self.y = getattr(obj, "y", None)
        self.attr_ok = attr_ok(self.el, self.kind)
        if self.kind == "rows":
            self.roww = sum(rep_of(c, "cells") for c in item_elements(self.el, "cells"))


def kind_of(obj):
    n = type(obj).__name__
    return {"Cell": "cells", "Row": "rows", "Column": "cols"}.get(n, "cells")


class NVaultView(NWrapView):
    def __init__(self, obj):
        self.ref = obj
        self.el = lx(obj)
        self.node = id(self.el)
        self.y = getattr(obj, "y", None)
        self.x = None
        kinds = ("cells",) if type(obj).__name__ == "Row" else ("rows", "cols")
        self.kind = "rows" if type(obj).__name__ == "Row" else None
        if self.kind:
            self.rep = rep_of(self.el, "rows")
            self.pl = payload(self.el, "rows")
            self.roww = sum(rep_of(c, "cells") for c in item_elements(self.el, "cells"))
        self.kinds = kinds
        self.snap = {}
        for kind in kinds:
            els = item_elements(self.el, kind)
            self.snap[kind] = {
                "els": els,
                "ids": [id(e) for e in els],
                "reps": [rep_of(e, kind) for e in els],
                "pls": [payload(e, kind) for e in els],
                "ok": [attr_ok(e, kind) for e in els],
                "map": list(getattr(obj, MAP_OF_KIND[kind])),
                "map_ref": getattr(obj, MAP_OF_KIND[kind]),
                "idx": {i: id(lx(w)) if w is not None else None
                        for i, w in getattr(obj, "_indexes", {}).get(MAP_OF_KIND[kind], {}).items()},
                "flat": all(e.getparent() is self.el for e in els),
            }

    # predicates --------------------------------------------------------------
    def inv(self, kind):
        s = self.snap[kind]
        m = s["map"]
        if len(m) != len(s["els"]):
            return False
        prev = -1
        for i, r in enumerate(s["reps"]):
            if m[i] - prev != r:
                return False
            prev = m[i]
        if len(set(s["ids"])) != len(s["ids"]):
            return False
        for i, nid in s["idx"].items():
            if nid is None:
                continue
            if not (0 <= i < len(s["ids"])) or s["ids"][i] != nid:
                return False
        return True

    def vlen(self, kind):
        m = self.snap[kind]["map"]
        return m[-1] + 1 if m else 0

    def expand(self, kind):
        """the independent expansion of the XML: one content per position"""
        s = self.snap[kind]
        out = []
        for r, p in zip(s["reps"], s["pls"]):
            out.extend([p] * r)
        return out

    def detached(self, kind, item):
        return item.node not in self.snap[kind]["ids"]

    def pointwise(self, vold, kind, expected, lo=0, src=None):
        new = self.expand(kind)
        old = vold.expand(kind)
        len0 = len(old)
        if len(new) != self.vlen(kind):
            return False
        for p in range(lo, len(new)):
            q = src(p) if src is not None else p
            oc = old[q] if 0 <= q < len0 else None
            if new[p] != expected(p, oc, len0):
                return False
        return True

    def cache_empty(self, mname):
        kind = {v: k for k, v in MAP_OF_KIND.items()}[mname]
        return not self.snap[kind]["idx"]

    def all_attr_ok(self, kind):
        return all(self.snap[kind]["ok"])


# ------------------------------------------------------------------ building real objects from a model
def cell_with(pl, rep):
    from odfdo.cell import Cell
    c = Cell(int(pl) % 100000)
    if rep >= 2:
        lx(c).set(REP_ATTR["cells"], str(rep))
    return c


def row_with(pl, rep, cells=None):
    from odfdo.row import Row
    r = Row()
    if cells is None:
        cells = [(pl, 1)]
    for cp, cr in cells:
        lx(r).append(lx(cell_with(cp, cr)))
    r._compute_row_cache()
    if rep >= 2:
        lx(r).set(REP_ATTR["rows"], str(rep))
    return r


def col_with(pl, rep):
    from odfdo.table import Column
    c = Column(style=f"co{int(pl) % 1000}")
    if rep >= 2:
        lx(c).set(REP_ATTR["cols"], str(rep))
    return c


ITEM_BUILDERS = {"cells": cell_with, "rows": row_with, "cols": col_with}


def build_row(items, cached=()):
    """a real Row whose cells are [(pl, rep), ...]; `cached` = odf indices present in the cell cache"""
    import odfdo.row as R
    row = R.Row()
    for pl, rep in items:
        lx(row).append(lx(cell_with(pl, rep)))
    row._compute_row_cache()
    for i in cached:
        if 0 <= i < len(items):
            row._indexes["_rmap"][i] = row._get_element_idx2(R._xpath_cell_idx, i)
    return row


def build_table(rows, cols, cached_rows=(), cached_cols=()):
    import odfdo.table as T
    t = T.Table("t")
    for pl, rep in cols:
        lx(t).append(lx(col_with(pl, rep)))
    for pl, rep in rows:
        lx(t).append(lx(row_with(pl, rep)))
    t._compute_table_cache()
    for i in cached_rows:
        if 0 <= i < len(rows):
            t._indexes["_tmap"][i] = t._get_element_idx2(T._xpath_row_idx, i)
    for i in cached_cols:
        if 0 <= i < len(cols):
            t._indexes["_cmap"][i] = t._get_element_idx2(T._xpath_column_idx, i)
    return t


# ------------------------------------------------------------------ concretisation / generation for vault contracts
def _mv(model, expr, default=0):
    import z3
    v = model.eval(expr, model_completion=True)
    if z3.is_int_value(v):
        return v.as_long()
    if z3.is_true(v):
        return True
    if z3.is_false(v):
        return False
    return default


def _runs_from_model(model, name, kind, cap=6):
    import z3
    k = max(0, min(_mv(model, z3.Int(f"{name}.{kind}.k")), cap))
    seq = z3.Array(f"{name}.{kind}.seq", z3.IntSort(), z3.IntSort())
    rep = z3.Array("xml.rep", z3.IntSort(), z3.IntSort())
    pl = z3.Array("xml.pl", z3.IntSort(), z3.IntSort())
    runs = []
    for i in range(k):
        node = z3.Select(seq, i)
        runs.append((_mv(model, z3.Select(pl, node)), max(1, min(_mv(model, z3.Select(rep, node)), 50))))
    mname = MAP_OF_KIND[kind]
    idx = z3.Array(f"{name}.{mname}.idx", z3.IntSort(), z3.IntSort())
    cached = [i for i in range(k) if _mv(model, z3.Select(idx, i)) != -1]
    return runs, cached


def _roles(sigcase):
    """names of the vault / item / position parameters of a vault-style signature"""
    vault = next((n for n, t in sigcase.items() if type(t).__name__ == "Model" and "kinds" in getattr(t, "kw", {})), None)
    item = next((n for n in ("item", "cell", "row", "column") if n in sigcase and type(sigcase[n]).__name__ == "Model"), None)
    pos = next((n for n in ("position", "x", "y") if n in sigcase), None)
    return vault, item, pos


def build_vault_args(sigcase, spec):
    """spec: dict with runs per kind, caches, position, item (pl, rep), clone -> argument dict of real objects"""
    import odfdo.row as R
    import odfdo.table as T
    out = {}
    vname, iname, pname = _roles(sigcase)
    vs = sigcase[vname]
    kinds = vs.kw["kinds"]
    if kinds == ("cells",):
        out[vname] = build_row(spec["cells"], spec.get("cached_cells", ()))
    else:
        out[vname] = build_table(spec["rows"], spec["cols"], spec.get("cached_rows", ()), spec.get("cached_cols", ()))
    for name, t in sigcase.items():
        if name == vname:
            continue
        if name == iname:
            if "vault_map_name" in sigcase:
                mname = sigcase["vault_map_name"].value
                kind = {v: k for k, v in MAP_OF_KIND.items()}[mname]
            else:
                kind = {"cell": "cells", "row": "rows", "column": "cols", "item": kinds[0]}[iname]
            out[name] = ITEM_BUILDERS[kind](*spec["item"])
        elif hasattr(t, "value"):
            out[name] = t.value
        elif name == pname:
            out[name] = spec["position"]
        elif name in spec:
            out[name] = spec[name]
        elif type(t).__name__ == "_Bool":
            out[name] = spec.get("clone", True)
        elif type(t).__name__ == "_Int":
            out[name] = spec.get("position", 0)
        elif type(t).__name__ == "TupleOf":
            vals = spec.get("tuple", ())
            out[name] = tuple(vals[i] if i < len(vals) else spec.get("position", 0) for i in range(len(t.elts)))
    return out


def concretize_vault(con, sigcase, model):
    import z3
    vname, iname, pname = _roles(sigcase)
    vs = sigcase[vname]
    kinds = vs.kw["kinds"]
    spec = {}
    for kind in kinds:
        runs, cached = _runs_from_model(model, vname, kind)
        spec[kind] = runs
        spec["cached_" + kind] = cached
    if iname is not None:
        node = z3.Int(iname + ".node")
        rep = z3.Array("xml.rep", z3.IntSort(), z3.IntSort())
        pl = z3.Array("xml.pl", z3.IntSort(), z3.IntSort())
        spec["item"] = (_mv(model, z3.Select(pl, node)), max(1, min(_mv(model, z3.Select(rep, node)), 50)))
    for name, t in sigcase.items():
        tn = type(t).__name__
        if tn == "_Int":
            spec[name] = _mv(model, z3.Int(name))
            if name == pname:
                spec["position"] = spec[name]
        elif tn == "_Bool":
            spec[name] = bool(_mv(model, z3.Bool(name), False))
        elif tn == "TupleOf":
            spec[name] = tuple(_mv(model, z3.Int(f"{name}.{i}")) for i in range(len(t.elts)))
    return build_vault_args(sigcase, spec)


def gen_vault(con, sigcase, count, seed):
    """small scope: up to 3 runs with repeats 1..3, every position, item repeats 1..3, caches empty/full"""
    import itertools
    import random
    rnd = random.Random(seed)
    vname, iname, pname = _roles(sigcase)
    vs = sigcase[vname]
    kinds = vs.kw["kinds"]
    mname = sigcase["vault_map_name"].value if "vault_map_name" in sigcase else MAP_OF_KIND[kinds[0]]
    kind = {v: k for k, v in MAP_OF_KIND.items()}[mname]
    shapes = []
    for k in range(0, 4):
        for reps in itertools.product((1, 2, 3), repeat=k):
            shapes.append([(10 + i, r) for i, r in enumerate(reps)])
    rnd.shuffle(shapes)
    cases = []
    for runs in shapes:
        total = sum(r for _, r in runs)
        for pos in range(0, total + 3):
            for irep in (1, 2, 3):
                for cached in ((), tuple(range(len(runs)))):
                    cases.append((runs, pos, irep, cached))
    rnd.shuffle(cases)
    n = 0
    for runs, pos, irep, cached in cases:
        spec = {"position": pos, "item": (99, irep), "clone": rnd.choice([True, False]), "x": pos, "y": pos,
                "tuple": tuple(rnd.choice([pos, -pos, pos - total, irep, -irep, 0, -1, total, -total - 1])
                               for _ in range(4))}
        other = [(50, 2), (51, 1)]
        if kinds == ("cells",):
            spec["cells"] = runs
            spec["cached_cells"] = cached
        elif kind == "rows":
            spec["rows"], spec["cols"] = runs, other
            spec["cached_rows"] = cached
        else:
            spec["cols"], spec["rows"] = runs, other
            spec["cached_cols"] = cached
        yield build_vault_args(sigcase, spec)
        n += 1
        if n >= count * 20:
            return
