"""Raw lxml element model for the attribute machinery: an `_Element` whose attributes are a finite map
from *constant* lxml names ("{uri}local") to `str | absent`.  Only what the thin wrappers use:
  node.get(name) -> str | None ; node.set(name, value) ; node.attrib[name], del node.attrib[name]
(KeyError when absent), `name in node.attrib`, node.attrib.pop(name, default).
These are the assumed contracts of lxml.etree._Element / _Attrib."""
from __future__ import annotations

import z3

from .attrmodel import ABSENT, Unknown
from .engine import ObjV, PyRaise, Unsupported, is_symbolic
from .lists import lift
from .xmlmodel import BaseModel


class NodeView:
    def __init__(self, obj):
        self.ref = obj
        self.attrs = dict(obj.fields["attrs"])

    def absent(self, name):
        return self.attrs.get(name) is ABSENT

    def value(self, name):
        return self.attrs.get(name)

    def equals(self, name, value):
        v = self.attrs.get(name)
        if v is None or v is ABSENT or isinstance(v, Unknown):
            return False
        if isinstance(v, str) and isinstance(value, str):
            return v == value
        return lift(v) == lift(value)


class AttribModel(BaseModel):
    methods = {"pop", "get"}

    def _a(self, obj):
        return obj.fields["node"].fields["attrs"]

    def _known(self, en, obj, name, what):
        if is_symbolic(name):
            raise Unsupported("symbolic attribute name")
        cur = self._a(obj).get(name)
        if cur is None or isinstance(cur, Unknown):
            # unknown pre-state of this attribute: split into present (abstract value) / absent
            if en.choose(2) == 0:
                self._a(obj)[name] = ABSENT
            else:
                self._a(obj)[name] = en.fresh("attr", "str")
            cur = self._a(obj)[name]
        return cur

    def contains(self, en, obj, item):
        return self._known(en, obj, item, "in") is not ABSENT

    def getitem(self, en, obj, idx):
        cur = self._known(en, obj, idx, "get")
        if cur is ABSENT:
            raise PyRaise(KeyError, idx)
        return cur

    def setitem(self, en, obj, idx, v):
        self._a(obj)[idx] = en.to_str(v)

    def delitem(self, en, obj, idx):
        if is_symbolic(idx):
            raise Unsupported("symbolic attribute name")
        cur = self._a(obj).get(idx)
        if (cur is None or isinstance(cur, Unknown)) and en.suppressed(KeyError):
            self._a(obj)[idx] = ABSENT
            return
        cur = self._known(en, obj, idx, "del")
        if cur is ABSENT:
            raise PyRaise(KeyError, idx)
        self._a(obj)[idx] = ABSENT

    def call_method(self, en, obj, name, args, kwargs):
        if name == "get":
            cur = self._known(en, obj, args[0], "get")
            return (args[1] if len(args) > 1 else None) if cur is ABSENT else cur
        if name == "pop":
            cur = self._known(en, obj, args[0], "pop")
            if cur is ABSENT:
                if len(args) > 1:
                    return args[1]
                raise PyRaise(KeyError, args[0])
            self._a(obj)[args[0]] = ABSENT
            return cur
        raise Unsupported(f"_Attrib.{name}")


ATTRIB = AttribModel()


class NodeModel(BaseModel):
    methods = {"get", "set"}

    def view(self, en, obj):
        return NodeView(obj)

    def getattr(self, en, obj, name):
        if name == "attrib":
            return ObjV(dict, {"node": obj}, model=ATTRIB)
        return NotImplemented

    def call_method(self, en, obj, name, args, kwargs):
        if name == "get":
            cur = ATTRIB._known(en, ObjV(dict, {"node": obj}, model=ATTRIB), args[0], "get")
            return (args[1] if len(args) > 1 else None) if cur is ABSENT else cur
        if name == "set":
            if is_symbolic(args[0]):
                raise Unsupported("symbolic attribute name")
            v = args[1]
            from .engine import py_type_of
            if py_type_of(v) is not str:
                raise PyRaise(TypeError, "Argument must be bytes or unicode")
            obj.fields["attrs"][args[0]] = v
            return None
        raise Unsupported(f"_Element.{name}")


NODE = NodeModel()


class ElemView:
    """view of an Element wrapper: its node's attributes by *prefixed* name"""

    def __init__(self, en, obj):
        self.ref = obj
        node = obj.fields.get("_Element__element")
        self.node = NodeView(node) if node is not None else None
        self.do_init = obj.fields.get("_do_init")

    def _lx(self, qname):
        from odfdo.element import _get_lxml_tag_or_name
        return _get_lxml_tag_or_name(qname)

    def absent(self, qname):
        return self.node.absent(self._lx(qname))

    def equals(self, qname, value):
        return self.node.equals(self._lx(qname), value)

    def value(self, qname):
        return self.node.value(self._lx(qname))


class ElemModel(BaseModel):
    def view(self, en, obj):
        return ElemView(en, obj)


ELEM = ElemModel()


def new_node(attrs=None):
    return ObjV(object, {"attrs": dict(attrs or {})}, model=NODE)


def elem_maker(en, name, cls=None, attrs=None, do_init=True, **kw):
    """an Element (subclass) wrapper over a node whose attributes are in an unknown state unless given"""
    return ObjV(cls, {"_Element__element": new_node(attrs), "_do_init": do_init}, model=ELEM)
