"""python -m pyvc.dump specs.mod target substring-of-obligation-name [case]  -> writes /tmp/vc.smt2"""
import importlib, sys, itertools
from pyvc.engine import Engine
from pyvc.spec import REGISTRY
from pyvc import smt
importlib.import_module(sys.argv[1])
con = REGISTRY[sys.argv[2]]
case = sys.argv[4] if len(sys.argv) > 4 else None
cases=[]
for sig in con.sigs:
    names = list(sig); alts=[sig[n].alternatives() for n in names]
    cases += [dict(zip(names, c)) for c in itertools.product(*alts)]
for sc in cases:
    en = Engine(con, sc, case=case).run()
    for ob in en.obligations.values():
        if sys.argv[3] in ob.name:
            open('/tmp/vc.smt2','w').write(smt.to_smt2(ob)); print("wrote", ob.name); sys.exit(0)
print("not found")
