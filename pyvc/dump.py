"""python -m pyvc.dump specs.mod target substring-of-obligation-name  -> writes /tmp/vc.smt2"""
import importlib, sys, itertools
from pyvc.engine import Engine
from pyvc.spec import REGISTRY
from pyvc import smt
importlib.import_module(sys.argv[1])
con = REGISTRY[sys.argv[2]]
names = list(con.sig); alts=[con.sig[n].alternatives() for n in names]
for combo in itertools.product(*alts):
    en = Engine(con, dict(zip(names, combo))).run()
    for ob in en.obligations.values():
        if sys.argv[3] in ob.name:
            open('/tmp/vc.smt2','w').write(smt.to_smt2(ob)); print("wrote", ob.name); sys.exit(0)
