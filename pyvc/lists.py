"""List terms: an immutable algebra of Python list values with quantifier-free select.

A Python list whose length is symbolic is represented by a term built from
leaves (z3 arrays with a symbolic length) by slicing, concatenation, elementwise
maps and single appends.  ``sel(j)`` and ``length()`` are computed structurally, so
no definitional quantified axiom is needed.  Lists of concrete length are ``LConc``.
Elements of symbolic lists are z3 values (ints unless stated).
"""
from __future__ import annotations

import z3


def _ite(c, a, b):
    if c is True:
        return a
    if c is False:
        return b
    if isinstance(c, bool):
        return a if c else b
    c = z3.simplify(c)
    if z3.is_true(c):
        return a
    if z3.is_false(c):
        return b
    if not isinstance(a, z3.ExprRef) and not isinstance(b, z3.ExprRef):
        if type(a) is type(b) and a == b:
            return a
        a = lift(a)
        b = lift(b)
    elif not isinstance(a, z3.ExprRef):
        a = lift(a, like=b)
    elif not isinstance(b, z3.ExprRef):
        b = lift(b, like=a)
    return z3.If(c, a, b)


def lift(v, like=None):
    if isinstance(v, z3.ExprRef):
        return v
    if isinstance(v, bool):
        return z3.BoolVal(v)
    if isinstance(v, int):
        return z3.IntVal(v)
    if isinstance(v, str):
        return z3.StringVal(v)
    raise TypeError(f"cannot lift {v!r}")


def zint(v):
    return v if isinstance(v, z3.ExprRef) else z3.IntVal(v)


def is_conc_int(v):
    return isinstance(v, int) and not isinstance(v, bool)


def simp_int(e):
    """Return a python int when the z3 term simplifies to a numeral."""
    if isinstance(e, z3.ExprRef):
        s = z3.simplify(e)
        if z3.is_int_value(s):
            return s.as_long()
        return s
    return e


class LT:
    """Abstract list term."""

    def length(self):
        raise NotImplementedError

    def sel(self, j):
        raise NotImplementedError

    def conc_len(self):
        n = simp_int(self.length())
        return n if isinstance(n, int) else None


class LConc(LT):
    def __init__(self, items):
        self.items = list(items)

    def length(self):
        return len(self.items)

    def sel(self, j):
        j = simp_int(j)
        if isinstance(j, int):
            if 0 <= j < len(self.items):
                return self.items[j]
            # out of range: only reachable under a false guard of an enclosing if-then-else
            return self.items[-1] if self.items else z3.IntVal(0)
        # symbolic index into a concrete list: if-chain (elements must be liftable)
        if not self.items:
            return z3.IntVal(0)     # only reachable under a false guard (empty range)
        res = self.items[-1]
        for k in range(len(self.items) - 2, -1, -1):
            res = _ite(j == k, self.items[k], res)
        return res


class LLeaf(LT):
    def __init__(self, arr, n, name=None):
        self.arr = arr
        self.n = n
        self.name = name

    def length(self):
        return self.n

    def sel(self, j):
        return z3.Select(self.arr, zint(j))


class LSlice(LT):
    """base[lo:hi] with lo, hi already normalised and clamped to 0 <= lo <= hi' <= len."""

    def __init__(self, base, lo, hi):
        self.base = base
        self.lo = lo
        self.hi = hi

    def length(self):
        return simp_int(zint(self.hi) - zint(self.lo)) if not (
            is_conc_int(self.hi) and is_conc_int(self.lo)
        ) else self.hi - self.lo

    def sel(self, j):
        return self.base.sel(simp_int(zint(self.lo) + zint(j)))


class LCat(LT):
    def __init__(self, a, b):
        self.a = a
        self.b = b

    def length(self):
        la, lb = self.a.length(), self.b.length()
        if is_conc_int(la) and is_conc_int(lb):
            return la + lb
        return simp_int(zint(la) + zint(lb))

    def sel(self, j):
        la = self.a.length()
        if is_conc_int(la) and la == 0:
            return self.b.sel(j)
        jj = simp_int(j)
        if is_conc_int(la) and is_conc_int(jj):
            return self.a.sel(jj) if jj < la else self.b.sel(jj - la)
        c = zint(jj) < zint(la)
        return _ite(c, self.a.sel(jj), self.b.sel(simp_int(zint(jj) - zint(la))))


class LMap(LT):
    """[expr(x) for x in base]; ``var`` is a z3 constant, ``expr`` a z3 term over it."""

    def __init__(self, base, var, expr):
        self.base = base
        self.var = var
        self.expr = expr

    def length(self):
        return self.base.length()

    def sel(self, j):
        return z3.substitute(self.expr, (self.var, lift(self.base.sel(j))))


ENTAILS = None   # set by the engine: callable(z3 Bool) -> True when the current path condition implies it


def _entailed(c):
    if ENTAILS is None:
        return False
    try:
        return bool(ENTAILS(c))
    except Exception:  # noqa
        return False


class LWrap(LT):
    """[fn(x) for x in base] where fn builds an arbitrary (model) object from the element"""

    def __init__(self, base, fn):
        self.base = base
        self.fn = fn

    def length(self):
        return self.base.length()

    def sel(self, j):
        return self.fn(self.base.sel(j))


class LRev(LT):
    """reversed(base)"""

    def __init__(self, base):
        self.base = base

    def length(self):
        return self.base.length()

    def sel(self, j):
        return self.base.sel(simp_int(zint(self.base.length()) - 1 - zint(j)))


def clamp_slice(n, lo, hi):
    """Python slice index normalisation for step 1; returns (lo', hi') with
    0 <= lo' <= hi' <= n as (possibly symbolic) ints."""
    n_ = zint(n)

    def norm(i, default):
        if i is None:
            return default
        i_ = simp_int(i)
        if is_conc_int(i_) and is_conc_int(simp_int(n)):
            nn = simp_int(n)
            if i_ < 0:
                i_ += nn
            return max(0, min(nn, i_))
        iz = zint(i_)
        if _entailed(z3.And(iz >= 0, iz <= n_)):
            return i_
        if is_conc_int(i_) and i_ >= 0:
            return simp_int(z3.If(iz > n_, n_, iz))
        adj = z3.If(iz < 0, iz + n_, iz)
        return simp_int(z3.If(adj < 0, z3.IntVal(0), z3.If(adj > n_, n_, adj)))

    lo2 = norm(lo, 0)
    hi2 = norm(hi, simp_int(n))
    if is_conc_int(lo2) and is_conc_int(hi2):
        return lo2, max(lo2, hi2)
    if _entailed(zint(lo2) <= zint(hi2)):
        return lo2, hi2
    hi3 = simp_int(z3.If(zint(hi2) < zint(lo2), zint(lo2), zint(hi2)))
    return lo2, hi3


def slice_term(t, lo, hi):
    n = t.length()
    lo2, hi2 = clamp_slice(n, lo, hi)
    if isinstance(t, LConc) and is_conc_int(lo2) and is_conc_int(hi2):
        return LConc(t.items[lo2:hi2])
    return LSlice(t, lo2, hi2)


def cat_term(a, b):
    if isinstance(a, LConc) and isinstance(b, LConc):
        return LConc(a.items + b.items)
    if isinstance(a, LConc) and not a.items:
        return b
    if isinstance(b, LConc) and not b.items:
        return a
    return LCat(a, b)
