"""Abstract model of the lxml side of odfdo's run-length "vaults" (Row/cells, Table/rows, Table/columns).

XML state (ghost, one per path):
  rep : node -> int   effective repeat of an item node (attribute absent = 1), always >= 1
  pl  : node -> int   abstract content of an item node (everything except the repeat attribute)
Each vault object carries, per item kind, the document-order sequence of its item nodes as a
list term.  Node ids < N0 are nodes that exist at function entry; nodes created during the
call (clone, constructor) get the ids N0, N0+1, ... and are therefore distinct from all others.

The operations below are the *assumed contracts* of the thin Element wrappers over lxml
(index / insert / delete / append / _get_element_idx2 / clone / elements_repeated_sequence)
restricted to the layout odfdo itself produces: a row's children are its cells; a table's
children are its column declarations followed by its rows (no groups, no other children).
"""
from __future__ import annotations

import z3

from . import lists as L
from .engine import ListV, ObjV, PyRaise, Unsupported, PathEnd
from .lists import LConc, LLeaf, LT, lift, simp_int, zint
from .spec import LView, S, qforall

KIND_OF_MAP = {"_rmap": "cells", "_tmap": "rows", "_cmap": "cols"}
MAP_OF_KIND = {v: k for k, v in KIND_OF_MAP.items()}


class XState:
    def __init__(self):
        self.rep = z3.Array("xml.rep", z3.IntSort(), z3.IntSort())
        self.pl = z3.Array("xml.pl", z3.IntSort(), z3.IntSort())
        self.N0 = z3.Int("xml.N0")
        self.nfresh = 0
        self.extra = {}          # further per-node ghost arrays (name -> array), copied by clone

    def copy_ghost(self, dst, src):
        """a deep copy of node `src` as node `dst`: every per-node ghost attribute is copied"""
        self.rep = z3.Store(self.rep, dst, z3.Select(self.rep, src))
        self.pl = z3.Store(self.pl, dst, z3.Select(self.pl, src))
        for k, arr in list(self.extra.items()):
            self.extra[k] = z3.Store(arr, dst, z3.Select(arr, src))

    def fresh_node(self):
        n = self.N0 + self.nfresh
        self.nfresh += 1
        return z3.simplify(n)


def xstate(en) -> XState:
    st = en.ghost.get("xml")
    if st is None:
        st = XState()
        en.ghost["xml"] = st
        i = z3.FreshInt("n")
        en.pc.append(z3.ForAll([i], z3.Select(st.rep, i) >= 1, patterns=[z3.Select(st.rep, i)]))
        en.pc.append(st.N0 >= 0)
        # PW_TRIG is identically true (definitional); it only gives `pointwise` formulas a trigger that the
        # Skolem constants of a negated pointwise goal match, so an assumed pointwise fact is instantiated there
        p_, a_, b_ = z3.FreshInt("p"), z3.FreshInt("i0"), z3.FreshInt("i1")
        en.pc.append(z3.ForAll([p_, a_, b_], PW_TRIG(p_, a_, b_), patterns=[PW_TRIG(p_, a_, b_)]))
    return st


# ------------------------------------------------------------------ model classes
class BaseModel:
    """Default hooks of a model object."""

    def view(self, en, obj):
        return obj

    def getattr(self, en, obj, name):
        return NotImplemented

    def setattr(self, en, obj, name, v):
        return False

    def hasattr(self, en, obj, name):
        return NotImplemented

    def truth(self, en, obj):
        return True

    def is_same(self, en, a, b):
        return a is b

    def to_str(self, en, obj):
        raise Unsupported("str() of model object")

    def contains(self, en, obj, item):
        raise Unsupported("in <model object>")

    def getitem(self, en, obj, idx):
        raise Unsupported("model[...]")

    def setitem(self, en, obj, idx, v):
        raise Unsupported("model[...] = ")

    def delitem(self, en, obj, idx):
        raise Unsupported("del model[...]")

    def iter_values(self, en, obj):
        raise Unsupported("iteration over model object")

    def length(self, en, obj):
        raise Unsupported("len(model object)")


class IdxModel(BaseModel):
    """vault._indexes[name]: dict odf index -> wrapper, as an array index -> node id (-1 = absent)."""

    def contains(self, en, obj, item):
        return z3.Select(obj.fields["arr"], zint(item)) != -1

    def getitem(self, en, obj, idx):
        node = z3.Select(obj.fields["arr"], zint(idx))
        if not en.decide(node != -1):
            raise PyRaise(KeyError, "index cache miss")
        return make_wrapper(en, obj.fields["item_cls"], node)

    def setitem(self, en, obj, idx, v):
        if v is None:
            # the code stores whatever _get_element_idx2 returned; None is stored as a miss
            obj.fields["arr"] = z3.Store(obj.fields["arr"], zint(idx), z3.IntVal(-2))
            return
        obj.fields["arr"] = z3.Store(obj.fields["arr"], zint(idx), v.fields["node"])

    def truth(self, en, obj):
        raise Unsupported("truth of index cache")


IDX = IdxModel()


class WrapperModel(BaseModel):
    """A Cell / Row / Column wrapper over an item node."""

    def is_same(self, en, a, b):
        return a is b

    def view(self, en, obj):
        return WrapView(en, obj)


WRAP = WrapperModel()


class VaultModel(WrapperModel):
    def view(self, en, obj):
        return VaultView(en, obj)

    def havoc(self, en, obj, name):
        """loop havoc: the item sequences become arbitrary (maps / caches are not touched by XML edits)"""
        for key in list(obj.fields):
            if key.startswith("__items_"):
                kind = key[len("__items_"):]
                k = en.fresh(f"{name}.{kind}.k", "int")
                en.pc.append(k >= 0)
                obj.fields[key] = LLeaf(en.fresh(f"{name}.{kind}.seq", "arr"), k, f"{name}.{kind}")


VAULT = VaultModel()


def item_classes():
    from odfdo.cell import Cell
    from odfdo.row import Row
    from odfdo.table import Column
    return {"cells": Cell, "rows": Row, "cols": Column}


def make_wrapper(en, cls, node, **fields):
    f = {"node": node}
    f.update(fields)
    return ObjV(cls, f, model=WRAP)


def make_idx(en, name, item_cls, arr=None):
    if arr is None:
        arr = z3.K(z3.IntSort(), z3.IntVal(-1))
    return ObjV(dict, {"arr": arr, "item_cls": item_cls}, model=IDX)


# ------------------------------------------------------------------ views for the specs
class WrapView:
    def __init__(self, en, obj):
        st = xstate(en)
        self.ref = obj
        self.node = obj.fields["node"]
        self.rep_arr = st.rep
        self.pl_arr = st.pl
        self.N0 = z3.simplify(st.N0 + st.nfresh)   # bound of the node ids existing at this point
        self.x = obj.fields.get("x")
        self.y = obj.fields.get("y")

    @property
    def rep(self):
        return z3.Select(self.rep_arr, self.node)

    @property
    def pl(self):
        return z3.Select(self.pl_arr, self.node)


class VaultView(WrapView):
    """Snapshot of a vault: item sequences, maps, caches and the XML arrays at one program point."""

    def __init__(self, en, obj):
        super().__init__(en, obj)
        self.items = {}
        self.maps = {}
        self.idx = {}
        for mname, kind in KIND_OF_MAP.items():
            t = obj.fields.get("__items_" + kind)
            if t is not None:
                self.items[kind] = LView(t)
            m = obj.fields.get(mname)
            if isinstance(m, ListV):
                self.maps[mname] = m.view()
            ix = obj.fields.get("_indexes", {}).get(mname) if isinstance(obj.fields.get("_indexes"), dict) else None
            if isinstance(ix, ObjV):
                self.idx[mname] = ix.fields["arr"]
            elif isinstance(ix, dict) and not ix:
                self.idx[mname] = z3.K(z3.IntSort(), z3.IntVal(-1))

    def seq(self, kind):
        return self.items[kind]

    def map(self, mname):
        return self.maps[mname]

    def rep_of(self, node):
        return z3.Select(self.rep_arr, node)

    def pl_of(self, node):
        return z3.Select(self.pl_arr, node)

    def cache(self, mname, i):
        return z3.Select(self.idx[mname], zint(i))


# ------------------------------------------------------------------ sig maker
def vault_maker(en, name, cls=None, kinds=("cells",), **kw):
    """A symbolic vault (Row: cells; Table: rows + cols) in an arbitrary state; the invariant is NOT
    assumed here — contracts state it in `requires`."""
    st = xstate(en)
    node = z3.Int(name + ".node")
    fields = {"node": node, "_indexes": {}}
    ic = item_classes()
    for kind in kinds:
        mname = MAP_OF_KIND[kind]
        k = z3.Int(f"{name}.{kind}.k")
        en.pc.append(k >= 0)
        fields["__items_" + kind] = LLeaf(z3.Array(f"{name}.{kind}.seq", z3.IntSort(), z3.IntSort()), k, f"{name}.{kind}")
        n = z3.Int(f"{name}.{mname}.len")
        en.pc.append(n >= 0)
        fields[mname] = ListV(LLeaf(z3.Array(f"{name}.{mname}.arr", z3.IntSort(), z3.IntSort()), n, f"{name}.{mname}"))
        fields["_indexes"][mname] = make_idx(en, mname, ic[kind], z3.Array(f"{name}.{mname}.idx", z3.IntSort(), z3.IntSort()))
    if cls.__name__ == "Row":
        # a Row wrapper also carries (copies of) its table's maps
        for mname in ("_tmap", "_cmap"):
            if mname not in fields:
                n = z3.Int(f"{name}.{mname}.len")
                en.pc.append(n >= 0)
                fields[mname] = ListV(LLeaf(z3.Array(f"{name}.{mname}.arr", z3.IntSort(), z3.IntSort()), n, f"{name}.{mname}"))
        fields["y"] = kw.get("y", None)
    return ObjV(cls, fields, model=VAULT)


def item_maker(en, name, cls=None, **kw):
    """A detached item wrapper (Cell / Row / Column argument)."""
    node = z3.Int(name + ".node")
    f = {"node": node, "x": None, "y": None}
    return ObjV(cls, f, model=WRAP)


# ------------------------------------------------------------------ spec predicates (symbolic + native)
def before(m, i):
    return S.If(i > 0, lambda: m[i - 1], -1)


def inv_vault(v, kind, attached_below_N0=True):
    """INV(V, kind): map = prefix sums of the XML repeats; caches point at the right nodes."""
    mname = MAP_OF_KIND[kind]
    if isinstance(v, VaultView):
        seq, m = v.seq(kind), v.map(mname)
        k = seq.n
        i = z3.FreshInt("i")
        j = z3.FreshInt("j")
        si, sj = seq[i], seq[j]
        mi = m[i]
        conj = [
            L.lift(m.n) == L.lift(k),
            # local differences
            # pattern on the node term only: a pattern on m[i] would re-trigger on the m[i-1] it creates
            qforall([i], z3.Implies(z3.And(0 <= i, i < zint(k)),
                                    mi - z3.If(i > 0, m[i - 1], -1) == v.rep_of(si)), [si]),
            _mono(m, k),
            # nodes of the vault exist at entry and are pairwise distinct
            qforall([i], z3.Implies(z3.And(0 <= i, i < zint(k)), z3.And(0 <= si, si < v.N0)), [si]),
            _inj(seq, k),
        ]
        if mname in v.idx:
            ci = v.cache(mname, i)
            conj.append(qforall([i], z3.Implies(ci != -1, z3.And(0 <= i, i < zint(k), ci == si)), [ci]))
        return z3.And(*conj)
    return v.inv(kind)


def _mono(m, n):
    from .spec import mpat, pat_ok
    i = z3.FreshInt("i")
    j = z3.FreshInt("j")
    mi, mj = m[i], m[j]
    kw = {"patterns": [mpat(mi, mj)]} if pat_ok([mi, mj]) else {}
    return z3.ForAll([i, j], z3.Implies(z3.And(0 <= i, i < j, j < zint(n)), mi < mj), **kw)


def _inj(seq, k):
    from .spec import mpat, pat_ok
    i = z3.FreshInt("i")
    j = z3.FreshInt("j")
    si, sj = seq[i], seq[j]
    kw = {"patterns": [mpat(si, sj)]} if pat_ok([si, sj]) else {}
    return z3.ForAll([i, j], z3.Implies(z3.And(0 <= i, i < j, j < zint(k)), si != sj), **kw)


def vlen(v, kind):
    """number of positions of the vault (sum of repeats), through the map (valid under INV)"""
    mname = MAP_OF_KIND[kind]
    if isinstance(v, VaultView):
        m = v.map(mname)
        return S.If(L.lift(m.n) > 0, lambda: m[zint(m.n) - 1] + 1, 0)
    return v.vlen(kind)


def detached(v, kind, item):
    """the item node is not one of the vault's nodes"""
    if isinstance(v, VaultView):
        seq = v.seq(kind)
        i = z3.FreshInt("i")
        si = seq[i]
        return qforall([i], z3.Implies(z3.And(0 <= i, i < zint(seq.n)), si != item.node), [si])
    return v.detached(kind, item)


PW_TRIG = z3.Function("pw.trig", z3.IntSort(), z3.IntSort(), z3.IntSort(), z3.BoolSort())


def pointwise(vold, vnew, kind, expected, lo=0, src=None):
    """forall p in [0, len(vnew)): content at p of vnew == expected(p, old_content_at_p or None-marker)

    ``expected(p, old)`` gets the position and a function old() giving the content at p in vold
    (only meaningful when p < len(vold)); it returns the expected content id at p.
    Symbolically all three quantifiers (p and the two run indices) are universal, so that the
    negated goal is ground (Skolem constants with `located` facts)."""
    mname = MAP_OF_KIND[kind]
    if isinstance(vnew, VaultView):
        m0, m1 = vold.map(mname), vnew.map(mname)
        s0, s1 = vold.seq(kind), vnew.seq(kind)
        p, i0, i1 = z3.FreshInt("p"), z3.FreshInt("i0"), z3.FreshInt("i1")
        len1 = vlen(vnew, kind)
        len0 = vlen(vold, kind)
        loc1 = z3.And(0 <= i1, i1 < zint(m1.n), p <= m1[i1], z3.Implies(i1 > 0, m1[i1 - 1] < p))
        q = src(p) if src is not None else p     # old position whose content is read
        loc0 = z3.Implies(z3.And(0 <= q, q < len0),
                          z3.And(0 <= i0, i0 < zint(m0.n), q <= m0[i0], z3.Implies(i0 > 0, m0[i0 - 1] < q)))
        new_content = vnew.pl_of(s1[i1])
        old_content = vold.pl_of(s0[i0])
        exp = expected(p, old_content, len0)
        return z3.ForAll([p, i0, i1], z3.Implies(z3.And(PW_TRIG(p, i0, i1), lo <= p, p < len1, loc1, loc0),
                                                 new_content == exp), patterns=[PW_TRIG(p, i0, i1)])
    return vnew.pointwise(vold, kind, expected, lo, src)


def cache_reset(v, mname):
    """the wrapper cache of `mname` is empty"""
    if isinstance(v, VaultView):
        i = z3.FreshInt("i")
        return z3.ForAll([i], v.cache(mname, i) == -1)
    return v.cache_empty(mname)


def exists_before(w):
    """the wrapper's node existed at function entry (symbolic side only)"""
    if isinstance(w, WrapView):
        return z3.And(0 <= w.node, w.node < w.N0)
    return True


def is_fresh(r, *pre):
    """r's node was created during the call: it is none of the nodes of the pre-state views"""
    if isinstance(r, WrapView):
        return r.node >= pre[0].N0
    for v in pre:
        if r.node == v.node:
            return False
        for kind in getattr(v, "kinds", ()):
            if r.node in v.snap[kind]["ids"]:
                return False
    return True


def fits(a_vault, mname, position, rep):
    """position + rep - 1 stays inside the run containing position"""
    if isinstance(a_vault, VaultView):
        m = a_vault.map(mname)
        i = z3.FreshInt("i")
        mi = m[i]
        return z3.ForAll([i], z3.Implies(
            z3.And(0 <= i, i < zint(m.n), position <= mi, z3.Implies(i > 0, m[i - 1] < position)),
            position + rep - 1 <= mi), patterns=[mi])
    kind = KIND_OF_MAP[mname]
    m = a_vault.snap[kind]["map"]
    for i, end in enumerate(m):
        if position <= end and (i == 0 or m[i - 1] < position):
            return position + rep - 1 <= end
    return True
