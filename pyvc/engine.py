"""pyvc.engine — verification-condition generator by symbolic execution of real Python ASTs.

One Engine verifies one function (one contract, one signature case).  Paths are
explored by deterministic re-execution with a decision prefix; values are Python
concretes (partial evaluation) or z3 terms; lists are heap objects holding list
terms (pyvc.lists); calls are resolved to builtin models, callee contracts, inlined
bodies or (concrete, whitelisted) native calls.  Everything else is Unsupported and
makes the function *undecided*.
"""
from __future__ import annotations

import ast
import builtins
import contextlib
import inspect
import itertools
import types

import z3

from . import lists as L
from .lists import LConc, LLeaf, LMap, LT, lift, simp_int, zint
from .spec import (
    REGISTRY,
    Args,
    Clause,
    Const,
    Contract,
    Inv,
    LView,
    Model,
    Opaque,
    S,
    SigT,
    TupleOf,
    _Bool,
    _Int,
    _IntList,
    _Str,
    _StrList,
)


class Unsupported(Exception):
    pass


class PathEnd(Exception):
    """This path stops here (infeasible or cut after an inductive step)."""


class PyRaise(Exception):
    def __init__(self, exc_type, msg=None, obj=None):
        self.exc_type = exc_type
        self.msg = msg
        self.obj = obj


class _Return(Exception):
    def __init__(self, value):
        self.value = value


class _Break(Exception):
    pass


class _Continue(Exception):
    pass


# ------------------------------------------------------------------ values
class ListV:
    """A Python list object (identity = identity of this wrapper)."""

    def __init__(self, term: LT):
        self.term = term

    def view(self):
        return LView(self.term, ref=self)


class TupleMarker:
    pass


class OpaqueV:
    """A value of real type ``pytype`` with abstract content ``sym`` (z3 Int id)."""

    def __init__(self, pytype, sym, fields=None):
        self.pytype = pytype
        self.sym = sym
        self.fields = fields or {}


class ObjV:
    """A model object: instance of a real class with symbolic fields."""

    def __init__(self, cls, fields=None, model=None):
        self.cls = cls
        self.fields = fields if fields is not None else {}
        self.model = model


class OptIntV:
    """An `int | None` value kept unsplit: is_none (z3 Bool) and val (z3 Int, meaningful when not None)."""

    def __init__(self, is_none, val):
        self.is_none = is_none
        self.val = val


class HookFn:
    """A modelled callable passed as a value (e.g. a compiled XPath given as argument)."""

    def __init__(self, fn, name="hook"):
        self.fn = fn
        self.name = name

    def __repr__(self):
        return f"<{self.name}>"


class SuperProxy:
    def __init__(self, obj, cls):
        self.obj = obj
        self.cls = cls

    def lookup(self, name):
        mro = self.obj.cls.__mro__
        start = mro.index(self.cls) + 1 if self.cls in mro else 0
        for k in mro[start:]:
            if name in k.__dict__:
                return k.__dict__[name]
        raise PyRaise(AttributeError, name)


class MethodHook:
    """A modelled method of an opaque value: fn(engine, obj, *args) -> value."""

    def __init__(self, fn):
        self.fn = fn


class Closure:
    def __init__(self, node, frame, module):
        self.node = node
        self.frame = frame
        self.module = module


class BoundM:
    def __init__(self, recv, name, func=None):
        self.recv = recv
        self.name = name
        self.func = func


class ExcV:
    """A caught exception object bound by ``except E as e``."""

    def __init__(self, exc_type, msg):
        self.exc_type = exc_type
        self.msg = msg


class Frame:
    def __init__(self, module_globals, parent=None, fn_name=""):
        self.env = {}
        self.globals = module_globals
        self.parent = parent
        self.nonlocals = set()
        self.fn_name = fn_name
        self.yields = None
        self.cls_name = parent.cls_name if parent is not None else None

    def lookup(self, name):
        f = self
        while f is not None:
            if name in f.env:
                return f.env[name]
            f = f.parent
        if name in self.globals:
            return self.globals[name]
        if hasattr(builtins, name):
            return getattr(builtins, name)
        raise PyRaise(NameError, name)

    def assign(self, name, value):
        if name in self.nonlocals:
            f = self.parent
            while f is not None:
                if name in f.env:
                    f.env[name] = value
                    return
                f = f.parent
        self.env[name] = value


class Obligation:
    def __init__(self, name, assumptions, goal, props, kind, info=None):
        self.name = name
        self.assumptions = list(assumptions)
        self.goal = goal
        self.props = set(props)
        self.kind = kind
        self.info = info or {}
        self.status = None
        self.time = 0.0
        self.backend = None
        self.model = None


def py_type_of(v):
    """The Python type a value has at run time (for isinstance)."""
    if isinstance(v, z3.ExprRef):
        if z3.is_bool(v):
            return bool
        if z3.is_int(v):
            return int
        if z3.is_string(v):
            return str
        if z3.is_real(v):
            return float
        raise Unsupported(f"sort {v.sort()}")
    if isinstance(v, ListV):
        return list
    if isinstance(v, OptIntV):
        raise Unsupported("type of an unsplit optional int")
    if isinstance(v, OpaqueV):
        return v.pytype
    if isinstance(v, ObjV):
        return v.cls
    if isinstance(v, ExcV):
        return v.exc_type
    if isinstance(v, (Closure, BoundM)):
        return types.FunctionType
    return type(v)


def is_symbolic(v):
    if isinstance(v, (tuple, list)):
        return any(is_symbolic(x) for x in v)
    return isinstance(v, (z3.ExprRef, ListV, OpaqueV, ObjV, Closure, BoundM, ExcV, OptIntV, SuperProxy, HookFn))


ASCII_LETTER = z3.Union(z3.Range("a", "z"), z3.Range("A", "Z"))
ASCII_DIGIT = z3.Range("0", "9")
ASCII_ANY = z3.Range(chr(0), chr(127))
ASCII_WS = z3.Union(*[z3.Re(c) for c in " \t\n\r\x0b\x0c\x1c\x1d\x1e\x1f"])

# uninterpreted character-class predicates beyond ASCII (on code points)
U_isalpha = z3.Function("U_isalpha", z3.IntSort(), z3.BoolSort())
U_isdigit = z3.Function("U_isdigit", z3.IntSort(), z3.BoolSort())
U_isspace = z3.Function("U_isspace", z3.IntSort(), z3.BoolSort())
U_pyint = z3.Function("U_pyint", z3.StringSort(), z3.IntSort())


def re_all(r):
    return z3.Star(r)


class Engine:
    MAX_PATHS = 4000

    def __init__(self, contract: Contract, sigcase: dict, prop_filter=None, unroll=None,
                 feas_timeout=3000, exclusions=None, case=None):
        self.exclusions = exclusions or {}
        self.case = case
        self.c = contract
        self.sigcase = sigcase  # param -> SigT (no OneOf)
        self.prop_filter = prop_filter
        self.unroll = unroll if unroll is not None else contract.unroll
        self.cuts = set()
        self.feas_timeout = feas_timeout
        self.fn_obj, self.fn_node, self.module, self.src_info = resolve_target(contract.target)
        self.obligations: dict[str, Obligation] = {}
        self.paths = []
        self.worklist = [[]]
        self.assumption_notes = set()
        self.feas_cache = {}
        self.case_label = ",".join(f"{k}:{v.name}" for k, v in sigcase.items()) or "-"
        if case is not None:
            self.case_label += f"|case:{case}"
        self._call_ordinals = None

    # -------------------------------------------------------------- driving
    def run(self):
        n = 0
        while self.worklist:
            prefix = self.worklist.pop()
            n += 1
            if n > self.MAX_PATHS:
                raise Unsupported("too many paths")
            t0 = __import__("time").time()
            self.run_path(prefix)
            if __import__("os").environ.get("PYVC_DEBUG"):
                print(f"  path {n} trace={' '.join(str(l)+('T' if d else 'F') for l, d in self.trace)} "
                      f"obl={len(self.obligations)} {__import__('time').time()-t0:.1f}s", flush=True)
        return self

    def fresh(self, base, sort="int"):
        self.counter += 1
        name = f"{base}!{self.counter}"
        if sort == "int":
            return z3.Int(name)
        if sort == "bool":
            return z3.Bool(name)
        if sort == "str":
            return z3.String(name)
        if sort == "real":
            return z3.Real(name)
        if sort == "arr":
            return z3.Array(name, z3.IntSort(), z3.IntSort())
        raise ValueError(sort)

    def make_arg(self, name, t: SigT):
        if isinstance(t, _Int):
            return z3.Int(name)
        if isinstance(t, _Bool):
            return z3.Bool(name)
        if isinstance(t, _Str):
            return z3.String(name)
        if isinstance(t, _IntList):
            n = z3.Int(name + ".len")
            self.pc.append(n >= 0)
            return ListV(LLeaf(z3.Array(name + ".arr", z3.IntSort(), z3.IntSort()), n, name))
        if isinstance(t, _StrList):
            n = z3.Int(name + ".len")
            self.pc.append(n >= 0)
            return ListV(LLeaf(z3.Array(name + ".arr", z3.IntSort(), z3.StringSort()), n, name))
        if isinstance(t, Const):
            return t.value
        if isinstance(t, TupleOf):
            return tuple(self.make_arg(f"{name}.{i}", e) for i, e in enumerate(t.elts))
        if isinstance(t, Opaque):
            fields = {}
            for fk, fv in t.fields.items():
                fields[fk] = self.make_arg(f"{name}.{fk}", fv) if isinstance(fv, SigT) else fv
            return OpaqueV(t.pytype, z3.Int(name + ".id"), fields)
        if isinstance(t, Model):
            return t.maker(self, name, **t.kw)
        raise Unsupported(f"sig type {t}")

    def views(self, vals: dict):
        out = {}
        for k, v in vals.items():
            out[k] = self.view(v)
        return Args(out)

    def view(self, v):
        if isinstance(v, ListV):
            return v.view()
        if isinstance(v, ObjV) and v.model is not None:
            return v.model.view(self, v)
        return v

    def run_path(self, prefix):
        self.decisions = list(prefix)
        self.dpos = 0
        self.pc = []
        self.trace = [] if __import__("os").environ.get("PYVC_DEBUG") else None
        self.suppress_stack = []
        L.ENTAILS = self.entails
        self.counter = 0
        self.loop_seen = {}
        self.ghost = {}
        self.heap = {}
        self.cur_call = 0
        frame = Frame(self.module.__dict__, fn_name=self.fn_node.name)
        frame.cls_name = _class_of_qualname(self.fn_obj.__qualname__)
        for cv, cell in zip(self.fn_obj.__code__.co_freevars, self.fn_obj.__closure__ or ()):
            try:
                frame.env[cv] = cell.cell_contents
            except ValueError:
                pass
        self.root_frame = frame
        args = {}
        for name, t in self.sigcase.items():
            args[name] = self.make_arg(name, t)
        # parameters not in sig: defaults
        sigparams = inspect.signature(self.fn_obj).parameters
        for pname, p in sigparams.items():
            if pname not in args:
                if p.default is not inspect._empty:
                    args[pname] = p.default
                elif p.kind == p.VAR_KEYWORD:
                    args[pname] = {}
                elif p.kind == p.VAR_POSITIONAL:
                    args[pname] = ()
                else:
                    raise Unsupported(f"parameter {pname} of {self.c.target} not in sig")
        self.args = args
        frame.env.update(args)
        self.pre = self.views(args)
        for u in self.c.uses:
            self.pc.append(u.formula)
        try:
            if self.c.requires is not None:
                r = self.c.requires(self.pre)
                if r is False:
                    return
                if isinstance(r, z3.ExprRef):
                    self.pc.append(r)
            if self.case is not None:
                cp = self.c.cases[self.case](self.pre)
                if cp is False:
                    return
                if isinstance(cp, z3.ExprRef):
                    self.pc.append(cp)
            outcome = None
            try:
                self.exec_block(self.fn_node.body, frame)
                if frame.yields is not None:
                    outcome = ("return", ListV(LConc(frame.yields)))
                else:
                    outcome = ("return", None)
            except _Return as r:
                if frame.yields is not None:
                    outcome = ("return", ListV(LConc(frame.yields)))
                else:
                    outcome = ("return", r.value)
            except PyRaise as e:
                outcome = ("raise", e)
            self.finish_path(outcome)
        except PathEnd:
            return

    # -------------------------------------------------------------- decisions
    def feasible(self, cond):
        """Is pc ∧ cond possibly satisfiable?  Stage 1: ground part only (decidable, fast);
        stage 2: with the quantified facts under a small deterministic resource limit.  `unknown`
        counts as feasible: pruning is an optimisation, never a verdict."""
        key = (tuple(x.get_id() for x in self.pc), cond.get_id())
        if key in self.feas_cache:
            return self.feas_cache[key]
        ground = [p for p in self.pc if not _has_quantifier(p)]
        s = z3.Solver()
        s.set("timeout", self.feas_timeout)
        s.set("rlimit", 2000000)
        s.set("smt.mbqi", False)
        for p in ground:
            s.add(p)
        s.add(cond)
        r = s.check()
        res = r != z3.unsat
        if res and len(ground) != len(self.pc):
            s2 = z3.Solver()
            s2.set("smt.mbqi", False)
            s2.set("rlimit", int(__import__("os").environ.get("PYVC_RLIMIT", "400000")))
            for p in self.pc:
                s2.add(p)
            s2.add(cond)
            res = s2.check() != z3.unsat
        self.feas_cache[key] = res
        return res

    def suppressed(self, exc_type):
        """True when raising exc_type right now would be swallowed by an enclosing
        `with suppress(...)` whose body is this single statement (so raising or not is unobservable)."""
        if not self.suppress_stack:
            return False
        excs, single = self.suppress_stack[-1]
        return single and any(issubclass(exc_type, t) for t in excs)

    def entails(self, cond):
        """pc implies cond (ground check only; False when unsure)"""
        cond = z3.simplify(cond)
        if z3.is_true(cond):
            return True
        key = ("ent", tuple(x.get_id() for x in self.pc), cond.get_id())
        if key in self.feas_cache:
            return self.feas_cache[key]
        s = z3.Solver()
        s.set("timeout", 1000)
        s.set("rlimit", 1000000)
        s.set("smt.mbqi", False)
        for p in self.pc:
            if not _has_quantifier(p):
                s.add(p)
        s.add(z3.Not(cond))
        res = s.check() == z3.unsat
        self.feas_cache[key] = res
        return res

    def decide(self, cond):
        if isinstance(cond, bool):
            return cond
        if not isinstance(cond, z3.ExprRef):
            raise Unsupported(f"decide on {cond!r}")
        cond = z3.simplify(cond)
        if z3.is_true(cond):
            return True
        if z3.is_false(cond):
            return False
        if self.dpos < len(self.decisions):
            d = self.decisions[self.dpos]
        else:
            t = self.feasible(cond)
            f = self.feasible(z3.Not(cond))
            if t and f:
                self.worklist.append(self.decisions[: self.dpos] + [False])
                d = True
            elif t:
                d = True
            elif f:
                d = False
            else:
                raise PathEnd()
            self.decisions.append(d)
        self.dpos += 1
        self.pc.append(cond if d else z3.Not(cond))
        if self.trace is not None:
            self.trace.append((getattr(self, "cur_line", 0), d))
        return d

    def choose(self, n):
        """Nondeterministic choice among n alternatives (contract result cases)."""
        if n == 1:
            return 0
        if self.dpos < len(self.decisions):
            d = self.decisions[self.dpos]
        else:
            for k in range(1, n):
                self.worklist.append(self.decisions[: self.dpos] + [k])
            d = 0
            self.decisions.append(d)
        self.dpos += 1
        return d

    def assume(self, cond):
        if cond is True or cond is None:
            return
        if cond is False:
            raise PathEnd()
        if isinstance(cond, z3.ExprRef):
            self.pc.append(cond)
        else:
            if not cond:
                raise PathEnd()

    def oblige(self, name, goal, props, kind, info=None):
        """Record a proof obligation under the current path condition, then assume it."""
        if self.prop_filter is not None and props and not (set(props) & self.prop_filter):
            # not asked for: still assume (it is someone else's obligation)
            self.assume_goal(goal)
            return
        if goal is True:
            goal = z3.BoolVal(True)
        elif goal is False:
            goal = z3.BoolVal(False)
        elif not isinstance(goal, z3.ExprRef):
            goal = z3.BoolVal(bool(goal))
        parts = name.split("/")
        excl = self.exclusions.get(parts[1]) if len(parts) > 1 else None
        if excl:
            # known finding: the clause is proved outside the listed input class only
            conds = [self.c.cases[cn](self.pre) for cn in excl]
            goal = S.Implies(S.Not(S.Or(*conds)), goal)
            if goal is True:
                goal = z3.BoolVal(True)
        if z3.is_and(goal) and goal.num_args() > 1 and kind != "canary":
            # one obligation per conjunct (smaller queries, sharper names)
            for ci, g in enumerate(goal.children()):
                self._oblige1(f"{name}#{ci}", g, props, kind, info)
            return
        self._oblige1(name, goal, props, kind, info)

    def _oblige1(self, name, goal, props, kind, info):
        base = name
        k = 0
        while name in self.obligations:
            k += 1
            name = f"{base}~{k}"
        self.obligations[name] = Obligation(name, self.pc, goal, props, kind, info)
        self.assume_goal(goal)

    def assume_goal(self, goal):
        if isinstance(goal, z3.ExprRef):
            if z3.is_false(z3.simplify(goal)):
                raise PathEnd()
            self.pc.append(goal)
        elif goal is False:
            raise PathEnd()

    def path_id(self):
        return "".join(str(int(d)) for d in self.decisions[: self.dpos]) or "0"

    # -------------------------------------------------------------- finishing
    def finish_path(self, outcome):
        c = self.c
        pid = self.path_id()
        base = f"{c.target}[{self.case_label}]"
        kind, val = outcome
        self.paths.append((list(self.pc), outcome, pid))
        post = self.views(self.args)
        # ghost access to the function's locals at exit (for clauses about objects it created)
        post.locals_ = self.loop_views(self.root_frame)
        post.ghost_ = self.ghost
        if kind == "raise":
            e = val
            allowed = None
            for et, cond in c.raises.items():
                if issubclass(e.exc_type, et):
                    allowed = cond
                    break
            if allowed is None:
                goal = False
            else:
                goal = allowed(self.pre)
            self.oblige(
                f"{base}/raises:{e.exc_type.__name__}/path:{pid}",
                goal,
                c.raises_props if c.raises_props is not None else c.props,
                "raises",
                {"exc": e.exc_type.__name__, "msg": str(e.msg)[:80]},
            )
            return
        # normal return: declared exceptions must not have been due
        if c.raises_exact:
            for et, cond in c.raises.items():
                g = cond(self.pre)
                self.oblige(
                    f"{base}/must-raise:{et.__name__}/path:{pid}", S.Not(g),
                    c.raises_props if c.raises_props is not None else c.props, "must-raise"
                )
        r = self.view(val)
        self.result = val
        for cl in c.ensures:
            if cl.when is not None:
                w = cl.when(self.pre)
                if w is False:
                    continue
                if isinstance(w, z3.ExprRef):
                    saved = list(self.pc)
                    if not self.feasible(w):
                        continue
                    self.pc.append(w)
                    try:
                        goal = self.eval_clause(cl, r, post)
                        self.oblige(f"{base}/ensures:{cl.label}/path:{pid}", goal, cl.props, "ensures")
                    except PathEnd:
                        pass
                    self.pc = saved
                    continue
            goal = self.eval_clause(cl, r, post)
            saved = list(self.pc)
            try:
                self.oblige(f"{base}/ensures:{cl.label}/path:{pid}", goal, cl.props, "ensures")
            except PathEnd:
                pass
            self.pc = saved

    def eval_clause(self, cl, r, post):
        try:
            return cl.fn(self.pre, r, post)
        except (TypeError, AttributeError, z3.Z3Exception) as e:
            # the clause does not apply to this result shape: it is violated on this path
            return z3.BoolVal(False) if not isinstance(e, z3.Z3Exception) else (_ for _ in ()).throw(
                Unsupported(f"clause {cl.label}: {e}")
            )

    # -------------------------------------------------------------- statements
    def exec_block(self, stmts, fr):
        for s in stmts:
            self.exec_stmt(s, fr)

    def exec_stmt(self, s, fr):
        self.cur_line = getattr(s, "lineno", 0)
        m = getattr(self, "st_" + type(s).__name__, None)
        if m is None:
            raise Unsupported(f"statement {type(s).__name__} at line {getattr(s, 'lineno', '?')}")
        return m(s, fr)

    def st_Expr(self, s, fr):
        if isinstance(s.value, ast.Constant):
            return
        self.ev(s.value, fr)

    def st_Pass(self, s, fr):
        pass

    def st_Return(self, s, fr):
        raise _Return(self.ev(s.value, fr) if s.value is not None else None)

    def st_Break(self, s, fr):
        raise _Break()

    def st_Continue(self, s, fr):
        raise _Continue()

    def st_Assign(self, s, fr):
        v = self.ev(s.value, fr)
        for t in s.targets:
            self.assign(t, v, fr)

    def st_AnnAssign(self, s, fr):
        if s.value is not None:
            self.assign(s.target, self.ev(s.value, fr), fr)

    def st_AugAssign(self, s, fr):
        load = ast.copy_location(_to_load(s.target), s.target)
        cur = self.ev(load, fr)
        rhs = self.ev(s.value, fr)
        if isinstance(cur, ListV) and isinstance(s.op, ast.Add):
            # in-place extend
            cur.term = L.cat_term(cur.term, self.as_list_term(rhs))
            return
        self.assign(s.target, self.binop(s.op, cur, rhs), fr)

    def st_Nonlocal(self, s, fr):
        fr.nonlocals.update(s.names)

    def st_Global(self, s, fr):
        raise Unsupported("global statement")

    def st_FunctionDef(self, s, fr):
        fr.assign(s.name, Closure(s, fr, None))

    def st_Raise(self, s, fr):
        if s.exc is None:
            cur = getattr(self, "_cur_exc", None)
            if cur is None:
                raise Unsupported("bare raise outside handler")
            raise cur
        e = s.exc
        if isinstance(e, ast.Call):
            et = self.ev(e.func, fr)
            msg = None
            if e.args:
                try:
                    msg = self.ev(e.args[0], fr)
                except (Unsupported, PyRaise):
                    msg = "<msg>"
        else:
            et = self.ev(e, fr)
            msg = None
            if isinstance(et, ExcV):
                raise PyRaise(et.exc_type, et.msg)
        if not (isinstance(et, type) and issubclass(et, BaseException)):
            raise Unsupported("raise of non-exception")
        raise PyRaise(et, msg)

    def st_Assert(self, s, fr):
        if not self.decide(self.truth(self.ev(s.test, fr))):
            raise PyRaise(AssertionError, None)

    def st_If(self, s, fr):
        if self.decide(self.truth(self.ev(s.test, fr))):
            self.exec_block(s.body, fr)
        else:
            self.exec_block(s.orelse, fr)

    def st_Try(self, s, fr):
        try:
            try:
                self.exec_block(s.body, fr)
            except PyRaise as e:
                for h in s.handlers:
                    if h.type is None:
                        match = True
                    else:
                        ht = self.ev(h.type, fr)
                        hts = ht if isinstance(ht, tuple) else (ht,)
                        match = any(issubclass(e.exc_type, t) for t in hts)
                    if match:
                        if h.name:
                            fr.assign(h.name, ExcV(e.exc_type, e.msg))
                        saved = getattr(self, "_cur_exc", None)
                        self._cur_exc = e
                        try:
                            self.exec_block(h.body, fr)
                        finally:
                            self._cur_exc = saved
                        break
                else:
                    raise
            else:
                self.exec_block(s.orelse, fr)
        finally:
            if s.finalbody:
                self.exec_block(s.finalbody, fr)

    def st_With(self, s, fr):
        if len(s.items) != 1:
            raise Unsupported("with: several items")
        cm = self.ev(s.items[0].context_expr, fr)
        if isinstance(cm, contextlib.suppress):
            self.suppress_stack.append((cm._exceptions, len(s.body) == 1))
            try:
                self.exec_block(s.body, fr)
            except PyRaise as e:
                if not any(issubclass(e.exc_type, t) for t in cm._exceptions):
                    raise
            finally:
                self.suppress_stack.pop()
            return
        raise Unsupported(f"with {cm!r}")

    def st_Delete(self, s, fr):
        for t in s.targets:
            if isinstance(t, ast.Subscript):
                obj = self.ev(t.value, fr)
                if isinstance(obj, ListV) and isinstance(t.slice, ast.Slice):
                    lo = self.ev(t.slice.lower, fr) if t.slice.lower else None
                    hi = self.ev(t.slice.upper, fr) if t.slice.upper else None
                    a = L.slice_term(obj.term, None, lo if lo is not None else 0)
                    b = L.slice_term(obj.term, hi, None) if hi is not None else LConc([])
                    obj.term = L.cat_term(a, b)
                    continue
                if isinstance(obj, dict):
                    k = self.ev(t.slice, fr)
                    if is_symbolic(k):
                        raise Unsupported("del dict[symbolic]")
                    if k not in obj:
                        raise PyRaise(KeyError, k)
                    del obj[k]
                    continue
                if isinstance(obj, ObjV) and obj.model is not None:
                    obj.model.delitem(self, obj, self.ev(t.slice, fr))
                    continue
            raise Unsupported("del target")

    # loops -----------------------------------------------------------------
    def loop_ordinal(self, node):
        if not hasattr(self, "_loop_ids"):
            ids = {}
            k = 0
            for n in ast.walk(self.fn_node):
                if isinstance(n, (ast.For, ast.While)):
                    ids[id(n)] = (n.lineno, n.col_offset)
            for i, key in enumerate(sorted(ids, key=lambda x: ids[x])):
                ids[key] = i
            self._loop_ids = ids
        return self._loop_ids.get(id(node))

    def st_While(self, s, fr):
        ordn = self.loop_ordinal(s)
        inv = self.c.loops.get(ordn) if fr is self.root_frame else None
        if inv is None:
            # concrete / bounded unrolling
            n = 0
            while True:
                if not self.decide(self.truth(self.ev(s.test, fr))):
                    self.exec_block(s.orelse, fr)
                    return
                n += 1
                if self.unroll is not None and n > self.unroll:
                    self.cuts.add(f"while-loop #{ordn} cut after {self.unroll} iterations")
                    raise PathEnd()
                if n > 2000:
                    raise Unsupported(f"while loop #{ordn} needs an invariant")
                try:
                    self.exec_block(s.body, fr)
                except _Break:
                    return
                except _Continue:
                    continue
        self.inv_loop(s, fr, inv, ordn, None)

    def st_For(self, s, fr):
        it = self.ev(s.iter, fr)
        ordn = self.loop_ordinal(s)
        inv = self.c.loops.get(ordn) if fr is self.root_frame else None
        seq = self.iter_values(it)
        if seq is not None:
            for v in seq:
                self.assign(s.target, v, fr)
                try:
                    self.exec_block(s.body, fr)
                except _Break:
                    return
                except _Continue:
                    continue
            self.exec_block(s.orelse, fr)
            return
        # symbolic-length iteration
        if inv is None:
            if self.unroll is not None:
                k = 0
                n = self.seq_len(it)
                while True:
                    if not self.decide(zint(k) < zint(n)):
                        return
                    if k >= self.unroll:
                        self.cuts.add(f"for-loop #{ordn} cut after {self.unroll} iterations")
                        raise PathEnd()
                    self.assign(s.target, self.seq_item(it, k), fr)
                    k += 1
                    try:
                        self.exec_block(s.body, fr)
                    except _Break:
                        return
                    except _Continue:
                        continue
            raise Unsupported(f"for loop #{ordn} over symbolic sequence needs an invariant")
        self.inv_loop(s, fr, inv, ordn, it)

    def iter_values(self, it):
        """Concrete-length iteration: list of element values, or None when symbolic."""
        if isinstance(it, (tuple, list, range, dict, set, frozenset)):
            return list(it)
        if isinstance(it, str):
            return list(it)
        if isinstance(it, (types.GeneratorType, enumerate, reversed, zip, map, itertools.chain)):
            return list(it)
        if isinstance(it, ListV):
            n = it.term.conc_len()
            if n is not None:
                return [it.term.sel(i) for i in range(n)]
            return None
        if isinstance(it, z3.ExprRef) and z3.is_string(it):
            sv = z3.simplify(it)
            if z3.is_string_value(sv):
                return list(sv.as_string())
            return None
        if isinstance(it, SymRange):
            return None
        if isinstance(it, ObjV) and it.model is not None:
            return it.model.iter_values(self, it)
        raise Unsupported(f"iteration over {type(it).__name__}")

    def seq_len(self, it):
        if isinstance(it, ListV):
            return it.term.length()
        if isinstance(it, z3.ExprRef) and z3.is_string(it):
            return z3.Length(it)
        if isinstance(it, SymRange):
            return it.length()
        raise Unsupported("seq_len")

    def seq_item(self, it, k):
        if isinstance(it, ListV):
            return it.term.sel(k)
        if isinstance(it, z3.ExprRef) and z3.is_string(it):
            return z3.SubString(it, zint(k), z3.IntVal(1))
        if isinstance(it, SymRange):
            return simp_int(zint(it.lo) + zint(k))
        raise Unsupported("seq_item")

    def assigned_names(self, stmts):
        names = []
        for st in stmts:
            for n in ast.walk(st):
                if isinstance(n, ast.Name) and isinstance(n.ctx, ast.Store):
                    if n.id not in names:
                        names.append(n.id)
                elif isinstance(n, ast.Call) and isinstance(n.func, ast.Attribute):
                    if n.func.attr in ("append", "extend", "insert", "pop", "remove", "clear", "sort") \
                            and isinstance(n.func.value, ast.Name):
                        if n.func.value.id not in names:
                            names.append(n.func.value.id)
        return names

    def havoc_like(self, name, cur, types_):
        t = types_.get(name)
        if t is not None:
            return self.make_fresh_of(name, t)
        if isinstance(cur, bool) or (isinstance(cur, z3.ExprRef) and z3.is_bool(cur)):
            return self.fresh(name, "bool")
        if isinstance(cur, int) or (isinstance(cur, z3.ExprRef) and z3.is_int(cur)):
            return self.fresh(name, "int")
        if isinstance(cur, str) or (isinstance(cur, z3.ExprRef) and z3.is_string(cur)):
            return self.fresh(name, "str")
        if isinstance(cur, ListV):
            n = self.fresh(name + ".len", "int")
            self.pc.append(n >= 0)
            cur.term = LLeaf(self.fresh(name + ".arr", "arr"), n, name)
            return cur
        if isinstance(cur, ObjV) and cur.model is not None and hasattr(cur.model, "havoc"):
            cur.model.havoc(self, cur, name)
            return cur
        raise Unsupported(f"cannot havoc {name} ({type(cur).__name__}); give Inv(types=...)")

    def make_fresh_of(self, name, t):
        if isinstance(t, _Int):
            return self.fresh(name, "int")
        if isinstance(t, _Bool):
            return self.fresh(name, "bool")
        if isinstance(t, _Str):
            return self.fresh(name, "str")
        if isinstance(t, _IntList):
            n = self.fresh(name + ".len", "int")
            self.pc.append(n >= 0)
            return ListV(LLeaf(self.fresh(name + ".arr", "arr"), n, name))
        if isinstance(t, Const):
            return t.value
        if isinstance(t, TupleOf):
            return tuple(self.make_fresh_of(f"{name}.{i}", e) for i, e in enumerate(t.elts))
        raise Unsupported(f"fresh of {t}")

    def loop_views(self, fr, extra=None):
        d = {}
        for k, v in fr.env.items():
            d[k] = self.view(v)
        if extra:
            d.update(extra)
        return Args(d)

    def inv_loop(self, s, fr, inv: Inv, ordn, it):
        c = self.c
        base = f"{c.target}[{self.case_label}]/loop:{ordn}"
        props = inv.props or c.props
        is_for = isinstance(s, ast.For)
        if is_for and fr.env.get("__k%d" % ordn) is not None:
            raise Unsupported("nested re-entry of an invariant loop")
        kname = "k_"
        extra = {}
        if is_for:
            extra = {kname: 0, "it_": self.view(it)}
        # 1. establishment
        g = inv.fn(self.pre, self.loop_views(fr, extra))
        self.oblige(f"{base}/inv-init/path:{self.path_id()}", g, props, "inv-init")
        # 2. havoc
        names = self.assigned_names(s.body) + ([] if not is_for else self.assigned_names([ast.Expr(s.target)]))
        if is_for:
            for n in ast.walk(s.target):
                if isinstance(n, ast.Name) and n.id not in names:
                    names.append(n.id)
        if inv.modifies is not None:
            names = list(inv.modifies)
        for nme in names:
            if nme in fr.env or nme in inv.types:
                fr.env[nme] = self.havoc_like(nme, fr.env.get(nme), inv.types)
        k = None
        if is_for:
            k = self.fresh("k", "int")
            n = self.seq_len(it)
            self.pc.append(z3.And(k >= 0, k <= zint(n)))
            extra = {kname: k, "it_": self.view(it)}
        hv = self.loop_views(fr, extra)
        self.assume(inv.fn(self.pre, hv))
        if inv.hints is not None:
            for lem, largs in inv.hints(self.pre, hv):
                q = getattr(lem, 'statement', None)
                if q is None:
                    q = lem.formula
                assert z3.is_quantifier(q) and q.is_forall() and q.num_vars() == len(largs)
                self.pc.append(z3.substitute_vars(q.body(), *[lift(x) for x in reversed(largs)]))
        dec0 = inv.decreases(self.pre, hv) if inv.decreases else None
        # 3. branch on the loop condition
        if is_for:
            cont = self.decide(k < zint(self.seq_len(it)))
        else:
            cont = self.decide(self.truth(self.ev(s.test, fr)))
        if not cont:
            self.exec_block(s.orelse, fr)
            return
        if is_for:
            self.assign(s.target, self.seq_item(it, k), fr)
            fr.env["k_%d" % ordn] = k          # ghost: index of the item being processed
            extra = {kname: simp_int(k + 1), "it_": self.view(it)}
        try:
            self.exec_block(s.body, fr)
        except _Break:
            return
        except _Continue:
            pass
        g = inv.fn(self.pre, self.loop_views(fr, extra))
        pid = self.path_id()
        saved = list(self.pc)
        try:
            self.oblige(f"{base}/inv-step/path:{pid}", g, props, "inv-step")
        except PathEnd:
            pass
        self.pc = saved
        if dec0 is not None:
            dec1 = inv.decreases(self.pre, self.loop_views(fr, extra))
            try:
                self.oblige(
                    f"{base}/decreases/path:{pid}",
                    z3.And(zint(dec0) >= 0, zint(dec1) < zint(dec0)),
                    props,
                    "decreases",
                )
            except PathEnd:
                pass
        raise PathEnd()

    # -------------------------------------------------------------- assignment
    def assign(self, t, v, fr):
        if isinstance(t, ast.Name):
            fr.assign(t.id, v)
        elif isinstance(t, (ast.Tuple, ast.List)):
            vals = self.unpack(v, len(t.elts))
            for e, x in zip(t.elts, vals):
                self.assign(e, x, fr)
        elif isinstance(t, ast.Subscript):
            obj = self.ev(t.value, fr)
            if isinstance(t.slice, ast.Slice):
                raise Unsupported("slice assignment")
            idx = self.ev(t.slice, fr)
            self.setitem(obj, idx, v)
        elif isinstance(t, ast.Attribute):
            obj = self.ev(t.value, fr)
            self.setattr(obj, self.mangle(t.attr, fr), v)
        else:
            raise Unsupported(f"assign target {type(t).__name__}")

    def unpack(self, v, n):
        if isinstance(v, (tuple, list)):
            if len(v) != n:
                raise PyRaise(ValueError, "unpack")
            return list(v)
        if isinstance(v, ListV):
            ln = v.term.conc_len()
            if ln is None:
                if not self.decide(zint(v.term.length()) == n):
                    raise PyRaise(ValueError, "unpack")
            elif ln != n:
                raise PyRaise(ValueError, "unpack")
            return [v.term.sel(i) for i in range(n)]
        raise Unsupported(f"unpack {type(v).__name__}")

    def setitem(self, obj, idx, v):
        if isinstance(obj, dict):
            if is_symbolic(idx):
                raise Unsupported("dict[symbolic] = ")
            obj[idx] = v
            return
        if isinstance(obj, ListV):
            i = self.norm_index(obj.term.length(), idx)
            t = obj.term
            if isinstance(t, LConc) and L.is_conc_int(i):
                t.items[i] = v
                obj.term = LConc(t.items)
                return
            obj.term = L.cat_term(
                L.cat_term(L.slice_term(t, None, i), LConc([v])), L.slice_term(t, simp_int(zint(i) + 1), None)
            )
            return
        if isinstance(obj, ObjV) and obj.model is not None:
            return obj.model.setitem(self, obj, idx, v)
        raise Unsupported(f"setitem on {type(obj).__name__}")

    def setattr(self, obj, name, v):
        if isinstance(obj, ObjV):
            if obj.model is not None and obj.model.setattr(self, obj, name, v):
                return
            static = inspect.getattr_static(obj.cls, name, None)
            if isinstance(static, property):
                if static.fset is None:
                    raise PyRaise(AttributeError, name)
                return self.call(static.fset, [obj, v], {}, key=target_key(static.fset) + ".fset")
            obj.fields[name] = v
            return
        raise Unsupported(f"setattr on {type(obj).__name__}")

    # -------------------------------------------------------------- expressions
    def ev(self, e, fr):
        if e is None:
            return None
        m = getattr(self, "ex_" + type(e).__name__, None)
        if m is None:
            raise Unsupported(f"expression {type(e).__name__} at line {getattr(e, 'lineno', '?')}")
        return m(e, fr)

    def ex_Constant(self, e, fr):
        return e.value

    def ex_Name(self, e, fr):
        return fr.lookup(e.id)

    def ex_NamedExpr(self, e, fr):
        v = self.ev(e.value, fr)
        self.assign(e.target, v, fr)
        return v

    def ex_Tuple(self, e, fr):
        return tuple(self.ev(x, fr) for x in e.elts)

    def ex_List(self, e, fr):
        return ListV(LConc([self.ev(x, fr) for x in e.elts]))

    def ex_Dict(self, e, fr):
        d = {}
        for k, v in zip(e.keys, e.values):
            kk = self.ev(k, fr)
            if is_symbolic(kk):
                raise Unsupported("dict display with symbolic key")
            d[kk] = self.ev(v, fr)
        return d

    def ex_Set(self, e, fr):
        vals = [self.ev(x, fr) for x in e.elts]
        if any(is_symbolic(v) for v in vals):
            raise Unsupported("set display with symbolic element")
        return set(vals)

    def ex_JoinedStr(self, e, fr):
        parts = []
        for v in e.values:
            if isinstance(v, ast.Constant):
                parts.append(v.value)
            else:
                parts.append(self.format_value(v, fr))
        return self.str_concat(parts)

    def format_value(self, v, fr):
        val = self.ev(v.value, fr)
        spec = None
        if v.format_spec is not None:
            spec = self.ev(v.format_spec, fr)
            if is_symbolic(spec):
                raise Unsupported("symbolic format spec")
        if v.conversion == ord("r"):
            if isinstance(val, str):
                return repr(val)
            if isinstance(val, z3.ExprRef) and z3.is_string(val):
                # repr of a str: abstract (used only in messages)
                return self.fresh("repr", "str")
            return self.to_str(val, what="repr")
        if spec:
            return self.format_spec(val, spec)
        return self.to_str(val)

    def format_spec(self, val, spec):
        if not is_symbolic(val):
            return format(val, spec)
        if spec in ("02X", "02x", "02d") and isinstance(val, z3.ExprRef) and z3.is_int(val):
            if spec == "02d":
                return self.pad2(val)
            return hex2_term(val, upper=(spec == "02X"))
        raise Unsupported(f"format spec {spec!r} on symbolic value")

    def pad2(self, val):
        """'%02d' % val for an int."""
        s = z3.IntToStr(val)
        neg = z3.Concat(z3.StringVal("-"), z3.IntToStr(-val))
        return z3.If(
            val < 0,
            z3.If(val > -10, z3.Concat(z3.StringVal("-"), z3.IntToStr(-val)), neg),
            z3.If(val < 10, z3.Concat(z3.StringVal("0"), s), s),
        )

    def str_concat(self, parts):
        if all(isinstance(p, str) for p in parts):
            return "".join(parts)
        out = []
        for p in parts:
            if isinstance(p, str):
                if p == "":
                    continue
                if out and isinstance(out[-1], str):
                    out[-1] += p
                    continue
            out.append(p)
        zs = [lift(p) for p in out]
        return z3.Concat(*zs) if len(zs) > 1 else zs[0]

    def to_str(self, v, what="str"):
        if isinstance(v, str):
            return v if what == "str" else repr(v)
        if isinstance(v, z3.ExprRef):
            if z3.is_string(v):
                return v
            if z3.is_int(v):
                return z3.If(v < 0, z3.Concat(z3.StringVal("-"), z3.IntToStr(-v)), z3.IntToStr(v))
            if z3.is_bool(v):
                return z3.If(v, z3.StringVal("True"), z3.StringVal("False"))
        if not is_symbolic(v):
            return str(v) if what == "str" else repr(v)
        if isinstance(v, OpaqueV):
            f = v.fields.get("__str__")
            if f is not None:
                return f(self, v)
            return self.fresh("str_of_" + v.pytype.__name__, "str")
        if isinstance(v, ObjV) and v.model is not None:
            return v.model.to_str(self, v)
        return self.fresh("str", "str")

    def force(self, v):
        """Split an unsplit optional int into None / int (forks)."""
        if isinstance(v, OptIntV):
            if self.decide(v.is_none):
                return None
            return v.val
        return v

    def ex_BoolOp(self, e, fr):
        # python semantics: returns the deciding operand
        is_and = isinstance(e.op, ast.And)
        if not is_and and len(e.values) == 2 and isinstance(e.values[1], ast.Constant) \
                and isinstance(e.values[1].value, int) and not isinstance(e.values[1].value, bool):
            # `x or <int constant>` on ints / optional ints: no fork, an if-then-else term
            v = self.ev(e.values[0], fr)
            c = e.values[1].value
            if isinstance(v, OptIntV):
                return simp_int(z3.If(z3.Or(v.is_none, v.val == 0), z3.IntVal(c), v.val))
            if isinstance(v, z3.ExprRef) and z3.is_int(v):
                return simp_int(z3.If(v == 0, z3.IntVal(c), v))
            t = self.truth(v)
            return v if self.decide(t) else c
        v = None
        for i, sub in enumerate(e.values):
            v = self.ev(sub, fr)
            if i == len(e.values) - 1:
                return v
            t = self.truth(v)
            d = self.decide(t)
            if is_and and not d:
                return v
            if (not is_and) and d:
                return v
        return v

    def ex_UnaryOp(self, e, fr):
        v = self.ev(e.operand, fr)
        if isinstance(e.op, ast.Not):
            t = self.truth(v)
            return (not t) if isinstance(t, bool) else z3.Not(t)
        if isinstance(e.op, ast.USub):
            if isinstance(v, z3.ExprRef):
                if z3.is_bool(v):
                    v = z3.If(v, 1, 0)
                return -v
            return -v
        if isinstance(e.op, ast.UAdd):
            return v
        raise Unsupported("unary op")

    def ex_IfExp(self, e, fr):
        if self.decide(self.truth(self.ev(e.test, fr))):
            return self.ev(e.body, fr)
        return self.ev(e.orelse, fr)

    def ex_BinOp(self, e, fr):
        a = self.ev(e.left, fr)
        b = self.ev(e.right, fr)
        return self.binop(e.op, a, b)

    def num(self, v):
        if isinstance(v, bool):
            return int(v)
        if isinstance(v, z3.ExprRef) and z3.is_bool(v):
            return z3.If(v, z3.IntVal(1), z3.IntVal(0))
        return v

    def binop(self, op, a, b):
        a, b = self.force(a), self.force(b)
        if not is_symbolic(a) and not is_symbolic(b):
            try:
                return _native_binop(op, a, b)
            except ZeroDivisionError:
                raise PyRaise(ZeroDivisionError, None)
            except TypeError as ex:
                raise PyRaise(TypeError, str(ex))
        ta, tb = py_type_of(a), py_type_of(b)
        if isinstance(op, ast.Add):
            if ta is str and tb is str:
                return self.str_concat([a, b])
            if ta is list and tb is list:
                return ListV(L.cat_term(self.as_list_term(a), self.as_list_term(b)))
            if ta is tuple and tb is tuple:
                return tuple(a) + tuple(b)
        if isinstance(op, ast.Mod) and ta is str:
            return self.str_percent(a, b)
        if isinstance(op, ast.Mult) and (ta is str or tb is str):
            s, n = (a, b) if ta is str else (b, a)
            return self.str_repeat(s, n)
        if issubclass(ta, int) and issubclass(tb, int):
            a, b = zint(self.num(a)), zint(self.num(b))
            if isinstance(op, ast.Add):
                return simp_int(a + b)
            if isinstance(op, ast.Sub):
                return simp_int(a - b)
            if isinstance(op, ast.Mult):
                return simp_int(a * b)
            if isinstance(op, (ast.FloorDiv, ast.Mod)):
                if self.decide(b == 0):
                    raise PyRaise(ZeroDivisionError, None)
                q = py_floordiv(a, b)
                if isinstance(op, ast.FloorDiv):
                    return simp_int(q)
                return simp_int(a - b * q)
            if isinstance(op, ast.Div):
                if self.decide(b == 0):
                    raise PyRaise(ZeroDivisionError, None)
                return self.float_div(a, b)
            if isinstance(op, ast.Pow):
                bb = simp_int(b)
                if L.is_conc_int(bb) and 0 <= bb <= 8:
                    r = z3.IntVal(1)
                    for _ in range(bb):
                        r = r * a
                    return simp_int(r)
        raise Unsupported(f"binop {type(op).__name__} on {ta.__name__},{tb.__name__}")

    def float_div(self, a, b):
        """a / b on ints: a float.  Modelled as a real q with relative error <= 2**-53 that is exact
        when the quotient is an integer below 2**53 (IEEE-754 binary64 round-to-nearest of the
        exact quotient; CPython's long true division is correctly rounded)."""
        self.assumption_notes.add(
            "int/int true division: result q with |q - a/b| <= |a/b|*2**-53 and q = a/b when b divides a "
            "(correct rounding of CPython long division, binary64; overflow beyond 2**1023 not modelled)")
        q = self.fresh("fdiv", "real")
        exact = z3.ToReal(a) / z3.ToReal(b)
        eps = z3.RealVal(1) / z3.RealVal(2 ** 53)
        mag = z3.If(exact >= 0, exact, -exact)
        self.pc.append(z3.And(q - exact <= mag * eps, exact - q <= mag * eps))
        self.pc.append(z3.Implies(a % b == 0, q == exact))
        return q

    def str_repeat(self, s, n):
        n = simp_int(self.num(n))
        if L.is_conc_int(n):
            if n <= 0:
                return ""
            return self.str_concat([s] * n)
        if isinstance(s, str) and len(s) == 1:
            # c * n : a string of length max(n,0) whose characters are all c
            from .builtins_model import all_chars
            r = self.fresh("rep", "str")
            code = ord(s)
            self.pc.append(all_chars(r, lambda c: c == code))     # character-wise: every char is s
            self.pc.append(z3.Length(r) == z3.If(n > 0, n, 0))
            return r
        raise Unsupported("str * symbolic int")

    def str_percent(self, fmt, args):
        if is_symbolic(fmt):
            raise Unsupported("symbolic % format")
        if not isinstance(args, tuple):
            args = (args,)
        import re as _re

        toks = _re.split(r"(%0?\d*[dsrf]|%%)", fmt)
        out = []
        ai = 0
        for t in toks:
            if t == "%%":
                out.append("%")
            elif t.startswith("%") and len(t) > 1:
                a = args[ai]
                ai += 1
                if not is_symbolic(a):
                    out.append(t % (a,))
                elif t == "%s":
                    out.append(self.to_str(a))
                elif t in ("%d", "%02d"):
                    if isinstance(a, z3.ExprRef) and z3.is_real(a):
                        # '%d' % float truncates toward zero
                        a = real_trunc(a)
                    if not (isinstance(a, z3.ExprRef) and z3.is_int(a)):
                        raise Unsupported("%d of non-int")
                    out.append(self.to_str(a) if t == "%d" else self.pad2(a))
                else:
                    raise Unsupported(f"format {t}")
            else:
                out.append(t)
        return self.str_concat(out)

    def ex_Compare(self, e, fr):
        left = self.ev(e.left, fr)
        res = None
        for op, rn in zip(e.ops, e.comparators):
            right = self.ev(rn, fr)
            c = self.compare(op, left, right)
            if res is None:
                res = c
            else:
                res = S.And(res, c)
            if res is False:
                return False
            if len(e.ops) > 1 and not isinstance(res, bool):
                # chained comparison short-circuits; operands here are side-effect free
                pass
            left = right
        return res

    def compare(self, op, a, b):
        if isinstance(op, (ast.Is, ast.IsNot)):
            r = self.is_same(a, b)
            return r if isinstance(op, ast.Is) else S.Not(r)
        a, b = self.force(a), self.force(b)
        if isinstance(op, (ast.In, ast.NotIn)):
            r = self.contains(b, a)
            return r if isinstance(op, ast.In) else S.Not(r)
        if not is_symbolic(a) and not is_symbolic(b):
            try:
                return _native_cmp(op, a, b)
            except TypeError as ex:
                raise PyRaise(TypeError, str(ex))
        ta, tb = py_type_of(a), py_type_of(b)
        if isinstance(op, (ast.Eq, ast.NotEq)):
            r = self.equals(a, b, ta, tb)
            return r if isinstance(op, ast.Eq) else S.Not(r)
        if issubclass(ta, (int, float)) and issubclass(tb, (int, float)):
            a, b = self.num(a), self.num(b)
            a = a if isinstance(a, z3.ExprRef) else (z3.IntVal(a) if isinstance(a, int) else z3.RealVal(a))
            b = b if isinstance(b, z3.ExprRef) else (z3.IntVal(b) if isinstance(b, int) else z3.RealVal(b))
            if isinstance(op, ast.Lt):
                return a < b
            if isinstance(op, ast.LtE):
                return a <= b
            if isinstance(op, ast.Gt):
                return a > b
            if isinstance(op, ast.GtE):
                return a >= b
        if ta is str and tb is str:
            a, b = lift(a), lift(b)
            if isinstance(op, ast.Lt):
                return z3.StrLT(a, b) if hasattr(z3, "StrLT") else a < b
            if isinstance(op, ast.LtE):
                return a <= b
            if isinstance(op, ast.Gt):
                return b < a
            if isinstance(op, ast.GtE):
                return b <= a
        if ta is type(None) or tb is type(None):
            raise PyRaise(TypeError, "ordering with None")
        raise Unsupported(f"compare {type(op).__name__} {ta.__name__},{tb.__name__}")

    def equals(self, a, b, ta=None, tb=None):
        ta = ta or py_type_of(a)
        tb = tb or py_type_of(b)
        num = (int, float, bool)
        if issubclass(ta, num) and issubclass(tb, num):
            return lift(self.num(a)) == lift(self.num(b))
        if ta is str and tb is str:
            return lift(a) == lift(b)
        if ta is list and tb is list:
            va, vb = self.as_list_term(a), self.as_list_term(b)
            na, nb = va.conc_len(), vb.conc_len()
            if na is not None and nb is not None:
                if na != nb:
                    return False
                return S.And(*[self.equals(va.sel(i), vb.sel(i)) for i in range(na)])
            raise Unsupported("== on symbolic lists")
        if ta is tuple and tb is tuple:
            if len(a) != len(b):
                return False
            return S.And(*[self.equals(x, y) for x, y in zip(a, b)])
        if isinstance(a, (ObjV, OpaqueV)) or isinstance(b, (ObjV, OpaqueV)):
            if a is b:
                return True
            raise Unsupported("== on objects")
        # different python types (str vs int, None vs x ...) are never equal
        return False

    def is_same(self, a, b):
        if isinstance(a, OptIntV) and b is None:
            return a.is_none
        if isinstance(b, OptIntV) and a is None:
            return b.is_none
        if a is None or b is None:
            return a is b
        if isinstance(a, (ListV, ObjV, OpaqueV)) or isinstance(b, (ListV, ObjV, OpaqueV)):
            if isinstance(a, ObjV) and isinstance(b, ObjV) and a.model is not None:
                return a.model.is_same(self, a, b)
            return a is b
        if isinstance(a, bool) or isinstance(b, bool):
            # `x is True`
            conc, other = (a, b) if isinstance(a, bool) else (b, a)
            if isinstance(other, z3.ExprRef):
                if z3.is_bool(other):
                    return other if conc else z3.Not(other)
                return False
            return other is conc
        if not is_symbolic(a) and not is_symbolic(b):
            return a is b or (type(a) is type(b) and isinstance(a, (int, str)) and a == b)
        raise Unsupported("`is` on symbolic scalars")

    def contains(self, container, item):
        if isinstance(container, dict):
            if is_symbolic(item):
                if isinstance(item, z3.ExprRef):
                    keys = [k for k in container if type(k) is py_type_of(item)]
                    return S.Or(*[item == lift(k) for k in keys]) if keys else False
                raise Unsupported("symbolic in dict")
            return item in container
        if isinstance(container, (tuple, list, set, frozenset)):
            if not is_symbolic(item) and not any(is_symbolic(x) for x in container):
                return item in container
            return S.Or(*[self.equals(item, x) for x in container])
        ct = py_type_of(container)
        if ct is str:
            if py_type_of(item) is not str:
                raise PyRaise(TypeError, "in <string> requires string")
            return z3.Contains(lift(container), lift(item))
        if isinstance(container, ListV):
            t = container.term
            n = t.conc_len()
            if n is not None:
                return S.Or(*[self.equals(item, t.sel(i)) for i in range(n)])
            i = z3.FreshInt("i")
            return z3.Exists([i], z3.And(0 <= i, i < zint(t.length()), lift(t.sel(i)) == lift(item)))
        if isinstance(container, ObjV) and container.model is not None:
            return container.model.contains(self, container, item)
        raise Unsupported(f"in {type(container).__name__}")

    def truth(self, v):
        if v is None:
            return False
        if isinstance(v, OptIntV):
            return z3.And(z3.Not(v.is_none), v.val != 0)
        if isinstance(v, z3.ExprRef):
            if z3.is_bool(v):
                return v
            if z3.is_int(v) or z3.is_real(v):
                return v != 0
            if z3.is_string(v):
                return z3.Length(v) > 0
        if isinstance(v, ListV):
            n = v.term.length()
            return (n > 0) if L.is_conc_int(n) else zint(n) > 0
        if isinstance(v, ObjV):
            if v.model is not None:
                return v.model.truth(self, v)
            return True
        if isinstance(v, OpaqueV):
            f = v.fields.get("__bool__")
            if f is not None:
                return f(self, v)
            if v.pytype in (bool,):
                raise Unsupported("opaque bool truth")
            return self.opaque_truth(v)
        if isinstance(v, (Closure, BoundM, ExcV)):
            return True
        return bool(v)

    def opaque_truth(self, v):
        # truthiness of an abstract value of a real type: an uninterpreted predicate of its id
        f = z3.Function("truth_" + v.pytype.__name__, z3.IntSort(), z3.BoolSort())
        return f(v.sym)

    def ex_Subscript(self, e, fr):
        obj = self.ev(e.value, fr)
        if isinstance(e.slice, ast.Slice):
            if e.slice.step is not None:
                raise Unsupported("slice step")
            lo = self.ev(e.slice.lower, fr)
            hi = self.ev(e.slice.upper, fr)
            return self.getslice(obj, lo, hi)
        idx = self.ev(e.slice, fr)
        return self.getitem(obj, idx)

    def norm_index(self, n, idx, exc=IndexError):
        """Normalise a possibly negative index against length n; raises IndexError paths."""
        idx = simp_int(self.num(idx))
        n = simp_int(n)
        if L.is_conc_int(idx) and L.is_conc_int(n):
            if idx < 0:
                idx += n
            if not 0 <= idx < n:
                raise PyRaise(exc, "index out of range")
            return idx
        i, nn = zint(idx), zint(n)
        if L.is_conc_int(idx):
            if idx < 0:
                i = simp_int(i + nn)
        else:
            if self.decide(i < 0):
                i = simp_int(i + nn)
        i = zint(i)
        if not self.decide(z3.And(i >= 0, i < nn)):
            raise PyRaise(exc, "index out of range")
        return simp_int(i)

    def getitem(self, obj, idx):
        if isinstance(obj, dict):
            if is_symbolic(idx):
                if isinstance(idx, z3.ExprRef):
                    for k in obj:
                        if type(k) is py_type_of(idx) and self.decide(idx == lift(k)):
                            return obj[k]
                    raise PyRaise(KeyError, "key")
                raise Unsupported("dict[symbolic]")
            if idx not in obj:
                raise PyRaise(KeyError, idx)
            return obj[idx]
        if isinstance(obj, (tuple, list)) and not is_symbolic(idx):
            try:
                return obj[idx]
            except IndexError:
                raise PyRaise(IndexError, "tuple index")
        if isinstance(obj, tuple):
            i = self.norm_index(len(obj), idx)
            return LConc(list(obj)).sel(i)
        if isinstance(obj, ListV):
            i = self.norm_index(obj.term.length(), idx)
            return obj.term.sel(i)
        if py_type_of(obj) is str:
            s = lift(obj)
            i = self.norm_index(z3.Length(s), idx)
            return mk_substr(s, i, 1)
        if isinstance(obj, ObjV) and obj.model is not None:
            return obj.model.getitem(self, obj, idx)
        raise Unsupported(f"subscript of {type(obj).__name__}")

    def getslice(self, obj, lo, hi):
        if not is_symbolic(obj) and not is_symbolic(lo) and not is_symbolic(hi):
            return obj[lo:hi]
        if isinstance(obj, tuple):
            raise Unsupported("symbolic slice of tuple")
        if isinstance(obj, ListV):
            return ListV(L.slice_term(obj.term, self.num(lo), self.num(hi)))
        if py_type_of(obj) is str:
            s = lift(obj)
            lo_, hi_ = simp_int(self.num(lo)) if lo is not None else 0, simp_int(self.num(hi)) if hi is not None else None
            if L.is_conc_int(lo_) and lo_ >= 0 and (hi_ is None or L.is_conc_int(hi_)):
                # str.substr truncates exactly like a Python slice for these shapes
                n = z3.Length(s)
                if hi_ is None:
                    return mk_substr(s, lo_, n) if lo_ else s
                if hi_ >= 0:
                    return mk_substr(s, lo_, max(0, hi_ - lo_))
                return mk_substr(s, lo_, n + hi_ - lo_)
            lo2, hi2 = L.clamp_slice(z3.Length(s), self.num(lo), self.num(hi))
            return z3.SubString(s, zint(lo2), zint(simp_int(zint(hi2) - zint(lo2))))
        raise Unsupported(f"slice of {type(obj).__name__}")

    def as_list_term(self, v):
        if isinstance(v, ListV):
            return v.term
        if isinstance(v, (list, tuple)):
            return LConc(list(v))
        vals = self.iter_values(v)
        if vals is not None:
            return LConc(vals)
        raise Unsupported(f"as list: {type(v).__name__}")

    def ex_ListComp(self, e, fr):
        if len(e.generators) != 1:
            raise Unsupported("nested comprehension")
        g = e.generators[0]
        it = self.ev(g.iter, fr)
        vals = self.iter_values(it)
        sub = Frame(fr.globals, parent=fr)
        if vals is not None:
            out = []
            for v in vals:
                self.assign(g.target, v, sub)
                if all(self.decide(self.truth(self.ev(c, sub))) for c in g.ifs):
                    out.append(self.ev(e.elt, sub))
            return ListV(LConc(out))
        if g.ifs or not isinstance(g.target, ast.Name):
            raise Unsupported("filtered comprehension over symbolic list")
        if not isinstance(it, ListV):
            raise Unsupported("comprehension over symbolic non-list")
        var = self.fresh(g.target.id, "int")
        sub.env[g.target.id] = var
        body = self.ev(e.elt, sub)
        if not isinstance(body, z3.ExprRef):
            body = lift(body)
        return ListV(LMap(it.term, var, body))

    def ex_GeneratorExp(self, e, fr):
        lst = self.ex_ListComp(e, fr)
        n = lst.term.conc_len()
        if n is None:
            return lst
        return [lst.term.sel(i) for i in range(n)]

    def mangle(self, name, fr):
        if name.startswith("__") and not name.endswith("__") and fr.cls_name:
            return "_" + fr.cls_name.lstrip("_") + name
        return name

    def ex_Attribute(self, e, fr):
        obj = self.ev(e.value, fr)
        return self.getattr(obj, self.mangle(e.attr, fr))

    def getattr(self, obj, name):
        if isinstance(obj, SuperProxy):
            f = obj.lookup(name)
            if isinstance(f, property):
                return self.call(f.fget, [obj.obj], {})
            if isinstance(f, staticmethod):
                return f.__func__
            if isinstance(f, classmethod):
                return BoundM(obj.obj.cls, name, f.__func__)
            if isinstance(f, types.FunctionType):
                return BoundM(obj.obj, name, f)
            if name == "__init__":
                return BoundM(obj.obj, name, MethodHook(lambda en, o, *a, **k: None))
            return f
        if isinstance(obj, ObjV):
            if obj.model is not None:
                r = obj.model.getattr(self, obj, name)
                if r is not NotImplemented:
                    return r
            if name in obj.fields:
                return obj.fields[name]
            if obj.model is not None and name in getattr(obj.model, "methods", ()):
                return BoundM(obj, name)
            static = inspect.getattr_static(obj.cls, name, None)
            if static is None:
                raise PyRaise(AttributeError, name)
            if isinstance(static, property):
                return self.call(static.fget, [obj], {})
            if isinstance(static, (staticmethod,)):
                return static.__func__
            if isinstance(static, classmethod):
                return BoundM(obj.cls, name, static.__func__)
            if isinstance(static, types.FunctionType):
                return BoundM(obj, name, static)
            return static
        if isinstance(obj, OpaqueV):
            if name in obj.fields:
                f = obj.fields[name]
                if isinstance(f, MethodHook):
                    return BoundM(obj, name, f)
                return f
            static = inspect.getattr_static(obj.pytype, name, None)
            if static is None:
                raise PyRaise(AttributeError, name)
            return BoundM(obj, name, static)
        if isinstance(obj, (z3.ExprRef, ListV)):
            return BoundM(obj, name)
        if isinstance(obj, ExcV):
            raise Unsupported("attribute of exception")
        if isinstance(obj, (str, list, dict, tuple, int, float)):
            return BoundM(obj, name)
        try:
            return getattr(obj, name)
        except AttributeError:
            raise PyRaise(AttributeError, name)

    def ex_Lambda(self, e, fr):
        node = ast.FunctionDef(
            name="<lambda>", args=e.args, body=[ast.Return(value=e.body)], decorator_list=[], lineno=e.lineno
        )
        return Closure(node, fr, None)

    def ex_Starred(self, e, fr):
        raise Unsupported("starred")

    def ex_Yield(self, e, fr):
        f = fr
        if f.yields is None:
            f.yields = []
        f.yields.append(self.ev(e.value, fr) if e.value is not None else None)
        return None

    # -------------------------------------------------------------- calls
    def ex_Call(self, e, fr):
        if isinstance(e.func, ast.Name) and e.func.id == "super" and not e.args and "super" not in fr.env:
            return self.make_super(fr)
        fn = self.ev(e.func, fr)
        args = []
        for a in e.args:
            if isinstance(a, ast.Starred):
                v = self.ev(a.value, fr)
                vals = self.iter_values(v)
                if vals is None:
                    raise Unsupported("*symbolic")
                args.extend(vals)
            else:
                args.append(self.ev(a, fr))
        kwargs = {}
        for k in e.keywords:
            if k.arg is None:
                d = self.ev(k.value, fr)
                if not isinstance(d, dict):
                    raise Unsupported("**non-dict")
                kwargs.update(d)
            else:
                kwargs[k.arg] = self.ev(k.value, fr)
        self.cur_call_node = e
        return self.call(fn, args, kwargs)

    def make_super(self, fr):
        f = fr
        while f is not None and not f.cls_name:
            f = f.parent
        if f is None or "self" not in fr.env and "self" not in f.env:
            raise Unsupported("super() outside a method")
        obj = fr.lookup("self")
        cls = fr.globals.get(f.cls_name)
        if not isinstance(obj, ObjV) or not isinstance(cls, type):
            raise Unsupported("super() on a non-model object")
        return SuperProxy(obj, cls)

    def call(self, fn, args, kwargs, key=None):
        from . import builtins_model as BM

        if isinstance(fn, HookFn):
            return fn.fn(self, *args, **kwargs)
        if isinstance(fn, Closure):
            return self.call_ast(fn.node, fn.frame, fn.frame.globals, args, kwargs)
        if isinstance(fn, BoundM):
            recv = fn.recv
            if isinstance(fn.func, MethodHook):
                return fn.func.fn(self, recv, *args, **kwargs)
            if fn.func is not None:
                return self.call(fn.func, [recv] + list(args), kwargs)
            return BM.call_method(self, recv, fn.name, args, kwargs)
        if isinstance(fn, types.MethodType):
            return self.call(fn.__func__, [fn.__self__] + list(args), kwargs)
        if isinstance(fn, property):
            raise Unsupported("call of property")
        model = BM.lookup(fn)
        if model is not None:
            return model(self, *args, **kwargs)
        key = key or target_key(fn)
        if key is not None:
            con = REGISTRY.get(key)
            if key in self.c.inline or (con is None and key in INLINE_OK):
                return self.call_real_function(fn, args, kwargs)
            if con is not None:
                return self.apply_contract(con, fn, args, kwargs)
        if isinstance(fn, type) and issubclass(fn, BaseException):
            return ExcV(fn, args[0] if args else None)
        if isinstance(fn, type):
            ckey = f"{fn.__module__}:{fn.__qualname__}"
            ccon = REGISTRY.get(ckey)
            if ccon is not None and ccon.call is not None:
                init = fn.__init__
                try:
                    ba = inspect.signature(init).bind(None, *args, **kwargs)
                except TypeError as ex:
                    raise PyRaise(TypeError, str(ex))
                ba.apply_defaults()
                vals = dict(ba.arguments)
                vals.pop("self", None)
                vals = {k: self.force(v) for k, v in vals.items()}
                return ccon.call(self, ccon, vals, self.call_site_id(getattr(self, "cur_call_node", None), ckey))
        if not any(is_symbolic(a) for a in args) and not any(is_symbolic(a) for a in kwargs.values()):
            if BM.native_ok(fn):
                try:
                    return fn(*args, **kwargs)
                except Exception as ex:  # noqa
                    raise PyRaise(type(ex), str(ex))
        raise Unsupported(f"call of {key or getattr(fn, '__name__', fn)!r} (no contract, not inlined)")

    def depth_of(self, key):
        return 0

    def call_real_function(self, fn, args, kwargs):
        node, module = function_ast(fn)
        return self.call_ast(node, None, module.__dict__, args, kwargs, real=fn)

    def closure_env(self, fn):
        f = fn.__func__ if isinstance(fn, (staticmethod, classmethod)) else fn
        env = {}
        for cv, cell in zip(f.__code__.co_freevars, f.__closure__ or ()):
            try:
                env[cv] = cell.cell_contents
            except ValueError:
                pass
        return env, _class_of_qualname(f.__qualname__)

    def call_ast(self, node, parent_frame, globs, args, kwargs, real=None):
        fr = Frame(globs, parent=parent_frame, fn_name=node.name)
        if real is not None:
            cenv, cname = self.closure_env(real)
            fr.env.update(cenv)
            fr.cls_name = cname
        a = node.args
        params = [p.arg for p in a.posonlyargs + a.args]
        defaults = a.defaults
        dvals = {}
        for p, d in zip(params[len(params) - len(defaults):], defaults):
            dvals[p] = d
        if len(args) > len(params) and a.vararg is None:
            raise PyRaise(TypeError, "too many positional arguments")
        for p, v in zip(params, args):
            fr.env[p] = v
        if a.vararg is not None:
            fr.env[a.vararg.arg] = tuple(args[len(params):])
        kw = dict(kwargs)
        for p in params[len(args):]:
            if p in kw:
                fr.env[p] = kw.pop(p)
            elif p in dvals:
                fr.env[p] = self.ev(dvals[p], Frame(globs, parent=parent_frame))
            else:
                raise PyRaise(TypeError, f"missing argument {p}")
        for p, d in zip(a.kwonlyargs, a.kw_defaults):
            if p.arg in kw:
                fr.env[p.arg] = kw.pop(p.arg)
            elif d is not None:
                fr.env[p.arg] = self.ev(d, Frame(globs, parent=parent_frame))
            else:
                raise PyRaise(TypeError, f"missing kw argument {p.arg}")
        if a.kwarg is not None:
            fr.env[a.kwarg.arg] = kw
        elif kw:
            raise PyRaise(TypeError, f"unexpected keyword {list(kw)}")
        try:
            self.exec_block(node.body, fr)
        except _Return as r:
            if fr.yields is not None:
                return ListV(LConc(fr.yields))
            return r.value
        if fr.yields is not None:
            return ListV(LConc(fr.yields))
        return None

    def bind_args(self, con: Contract, fn, args, kwargs):
        f = fn
        if isinstance(f, (staticmethod, classmethod)):
            f = f.__func__
        sig = inspect.signature(f)
        try:
            ba = sig.bind(*args, **kwargs)
        except TypeError as ex:
            raise PyRaise(TypeError, str(ex))
        ba.apply_defaults()
        return dict(ba.arguments)

    def apply_contract(self, con: Contract, fn, args, kwargs):
        """Modular call: check the callee's precondition, assume its postcondition."""
        vals = self.bind_args(con, fn, args, kwargs)
        vals = {k: self.force(v) for k, v in vals.items()}
        node = getattr(self, "cur_call_node", None)
        site = self.call_site_id(node, con.target)
        if con.call is not None:
            return con.call(self, con, vals, site)
        if not con.observer and any(isinstance(v, ObjV) and v.model is not None for v in vals.values()):
            raise Unsupported(f"modular use of {con.target} on model objects needs an exact call hook "
                              "(or observer=True if it modifies nothing)")
        pre = self.views(vals)
        base = f"{self.c.target}[{self.case_label}]/call:{site}"
        if con.requires is not None:
            self.oblige(f"{base}/pre/path:{self.path_id()}", con.requires(pre), self.c.props | con.props, "callee-pre",
                        {"callee": con.target})
        for et, cond in con.raises.items():
            g = cond(pre)
            if self.decide(g if isinstance(g, (bool, z3.ExprRef)) else bool(g)):
                raise PyRaise(et, f"raised by {con.target}")
        # result
        rt = con.result
        alias = None
        if con.result_alias is not None:
            cond, nme = con.result_alias(pre)
            if self.decide(cond):
                alias = vals[nme]
        if rt is None:
            res = None
        elif alias is not None:
            res = None
        elif con.result_term is not None:
            res = ListV(con.result_term(pre))
        else:
            alts = rt.alternatives()
            k = self.choose(len(alts))
            res = self.make_fresh_of(f"{short(con.target)}.res", alts[k])
        # havoc mutated list arguments
        if con.modifies is not None and alias is not None and con.result_term is not None:
            alias.term = con.result_term(pre)
        elif con.modifies is not None:
            for nme in con.modifies(pre) if callable(con.modifies) else con.modifies:
                v = vals[nme]
                if isinstance(v, ListV):
                    n = self.fresh(nme + ".len", "int")
                    self.pc.append(n >= 0)
                    v.term = LLeaf(self.fresh(nme + ".arr", "arr"), n, nme)
        if alias is not None:
            res = alias
        post = self.views(vals)
        r = self.view(res)
        ens = con.ensures
        if con.result_term is not None:
            # the result IS the spec term: the pointwise / well-formedness clauses are consequences
            ens = [cl for cl in con.ensures if getattr(cl, "assume_always", False)]
        for cl in ens:
            if cl.when is not None:
                w = cl.when(pre)
                if w is False:
                    continue
                g = cl.fn(pre, r, post)
                self.assume(S.Implies(w, g) if isinstance(w, z3.ExprRef) else g)
            else:
                try:
                    g = cl.fn(pre, r, post)
                except (TypeError, AttributeError):
                    raise PathEnd()  # this result alternative is excluded by the clause
                self.assume(g)
        return res

    def call_site_id(self, node, target):
        if self._call_ordinals is None:
            ords = {}
            calls = [n for n in ast.walk(self.fn_node) if isinstance(n, ast.Call)]
            calls.sort(key=lambda n: (n.lineno, n.col_offset))
            for i, n in enumerate(calls):
                ords[id(n)] = i
            self._call_ordinals = ords
        k = self._call_ordinals.get(id(node), "x")
        return f"{short(target)}#{k}"


_QCACHE = {}


def _has_quantifier(e):
    k = e.get_id()
    r = _QCACHE.get(k)
    if r is not None:
        return r
    todo = [e]
    seen = set()
    r = False
    while todo:
        t = todo.pop()
        if t.get_id() in seen:
            continue
        seen.add(t.get_id())
        if z3.is_quantifier(t):
            r = True
            break
        todo.extend(t.children())
    _QCACHE[k] = r
    return r


class SymRange:
    def __init__(self, lo, hi):
        self.lo = lo
        self.hi = hi

    def length(self):
        d = simp_int(zint(self.hi) - zint(self.lo))
        if L.is_conc_int(d):
            return max(0, d)
        return simp_int(z3.If(d > 0, d, 0))


def _class_of_qualname(q):
    parts = q.split(".")
    if len(parts) >= 2 and parts[0] != "<locals>":
        return parts[0]
    return None


def short(target):
    return target.split(":")[-1]


def mk_substr(s, lo, ln):
    """SubString with flattening of substrings of suffixes: (s0[a:])[lo:lo+ln] = s0[a+lo:a+lo+ln]."""
    lo = simp_int(lo)
    if z3.is_app_of(s, z3.Z3_OP_SEQ_EXTRACT) and L.is_conc_int(lo) and lo >= 0:
        s0, a, la = s.arg(0), z3.simplify(s.arg(1)), z3.simplify(s.arg(2))
        if z3.is_int_value(a) and a.as_long() >= 0 and la.eq(z3.simplify(z3.Length(s0))):
            return mk_substr(s0, a.as_long() + lo, ln)
        ln_ = simp_int(ln)
        if (z3.is_int_value(a) and a.as_long() >= 0 and z3.is_int_value(la) and L.is_conc_int(ln_)
                and ln_ >= 0 and lo + ln_ <= la.as_long()):
            return mk_substr(s0, a.as_long() + lo, ln_)
    return z3.SubString(s, zint(lo), zint(ln))


def real_trunc(a):
    """int(a) for a real a (toward zero)."""
    fl = z3.ToInt(a)
    return z3.If(a >= 0, fl, z3.If(z3.ToReal(fl) == a, fl, fl + 1))


def py_floordiv(a, b):
    """Python floor division on ints expressed with SMT-LIB Euclidean div."""
    q = a / b  # z3 Int division: Euclidean (remainder >= 0)
    # for b > 0 euclidean == floor; for b < 0: floor(a/b) = -ceil(a/-b)
    if isinstance(b, z3.ExprRef):
        bs = z3.simplify(b)
        if z3.is_int_value(bs):
            if bs.as_long() > 0:
                return q
    return z3.If(b > 0, q, z3.If(a % b == 0, q, q - 1))


def hex2_term(v, upper=True):
    """f'{v:02X}' for 0 <= v (exact for 0..255; wider values get an abstract string)."""
    digits = "0123456789ABCDEF" if upper else "0123456789abcdef"

    def dig(d):
        r = z3.StringVal(digits[15])
        for k in range(14, -1, -1):
            r = z3.If(d == k, z3.StringVal(digits[k]), r)
        return r

    hi = v / 16
    lo = v % 16
    two = z3.Concat(dig(hi), dig(lo))
    other = z3.Function("U_hex" + ("X" if upper else "x"), z3.IntSort(), z3.StringSort())
    return z3.If(z3.And(v >= 0, v <= 255), two, other(v))


def _to_load(t):
    if isinstance(t, ast.Name):
        return ast.Name(id=t.id, ctx=ast.Load())
    if isinstance(t, ast.Attribute):
        return ast.Attribute(value=t.value, attr=t.attr, ctx=ast.Load())
    if isinstance(t, ast.Subscript):
        return ast.Subscript(value=t.value, slice=t.slice, ctx=ast.Load())
    raise Unsupported("augassign target")


def _native_binop(op, a, b):
    import operator as o

    table = {
        ast.Add: o.add, ast.Sub: o.sub, ast.Mult: o.mul, ast.Div: o.truediv, ast.FloorDiv: o.floordiv,
        ast.Mod: o.mod, ast.Pow: o.pow, ast.BitAnd: o.and_, ast.BitOr: o.or_, ast.BitXor: o.xor,
        ast.LShift: o.lshift, ast.RShift: o.rshift,
    }
    return table[type(op)](a, b)


def _native_cmp(op, a, b):
    import operator as o

    table = {ast.Eq: o.eq, ast.NotEq: o.ne, ast.Lt: o.lt, ast.LtE: o.le, ast.Gt: o.gt, ast.GtE: o.ge}
    return table[type(op)](a, b)


# small pure helpers of the repository that are always interpreted from their source (never assumed)
INLINE_OK: set[str] = {
    "odfdo.element:_get_lxml_tag_or_name", "odfdo.element:_get_lxml_tag", "odfdo.element:_decode_qname",
    "odfdo.element:Element._generic_attrib_getter.<locals>.getter",
    "odfdo.element:Element._generic_attrib_setter.<locals>.setter",
    "odfdo.element:Element._generic_attrib_setter.<locals>.setter.fset",
    "odfdo.utils.isiterable:isiterable",
    "odfdo.document:_get_part_path", "odfdo.document:_get_part_class",
}


def target_key(fn):
    f = fn
    if isinstance(f, (staticmethod, classmethod)):
        f = f.__func__
    if isinstance(f, types.FunctionType):
        return f"{f.__module__}:{f.__qualname__}"
    return None


_AST_CACHE = {}


def function_ast(fn):
    """(FunctionDef node, module) of a real function, re-read from its source file."""
    import importlib
    import sys

    f = fn
    if isinstance(f, (staticmethod, classmethod)):
        f = f.__func__
    f = inspect.unwrap(f) if not hasattr(f, "__wrapped__") else f
    module = sys.modules.get(f.__module__) or importlib.import_module(f.__module__)
    path = inspect.getsourcefile(module)
    if path not in _AST_CACHE:
        with open(path, encoding="utf-8") as fh:
            src = fh.read()
        _AST_CACHE[path] = (ast.parse(src), src)
    tree, _src = _AST_CACHE[path]
    line = f.__code__.co_firstlineno
    best = None
    for n in ast.walk(tree):
        if isinstance(n, (ast.FunctionDef,)) and n.name == f.__code__.co_name:
            first = min([n.lineno] + [d.lineno for d in n.decorator_list])
            if first == line or n.lineno == line:
                best = n
                break
    if best is None:
        raise Unsupported(f"source of {f.__qualname__} not found")
    return best, module


def resolve_target(target):
    """'module:Qual.name' (optionally '.fget'/'.fset' for properties) -> function object + AST."""
    import hashlib
    import importlib

    modname, qual = target.split(":")
    module = importlib.import_module(modname)
    obj = module
    parts = qual.split(".")
    for i, p in enumerate(parts):
        if isinstance(obj, type):
            st = inspect.getattr_static(obj, p)
            # resolve through the MRO to the defining function
            obj = st
        elif isinstance(obj, property) and p in ("fget", "fset", "fdel"):
            obj = getattr(obj, p)
        else:
            obj = getattr(obj, p)
    if isinstance(obj, (staticmethod, classmethod)):
        obj = obj.__func__
    if isinstance(obj, property):
        obj = obj.fget
    if not isinstance(obj, types.FunctionType):
        raise Unsupported(f"target {target} is not a function")
    node, mod = function_ast(obj)
    src = ast.get_source_segment(_AST_CACHE[inspect.getsourcefile(mod)][1], node) or ""
    info = {
        "file": inspect.getsourcefile(mod),
        "line": node.lineno,
        "sha1": hashlib.sha1(src.encode()).hexdigest()[:12],
    }
    return obj, node, mod, info
