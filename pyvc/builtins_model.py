"""Models of Python builtins, str / list / dict methods and a few stdlib functions.

Every model is exact for the fragment it supports and raises Unsupported elsewhere.
Character classes are exact on ASCII; beyond ASCII they are uninterpreted predicates
(a counter-model using such a character is decided by the native replay).
"""
from __future__ import annotations

import bisect
import builtins
import contextlib
import types

import z3

from . import lists as L
from .engine import (
    ASCII_DIGIT,
    ASCII_LETTER,
    ASCII_WS,
    ExcV,
    ListV,
    ObjV,
    OpaqueV,
    PyRaise,
    SymRange,
    U_isalpha,
    U_isdigit,
    U_isspace,
    U_pyint,
    Unsupported,
    is_symbolic,
    py_type_of,
    real_trunc,
)
from .lists import LConc, lift, simp_int, zint

_MODELS = {}


def model(fn):
    def deco(f):
        _MODELS[fn] = f
        return f

    return deco


def lookup(fn):
    try:
        return _MODELS.get(fn)
    except TypeError:
        return None


_NATIVE_OK = {
    contextlib.suppress, sorted, repr, format, divmod, round, hash, frozenset, set, dict, float, bytes,
    type, id, callable, iter, zip, map, filter, sum, any, all, reversed, enumerate, list, tuple, range,
    str, int, len, abs, min, max, ord, chr, isinstance, issubclass, hasattr, getattr, bool,
}


def native_ok(fn):
    try:
        if fn in _NATIVE_OK:
            return True
    except TypeError:
        return False
    if isinstance(fn, type):
        mod = getattr(fn, "__module__", "")
        return mod in ("builtins", "decimal", "datetime", "contextlib", "re", "collections", "pathlib", "fractions")
    if isinstance(fn, (types.BuiltinFunctionType, types.BuiltinMethodType, types.MethodDescriptorType)):
        return True
    mod = getattr(fn, "__module__", "") or ""
    return mod.split(".")[0] in ("re", "copy", "operator", "itertools", "functools", "datetime", "decimal", "math")


# ------------------------------------------------------------------ builtins
@model(len)
def m_len(en, x):
    if isinstance(x, ListV):
        return x.term.length()
    if isinstance(x, z3.ExprRef) and z3.is_string(x):
        return z3.Length(x)
    if isinstance(x, SymRange):
        return x.length()
    if isinstance(x, ObjV) and x.model is not None:
        return x.model.length(en, x)
    if isinstance(x, (tuple, list, dict)):
        return len(x)
    if is_symbolic(x):
        raise Unsupported(f"len of {type(x).__name__}")
    try:
        return len(x)
    except TypeError as e:
        raise PyRaise(TypeError, str(e))


@model(isinstance)
def m_isinstance(en, x, t):
    pt = py_type_of(x)
    ts = t if isinstance(t, tuple) else (t,)
    for tt in ts:
        if not isinstance(tt, type):
            # typing generics / ABCs
            try:
                if issubclass(pt, tt):
                    return True
            except TypeError:
                raise Unsupported(f"isinstance against {tt!r}")
            continue
        if issubclass(pt, tt):
            return True
    return False


@model(hasattr)
def m_hasattr(en, x, name):
    if isinstance(x, ObjV):
        if x.model is not None:
            r = x.model.hasattr(en, x, name)
            if r is not NotImplemented:
                return r
        if name in x.fields:
            return True
        import inspect

        return inspect.getattr_static(x.cls, name, None) is not None
    if is_symbolic(x):
        return hasattr(py_type_of(x), name)
    return hasattr(x, name)


@model(getattr)
def m_getattr(en, x, name, *default):
    if is_symbolic(name):
        raise Unsupported("getattr with symbolic name")
    try:
        return en.getattr(x, name)
    except PyRaise as e:
        if issubclass(e.exc_type, AttributeError) and default:
            return default[0]
        raise


@model(setattr)
def m_setattr(en, x, name, v):
    if is_symbolic(name):
        raise Unsupported("setattr with symbolic name")
    en.setattr(x, name, v)
    return None


@model(int)
def m_int(en, x=0, base=10):
    if not is_symbolic(x):
        try:
            return int(x, base) if isinstance(x, str) and base != 10 else int(x)
        except ValueError as e:
            raise PyRaise(ValueError, str(e))
        except TypeError as e:
            raise PyRaise(TypeError, str(e))
    if isinstance(x, z3.ExprRef):
        if z3.is_int(x):
            return x
        if z3.is_bool(x):
            return z3.If(x, z3.IntVal(1), z3.IntVal(0))
        if z3.is_real(x):
            return real_trunc(x)
        if z3.is_string(x):
            if base == 16:
                return hex_to_int(en, x)
            if base != 10:
                raise Unsupported("int(str, base)")
            return str_to_int(en, x)
    raise Unsupported(f"int({type(x).__name__})")


def str_to_int(en, s):
    """Python int(s) for a str: exact for ASCII strings; beyond ASCII abstract."""
    digits = z3.Plus(ASCII_DIGIT)
    ws = z3.Star(ASCII_WS)
    grouped = z3.Concat(digits, z3.Star(z3.Concat(z3.Re("_"), digits)))
    valid = z3.Concat(ws, z3.Option(z3.Union(z3.Re("+"), z3.Re("-"))), grouped, ws)
    if en.decide(z3.InRe(s, digits)):
        return z3.StrToInt(s)
    if en.decide(z3.InRe(s, z3.Concat(z3.Re("-"), digits))):
        return -z3.StrToInt(z3.SubString(s, 1, z3.Length(s) - 1))
    ascii_only = z3.InRe(s, z3.Star(z3.Range(chr(0), chr(127))))
    if en.decide(ascii_only):
        if en.decide(z3.InRe(s, valid)):
            return U_pyint(s)
        raise PyRaise(ValueError, "invalid literal for int()")
    # non-ASCII: Unicode digits / spaces may be accepted -> both outcomes possible
    if en.choose(2) == 0:
        raise PyRaise(ValueError, "invalid literal for int()")
    return U_pyint(s)


U_decimal = z3.Function("U_decimal", z3.IntSort(), z3.BoolSort())      # non-ASCII Unicode decimal digit
U_digitval = z3.Function("U_digitval", z3.IntSort(), z3.IntSort())


def hex_digit_val(c):
    """value int(c, 16) gives one character c (z3 string of length 1); -1 if rejected.
    ASCII: exact.  Non-ASCII: Unicode decimal digits are accepted by int() (abstract predicate)."""
    code = z3.StrToCode(c)
    return z3.If(
        z3.And(code >= 48, code <= 57), code - 48,
        z3.If(z3.And(code >= 65, code <= 70), code - 55,
              z3.If(z3.And(code >= 97, code <= 102), code - 87,
                    z3.If(z3.And(code > 127, U_decimal(code)), U_digitval(code), z3.IntVal(-1)))))


def hex_to_int(en, s):
    """int(s, 16) for strings of 1 or 2 alphanumeric characters (colour channels)."""
    from .engine import mk_substr
    ln = None
    for k in (2, 1):
        if en.decide(z3.Length(s) == k):
            ln = k
            break
    if ln is None:
        if en.decide(z3.Length(s) == 0):
            raise PyRaise(ValueError, "invalid literal for int() with base 16: ''")
        raise Unsupported("int(s,16) for length > 2")
    chars = [mk_substr(s, i, 1) for i in range(ln)]
    vals = [hex_digit_val(c) for c in chars]
    en.pc.extend([z3.Implies(z3.And(z3.StrToCode(c) > 127, U_decimal(z3.StrToCode(c))),
                             z3.And(U_digitval(z3.StrToCode(c)) >= 0, U_digitval(z3.StrToCode(c)) <= 9,
                                    U_isdigit(z3.StrToCode(c)))) for c in chars])
    ok = z3.And(*[v >= 0 for v in vals])
    if en.decide(ok):
        r = z3.IntVal(0)
        for v in vals:
            r = r * 16 + v
        return simp_int(r)
    # not plain digits: sign / white space / underscore forms exist only with non-alphanumerics
    alnum = z3.And(*[cls_alnum(z3.StrToCode(c)) for c in chars])
    if en.decide(alnum):
        raise PyRaise(ValueError, "invalid literal for int() with base 16")
    if en.choose(2) == 0:
        raise PyRaise(ValueError, "invalid literal for int() with base 16")
    return z3.Function("U_pyint16", z3.StringSort(), z3.IntSort())(s)


@model(str)
def m_str(en, x=""):
    return en.to_str(x)


@model(repr)
def m_repr(en, x):
    return en.to_str(x, what="repr")


@model(bool)
def m_bool(en, x=False):
    return en.truth(x)


@model(ord)
def m_ord(en, c):
    if not is_symbolic(c):
        return ord(c)
    if en.decide(z3.Length(c) == 1):
        return z3.StrToCode(c)
    raise PyRaise(TypeError, "ord() expected a character")


@model(chr)
def m_chr(en, i):
    if not is_symbolic(i):
        return chr(i)
    if not en.decide(z3.And(i >= 0, i <= 0x10FFFF)):
        raise PyRaise(ValueError, "chr() arg not in range")
    if not en.decide(i <= 0x2FFFF):
        raise Unsupported("chr beyond z3's code point range")
    return z3.StrFromCode(i)


@model(abs)
def m_abs(en, x):
    if not is_symbolic(x):
        return abs(x)
    x = en.num(x)
    return z3.If(x < 0, -x, x)


@model(max)
def m_max(en, *xs, **kw):
    return _minmax(en, xs, kw, True)


@model(min)
def m_min(en, *xs, **kw):
    return _minmax(en, xs, kw, False)


def _minmax(en, xs, kw, is_max):
    if kw:
        raise Unsupported("min/max with key/default")
    if len(xs) == 1:
        vals = en.iter_values(xs[0])
        if vals is None:
            raise Unsupported("min/max of symbolic sequence")
        xs = vals
        if not xs:
            raise PyRaise(ValueError, "empty sequence")
    if not any(is_symbolic(x) for x in xs):
        return max(xs) if is_max else min(xs)
    r = zint(en.num(xs[0]))
    for x in xs[1:]:
        x = zint(en.num(x))
        r = z3.If(x > r, x, r) if is_max else z3.If(x < r, x, r)
    return simp_int(r)


@model(range)
def m_range(en, *a):
    if not any(is_symbolic(x) for x in a):
        return range(*a)
    if len(a) == 1:
        return SymRange(0, a[0])
    if len(a) == 2:
        return SymRange(a[0], a[1])
    raise Unsupported("range with symbolic step")


@model(tuple)
def m_tuple(en, x=()):
    vals = en.iter_values(x)
    if vals is None:
        raise Unsupported("tuple(symbolic-length)")
    return tuple(vals)


@model(list)
def m_list(en, x=()):
    if isinstance(x, ListV):
        return ListV(x.term)
    vals = en.iter_values(x)
    if vals is None:
        raise Unsupported("list(symbolic-length)")
    return ListV(LConc(vals))


@model(sorted)
def m_sorted(en, x, **kw):
    vals = en.iter_values(x)
    if vals is None or any(is_symbolic(v) for v in vals) or kw:
        raise Unsupported("sorted of symbolic")
    return ListV(LConc(sorted(vals)))


@model(enumerate)
def m_enumerate(en, x, start=0):
    vals = en.iter_values(x)
    if vals is None:
        raise Unsupported("enumerate(symbolic-length)")
    return [(i + start, v) for i, v in enumerate(vals)]


@model(reversed)
def m_reversed(en, x):
    vals = en.iter_values(x)
    if vals is None:
        if isinstance(x, ListV):
            return ListV(L.LRev(x.term))
        raise Unsupported("reversed(symbolic-length)")
    return list(reversed(vals))


@model(iter)
def m_iter(en, x):
    t = py_type_of(x)
    if issubclass(t, (list, tuple, str, dict, set, range)) or hasattr(t, "__iter__"):
        return x
    raise PyRaise(TypeError, f"'{t.__name__}' object is not iterable")


@model(sum)
def m_sum(en, x, start=0):
    vals = en.iter_values(x)
    if vals is None:
        raise Unsupported("sum(symbolic-length)")
    r = start
    for v in vals:
        r = en.binop(__import__("ast").Add(), r, v)
    return r


@model(all)
def m_all(en, x):
    vals = en.iter_values(x)
    if vals is None:
        raise Unsupported("all(symbolic-length)")
    for v in vals:
        if not en.decide(en.truth(v)):
            return False
    return True


@model(any)
def m_any(en, x):
    vals = en.iter_values(x)
    if vals is None:
        raise Unsupported("any(symbolic-length)")
    for v in vals:
        if en.decide(en.truth(v)):
            return True
    return False


@model(bisect.bisect_left)
def m_bisect_left(en, m, x):
    """Assumed contract of bisect_left on a sorted list (ground `located` facts)."""
    if not isinstance(m, ListV):
        raise Unsupported("bisect_left on non-list")
    n = m.term.conc_len()
    if n is not None and not is_symbolic(x) and all(not is_symbolic(m.term.sel(i)) for i in range(n)):
        return bisect.bisect_left([m.term.sel(i) for i in range(n)], x)
    en.assumption_notes.add("bisect.bisect_left: documented contract on a sorted list (caller proves sortedness where labelled)")
    k = en.fresh("bisect", "int")
    nn = zint(m.term.length())
    xx = zint(x)
    en.pc.append(z3.And(k >= 0, k <= nn))
    en.pc.append(z3.Implies(k > 0, lift(m.term.sel(simp_int(k - 1))) < xx))
    en.pc.append(z3.Implies(k < nn, lift(m.term.sel(k)) >= xx))
    # the quantified form (all before are smaller, all after are >=) for sorted input
    i = z3.FreshInt("i")
    mi = lift(m.term.sel(i))
    en.pc.append(z3.ForAll([i], z3.Implies(z3.And(0 <= i, i < k), mi < xx), patterns=[mi]))
    en.pc.append(z3.ForAll([i], z3.Implies(z3.And(k <= i, i < nn), mi >= xx), patterns=[mi]))
    return k


@model(bisect.insort)
def m_insort(en, m, x):
    """insort(m, x): in-place insertion after any equal elements (bisect_right)."""
    if not isinstance(m, ListV):
        raise Unsupported("insort on non-list")
    en.assumption_notes.add("bisect.insort: documented contract on a sorted list")
    t = m.term
    n = t.conc_len()
    if n is not None and not is_symbolic(x) and all(not is_symbolic(t.sel(i)) for i in range(n)):
        items = [t.sel(i) for i in range(n)]
        bisect.insort(items, x)
        m.term = LConc(items)
        return None
    k = en.fresh("insort", "int")
    nn = zint(t.length())
    xx = zint(x)
    en.pc.append(z3.And(k >= 0, k <= nn))
    i = z3.FreshInt("i")
    ti = lift(t.sel(i))
    en.pc.append(z3.ForAll([i], z3.Implies(z3.And(0 <= i, i < k), ti <= xx), patterns=[ti]))
    en.pc.append(z3.ForAll([i], z3.Implies(z3.And(k <= i, i < nn), ti > xx), patterns=[ti]))
    en.pc.append(z3.Implies(k > 0, lift(t.sel(simp_int(k - 1))) <= xx))
    en.pc.append(z3.Implies(k < nn, lift(t.sel(k)) > xx))
    m.term = L.cat_term(L.cat_term(L.slice_term(t, None, k), LConc([x])), L.slice_term(t, k, None))
    return None


# ------------------------------------------------------------------ methods
def call_method(en, recv, name, args, kwargs):
    if isinstance(recv, ObjV) and recv.model is not None and hasattr(recv.model, "call_method"):
        return recv.model.call_method(en, recv, name, args, kwargs)
    t = py_type_of(recv)
    if t is str:
        f = _STR.get(name)
        if f is None:
            if not is_symbolic(recv) and not any(is_symbolic(a) for a in args):
                return _native_method(recv, name, args, kwargs)
            raise Unsupported(f"str.{name}")
        return f(en, recv, *args, **kwargs)
    if isinstance(recv, ListV):
        f = _LIST.get(name)
        if f is None:
            raise Unsupported(f"list.{name}")
        return f(en, recv, *args, **kwargs)
    if isinstance(recv, dict):
        f = _DICT.get(name)
        if f is None:
            raise Unsupported(f"dict.{name}")
        return f(en, recv, *args, **kwargs)
    if not is_symbolic(recv) and not any(is_symbolic(a) for a in args) and not any(
        is_symbolic(a) for a in kwargs.values()
    ):
        return _native_method(recv, name, args, kwargs)
    raise Unsupported(f"method {name} on {t.__name__}")


def _native_method(recv, name, args, kwargs):
    try:
        return getattr(recv, name)(*args, **kwargs)
    except Exception as ex:  # noqa
        raise PyRaise(type(ex), str(ex))


def _all_conc(*xs):
    return not any(is_symbolic(x) for x in xs)


def char_at(s, i):
    return z3.SubString(s, i, z3.IntVal(1)) if not isinstance(i, int) else z3.SubString(s, z3.IntVal(i), z3.IntVal(1))


def all_chars(s, cls):
    """forall i in [0,|s|): cls(code(s[i]))  — character-wise (E-matching friendly) form.
    Distributes over concatenation (exact: a char of a++b is a char of a or of b)."""
    if z3.is_app_of(s, z3.Z3_OP_SEQ_CONCAT):
        return z3.And(*[all_chars(ch, cls) for ch in s.children()])
    if z3.is_string_value(s):
        v = s.as_string()
        return z3.simplify(z3.And(*[cls(z3.IntVal(ord(ch))) for ch in v])) if v else z3.BoolVal(True)
    if z3.is_app_of(s, z3.Z3_OP_ITE):
        return z3.If(s.arg(0), all_chars(s.arg(1), cls), all_chars(s.arg(2), cls))
    if z3.is_app_of(s, z3.Z3_OP_SEQ_EXTRACT):
        s0, a, la = s.arg(0), z3.simplify(s.arg(1)), z3.simplify(s.arg(2))
        if z3.is_int_value(a) and a.as_long() >= 0 and la.eq(z3.simplify(z3.Length(s0))):
            i = z3.FreshInt("ci")
            ch = char_at(s0, i)
            from .spec import pat_ok
            kw = {"patterns": [ch]} if pat_ok(ch) else {}
            return z3.ForAll([i], z3.Implies(z3.And(a <= i, i < z3.Length(s0)), cls(z3.StrToCode(ch))), **kw)
    if z3.is_app_of(s, z3.Z3_OP_STR_FROM_CODE):
        x = s.arg(0)
        return z3.Implies(z3.Length(s) == 1, cls(x))
    i = z3.FreshInt("ci")
    ch = char_at(s, i)
    from .spec import pat_ok
    kw = {"patterns": [ch]} if pat_ok(ch) else {}
    return z3.ForAll([i], z3.Implies(z3.And(0 <= i, i < z3.Length(s)), cls(z3.StrToCode(ch))), **kw)


def cls_alpha(c):
    return z3.If(c <= 127, z3.Or(z3.And(c >= 65, c <= 90), z3.And(c >= 97, c <= 122)), U_isalpha(c))


def cls_digit(c):
    return z3.If(c <= 127, z3.And(c >= 48, c <= 57), U_isdigit(c))


def cls_alnum(c):
    return z3.Or(cls_alpha(c), cls_digit(c))


def cls_space(c):
    return z3.If(c <= 127, z3.Or(c == 32, z3.And(c >= 9, c <= 13), z3.And(c >= 28, c <= 31)), U_isspace(c))


def _charclass(en, s, cls, name):
    """s.isX(): non-empty and every char in class.  Exact on ASCII, abstract beyond."""
    if _all_conc(s):
        return getattr(s, name)()
    s = lift(s)
    n = simp_int(z3.Length(s))
    if (L.is_conc_int(n) and n == 1) or (z3.is_app_of(s, z3.Z3_OP_SEQ_EXTRACT) and _unit_len(s)):
        return z3.And(z3.Length(s) == 1, cls(z3.StrToCode(s)))
    return z3.And(z3.Length(s) > 0, all_chars(s, cls))


def _unit_len(s):
    try:
        ln = z3.simplify(s.arg(2))
        return z3.is_int_value(ln) and ln.as_long() == 1
    except Exception:
        return False


def s_isalpha(en, s):
    return _charclass(en, s, cls_alpha, "isalpha")


def s_isdigit(en, s):
    return _charclass(en, s, cls_digit, "isdigit")


def s_isalnum(en, s):
    return _charclass(en, s, cls_alnum, "isalnum")


def s_isascii(en, s):
    if _all_conc(s):
        return s.isascii()
    return all_chars(lift(s), lambda c: c <= 127)


def s_isspace(en, s):
    return _charclass(en, s, cls_space, "isspace")


U_lower = z3.Function("U_lower", z3.StringSort(), z3.StringSort())
U_upper = z3.Function("U_upper", z3.StringSort(), z3.StringSort())
U_strip = z3.Function("U_strip", z3.StringSort(), z3.StringSort())


def s_lower(en, s):
    if _all_conc(s):
        return s.lower()
    s = lift(s)
    if z3.is_app_of(s, z3.Z3_OP_ITE):
        return z3.If(s.arg(0), lift(s_lower(en, _unlift(s.arg(1)))), lift(s_lower(en, _unlift(s.arg(2)))))
    r = U_lower(s)
    # facts (exact for ASCII characters): per-character mapping; length preserved when all ASCII
    i = z3.FreshInt("ci")
    ci = z3.StrToCode(char_at(s, i))
    ri = z3.StrToCode(char_at(r, i))
    ascii_only = all_chars(s, lambda c: c <= 127)
    en.pc.append(z3.Implies(ascii_only, z3.Length(r) == z3.Length(s)))
    en.pc.append(z3.Implies(ascii_only, z3.ForAll(
        [i], z3.Implies(z3.And(0 <= i, i < z3.Length(s)),
                        ri == z3.If(z3.And(ci >= 65, ci <= 90), ci + 32, ci)),
        **({"patterns": [char_at(r, i)]} if _pat_ok(char_at(r, i)) else {}))))
    return r


def _pat_ok(t):
    from .spec import pat_ok
    return pat_ok(t)


def _unlift(t):
    if z3.is_string_value(t):
        return t.as_string()
    return t


def s_upper(en, s):
    if _all_conc(s):
        return s.upper()
    raise Unsupported("str.upper symbolic")


def s_strip(en, s, chars=None):
    if _all_conc(s, chars):
        return s.strip(chars)
    if chars is not None:
        raise Unsupported("strip(chars) symbolic")
    s = lift(s)
    r = en.fresh("strip", "str")
    a = en.fresh("lws", "str")
    b = en.fresh("rws", "str")
    ws_code = lambda c: z3.If(c <= 127, z3.Or(c == 32, z3.And(c >= 9, c <= 13), z3.And(c >= 28, c <= 31)), U_isspace(c))
    en.pc.append(s == z3.Concat(a, r, b))
    i = z3.FreshInt("i")
    en.pc.append(z3.ForAll([i], z3.Implies(z3.And(0 <= i, i < z3.Length(a)), ws_code(z3.StrToCode(z3.SubString(a, i, 1))))))
    en.pc.append(z3.ForAll([i], z3.Implies(z3.And(0 <= i, i < z3.Length(b)), ws_code(z3.StrToCode(z3.SubString(b, i, 1))))))
    en.pc.append(z3.Implies(z3.Length(r) > 0, z3.And(
        z3.Not(ws_code(z3.StrToCode(z3.SubString(r, 0, 1)))),
        z3.Not(ws_code(z3.StrToCode(z3.SubString(r, z3.Length(r) - 1, 1)))))))
    return r


def s_startswith(en, s, p):
    if _all_conc(s, p):
        return s.startswith(p)
    if isinstance(p, tuple):
        from .spec import S

        return S.Or(*[z3.PrefixOf(lift(x), lift(s)) for x in p])
    return z3.PrefixOf(lift(p), lift(s))


def s_endswith(en, s, p):
    if _all_conc(s, p):
        return s.endswith(p)
    if isinstance(p, tuple):
        from .spec import S

        return S.Or(*[z3.SuffixOf(lift(x), lift(s)) for x in p])
    return z3.SuffixOf(lift(p), lift(s))


def s_split(en, s, sep=None, maxsplit=-1):
    if _all_conc(s, sep, maxsplit):
        return ListV(LConc(s.split(sep, maxsplit)))
    if sep is None or is_symbolic(sep) or is_symbolic(maxsplit) or maxsplit != 1:
        raise Unsupported("str.split symbolic (only split(sep, 1))")
    s = lift(s)
    sp = z3.StringVal(sep)
    if en.decide(z3.Contains(s, sp)):
        k = z3.IndexOf(s, sp, 0)
        a = z3.SubString(s, 0, k)
        b = z3.SubString(s, k + len(sep), z3.Length(s) - k - len(sep))
        en.pc.append(z3.Not(z3.Contains(a, sp))) if len(sep) == 1 else None
        return ListV(LConc([a, b]))
    return ListV(LConc([s]))


def s_join(en, s, it):
    vals = en.iter_values(it)
    if vals is None:
        if isinstance(it, ListV):
            r = en.fresh("join", "str")
            en.ghost.setdefault("joins", []).append({"result": r, "sep": s, "term": it.term})
            en.assumption_notes.add("str.join over a list of symbolic length: result kept abstract; the joined "
                                    "list is specified element-wise (ghost)")
            return r
        raise Unsupported("join of symbolic-length")
    out = []
    for i, v in enumerate(vals):
        if py_type_of(v) is not str:
            raise PyRaise(TypeError, "join: expected str")
        if i:
            out.append(s)
        out.append(v)
    return en.str_concat(out) if out else ""


def s_replace(en, s, old, new, count=-1):
    if _all_conc(s, old, new, count):
        return s.replace(old, new, count)
    raise Unsupported("str.replace symbolic")


def s_find(en, s, sub, *a):
    if _all_conc(s, sub, *a):
        return s.find(sub, *a)
    if a:
        raise Unsupported("find with start")
    return z3.IndexOf(lift(s), lift(sub), 0)


def s_format(en, s, *a, **k):
    if _all_conc(s, *a, *k.values()):
        return s.format(*a, **k)
    raise Unsupported("str.format symbolic")


def s_encode(en, s, *a):
    if _all_conc(s):
        return s.encode(*a)
    raise Unsupported("encode symbolic")


_STR = {
    "isascii": s_isascii, "isalpha": s_isalpha, "isdigit": s_isdigit, "isalnum": s_isalnum, "isspace": s_isspace,
    "lower": s_lower, "upper": s_upper, "strip": s_strip, "startswith": s_startswith,
    "endswith": s_endswith, "split": s_split, "join": s_join, "replace": s_replace, "find": s_find,
    "format": s_format, "encode": s_encode,
}


# lists ---------------------------------------------------------------------
def l_append(en, lst, v):
    lst.term = L.cat_term(lst.term, LConc([v]))


def l_extend(en, lst, other):
    lst.term = L.cat_term(lst.term, en.as_list_term(other))


def l_insert(en, lst, i, v):
    t = lst.term
    lst.term = L.cat_term(L.cat_term(L.slice_term(t, None, i), LConc([v])), L.slice_term(t, i, None))


def l_pop(en, lst, i=-1):
    t = lst.term
    n = t.length()
    if en.decide(zint(n) == 0) if not L.is_conc_int(n) else n == 0:
        raise PyRaise(IndexError, "pop from empty list")
    j = en.norm_index(n, i)
    v = t.sel(j)
    lst.term = L.cat_term(L.slice_term(t, None, j), L.slice_term(t, simp_int(zint(j) + 1), None))
    return v


def l_copy(en, lst):
    return ListV(lst.term)


def l_clear(en, lst):
    lst.term = LConc([])


def l_index(en, lst, v):
    n = lst.term.conc_len()
    if n is None:
        raise Unsupported("list.index symbolic")
    for i in range(n):
        if en.decide(en.equals(lst.term.sel(i), v)):
            return i
    raise PyRaise(ValueError, "not in list")


_LIST = {"append": l_append, "extend": l_extend, "insert": l_insert, "pop": l_pop, "copy": l_copy,
         "clear": l_clear, "index": l_index}


# dicts ---------------------------------------------------------------------
def d_get(en, d, k, default=None):
    if is_symbolic(k):
        if isinstance(k, z3.ExprRef):
            for kk in d:
                if type(kk) is py_type_of(k) and en.decide(k == lift(kk)):
                    return d[kk]
            return default
        raise Unsupported("dict.get symbolic")
    return d.get(k, default)


def d_items(en, d):
    return list(d.items())


def d_keys(en, d):
    return list(d.keys())


def d_values(en, d):
    return list(d.values())


def d_pop(en, d, k, *default):
    if is_symbolic(k):
        if isinstance(k, z3.ExprRef):
            for kk in list(d):
                if type(kk) is py_type_of(k) and en.decide(k == lift(kk)):
                    return d.pop(kk)
            if default:
                return default[0]
            raise PyRaise(KeyError, "key")
        raise Unsupported("dict.pop symbolic")
    if k in d:
        return d.pop(k)
    if default:
        return default[0]
    raise PyRaise(KeyError, k)


def d_update(en, d, other=(), **kw):
    if isinstance(other, dict):
        d.update(other)
    d.update(kw)


def d_setdefault(en, d, k, v=None):
    if is_symbolic(k):
        raise Unsupported("dict.setdefault symbolic")
    return d.setdefault(k, v)


_DICT = {"get": d_get, "items": d_items, "keys": d_keys, "values": d_values, "pop": d_pop,
         "update": d_update, "setdefault": d_setdefault}
