"""dict[int, int] with symbolic keys: presence array, value array and a finite-support bound.

State: fields has: Array(Int,Bool), val: Array(Int,Int), lo/hi: every present key k has lo <= k <= hi
(a dict is finite).  Methods modelled exactly: get, setdefault, __contains__, __getitem__,
__setitem__, __delitem__."""
from __future__ import annotations

import z3

from .engine import ObjV, PyRaise, Unsupported
from .lists import zint
from .xmlmodel import BaseModel


class IntDictView:
    def __init__(self, obj):
        self.ref = obj
        self.has_arr = obj.fields["has"]
        self.val_arr = obj.fields["val"]
        self.lo = obj.fields["lo"]
        self.hi = obj.fields["hi"]

    def has(self, k):
        return z3.Select(self.has_arr, zint(k))

    def val(self, k):
        return z3.Select(self.val_arr, zint(k))

    def get(self, k, default):
        return z3.If(self.has(k), self.val(k), zint(default))

    def finite(self):
        i = z3.FreshInt("k")
        from .spec import qforall
        return qforall([i], z3.Implies(self.has(i), z3.And(self.lo <= i, i <= self.hi)), [self.has(i)])


class IntDictModel(BaseModel):
    methods = {"get", "setdefault", "pop", "keys", "items"}

    def view(self, en, obj):
        return IntDictView(obj)

    def contains(self, en, obj, item):
        return z3.Select(obj.fields["has"], zint(item))

    def getitem(self, en, obj, idx):
        if not en.decide(z3.Select(obj.fields["has"], zint(idx))):
            raise PyRaise(KeyError, "key")
        return z3.Select(obj.fields["val"], zint(idx))

    def setitem(self, en, obj, idx, v):
        k = zint(idx)
        obj.fields["has"] = z3.Store(obj.fields["has"], k, z3.BoolVal(True))
        obj.fields["val"] = z3.Store(obj.fields["val"], k, zint(v))
        obj.fields["lo"] = z3.If(k < obj.fields["lo"], k, obj.fields["lo"])
        obj.fields["hi"] = z3.If(k > obj.fields["hi"], k, obj.fields["hi"])

    def delitem(self, en, obj, idx):
        k = zint(idx)
        if not en.decide(z3.Select(obj.fields["has"], k)):
            raise PyRaise(KeyError, "key")
        obj.fields["has"] = z3.Store(obj.fields["has"], k, z3.BoolVal(False))

    def truth(self, en, obj):
        raise Unsupported("truth of symbolic dict")

    def call_method(self, en, obj, name, args, kwargs):
        if name == "get":
            k = zint(args[0])
            d = args[1] if len(args) > 1 else None
            if d is None:
                if en.decide(z3.Select(obj.fields["has"], k)):
                    return z3.Select(obj.fields["val"], k)
                return None
            return z3.If(z3.Select(obj.fields["has"], k), z3.Select(obj.fields["val"], k), zint(d))
        if name == "setdefault":
            k = zint(args[0])
            d = zint(args[1])
            had = z3.Select(obj.fields["has"], k)
            res = z3.If(had, z3.Select(obj.fields["val"], k), d)
            self.setitem(en, obj, k, res)
            return res
        raise Unsupported(f"dict.{name} on symbolic dict")

    def havoc(self, en, obj, name):
        obj.fields["has"] = z3.Array(en.fresh(name + ".has", "int").decl().name(), z3.IntSort(), z3.BoolSort())
        obj.fields["val"] = en.fresh(name + ".val", "arr")
        obj.fields["lo"] = en.fresh(name + ".lo", "int")
        obj.fields["hi"] = en.fresh(name + ".hi", "int")


INTDICT = IntDictModel()


def intdict_maker(en, name, **kw):
    f = {
        "has": z3.Array(name + ".has", z3.IntSort(), z3.BoolSort()),
        "val": z3.Array(name + ".val", z3.IntSort(), z3.IntSort()),
        "lo": z3.Int(name + ".lo"),
        "hi": z3.Int(name + ".hi"),
    }
    return ObjV(dict, f, model=INTDICT)
