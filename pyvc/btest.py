"""Run the bounded (native) contracts of one spec module on the real code and print failures.
usage:  .venv/bin/python -m pyvc.btest specs.b_xxx [--thorough] [--target substr]
Environment: PYVC_REPO=<scratch copy of /repo> to run against a modified tree."""
import importlib, os, sys, time
REPO = os.environ.get("PYVC_REPO", "/repo")
sys.path.insert(0, os.path.join(REPO, "src"))
sys.path.insert(0, os.path.dirname(os.path.dirname(os.path.abspath(__file__))))
from pyvc import native
from pyvc.spec import REGISTRY


def main():
    mod = sys.argv[1]
    thorough = "--thorough" in sys.argv
    only = sys.argv[sys.argv.index("--target") + 1] if "--target" in sys.argv else None
    importlib.import_module(mod)
    count = 8000 if thorough else 200
    bad = 0
    for target, con in REGISTRY.items():
        if con.bounded is None or (only and only not in target):
            continue
        if con.__dict__.get("_module", mod) != mod and False:
            continue
        t0 = time.time()
        n = 0
        fails = {}
        for sc in [dict(g) for g in con.sigs]:
            for argvals in native.sample_inputs(con, sc, count, seed=int(os.environ.get("VERIF_SEED", "0"))):
                nr = native.native_eval(con, argvals)
                if not nr.in_domain:
                    continue
                n += 1
                for lab, detail in nr.failures:
                    fails.setdefault(lab, []).append((repr(argvals)[:300], detail[:300], (nr.outcome or "")[:200]))
        print(f"{target}: {n} evaluations, {sum(len(v) for v in fails.values())} failures in {time.time()-t0:.1f}s "
              f"[{con.bounded.get('scope','')[:80]}]")
        for lab, lst in fails.items():
            bad += 1
            print(f"   FAIL {lab}: {len(lst)} inputs; first: {lst[0]}")
    return 1 if bad else 0


if __name__ == "__main__":
    sys.exit(main())
