#!/usr/bin/env python3
"""Run a command against a scratch copy of /repo/src with one textual substitution applied.
usage: mutrun.py <relpath under src/odfdo> <old> <new> -- cmd...   (cmd sees PYVC_REPO=<scratch>)"""
import os, shutil, subprocess, sys, tempfile
rel, old, new = sys.argv[1:4]
cmd = sys.argv[5:]
tmp = tempfile.mkdtemp(prefix="pyvc_mut_")
try:
    shutil.copytree("/repo/src", tmp + "/src", ignore=shutil.ignore_patterns("__pycache__"))
    p = f"{tmp}/src/odfdo/{rel}"
    s = open(p).read()
    if s.count(old) != 1:
        print(f"substitution matches {s.count(old)} times", file=sys.stderr); sys.exit(9)
    open(p, "w").write(s.replace(old, new))
    env = dict(os.environ, PYVC_REPO=tmp, PYTHONPATH=tmp + "/src", PYVC_OUT_DIR=tmp + "/out")
    sys.exit(subprocess.call(cmd, env=env))
finally:
    shutil.rmtree(tmp, ignore_errors=True)
