#!/usr/bin/env python3
"""Regenerate MANIFEST.json from tools/manifest_src.py (single source for the claims)."""
import json, os, sys
sys.path.insert(0, os.path.dirname(os.path.abspath(__file__)))
import manifest_src as M
root = os.path.dirname(os.path.dirname(os.path.abspath(__file__)))
checks = []
for pid, c in sorted(M.CHECKS.items()):
    checks.append({
        "property_id": pid,
        "quick_cmd": f"./check {pid} --tier quick",
        "thorough_cmd": f"./check {pid} --tier thorough",
        "evidence_file": f"/verif/evidence/{pid}.json",
        "replay_cmd_template": "./check replay {path}",
        "engine": "pyvc",
        "level_claimed": {"category": "proof", "text": c["text"], "design_ref": c.get("design_ref", "DESIGN.md §4 " + pid)},
        "level_note": c["note"],
        "technique": c["technique"],
    })
man = {
    "version": 1,
    "setup_cmd": "./setup.sh",
    "hooks": M.HOOKS,
    "engines": [{"name": "pyvc", "path": "/verif/pyvc", "serves_properties": sorted(M.CHECKS),
                 "kind_free_text": "verification-condition generator over the real Python ASTs of /repo (re-read on every run) "
                                   "with sidecar contracts in /verif/specs; obligations discharged by z3 5.1 and cvc5"}],
    "checks": checks,
    "not_applicable": [{"property_id": p, "reason": r} for p, r in sorted(M.NOT_APPLICABLE.items())],
    "notes": M.NOTES,
}
json.dump(man, open(os.path.join(root, "MANIFEST.json"), "w"), indent=1)
print("wrote MANIFEST.json:", len(checks), "checks,", len(man["not_applicable"]), "not_applicable")
