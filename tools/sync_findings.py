#!/usr/bin/env python3
"""Merge the FINDINGS lists of the bounded modules into known_findings.json.

For each finding the witness is run on the current /repo tree: REPRODUCED=True -> a `known` entry
(matched by the clause labels of the bounded contract), REPRODUCED=False -> reported (already fixed).
Never run by the checks; a maintenance tool, its output is committed."""
import importlib, json, os, re, sys
ROOT = os.path.dirname(os.path.dirname(os.path.abspath(__file__)))
sys.path.insert(0, "/repo/src"); sys.path.insert(0, ROOT)
mods = sys.argv[1:] or ["specs.b_text", "specs.b_package", "specs.b_values", "specs.b_elements", "specs.b_tables"]
kf = json.load(open(os.path.join(ROOT, "known_findings.json")))
kf["known"] = [k for k in kf["known"] if k.get("module") not in mods]
for m in mods:
    mod = importlib.import_module(m)
    for n, f in enumerate(getattr(mod, "FINDINGS", [])):
        env = {}
        try:
            exec(compile(f["witness"], f"<witness {m}#{n}>", "exec"), env)
            rep = bool(env.get("REPRODUCED"))
        except Exception as e:  # noqa
            rep = False
            print(f"  witness crashed {m}#{n}: {e!r}")
        labels = list(f.get("clauses") or [])
        labels += re.findall(r"ensures:([^\s,()]+)", f.get("clause", ""))
        labels = sorted({("ensures:" + x if not x.startswith("ensures:") else x) for x in labels})
        props = f.get("properties") or [f["property"]]
        if not rep:
            print(f"  not reproduced (fixed): {m}#{n} {f['target']} {labels}")
            continue
        for pid in props:
            kf["known"].append({
                "id": f"KF-{pid}-{m.split('.')[-1]}-{n}", "property": pid, "module": m, "function": f["target"],
                "labels": labels, "what_fails": " ".join((f["what_fails"] + f" (clause labels {', '.join(labels)} of {m}; {f['target']})").split()),
                "witness": f["witness"]})
        print(f"  known: {m}#{n} {props} {labels}")
json.dump(kf, open(os.path.join(ROOT, "known_findings.json"), "w"), indent=1, ensure_ascii=False)
