#!/usr/bin/env python3
"""Self test of pyvc.effects: ground truth on the unchanged tree + three mutants.

usage: tools/effects_selftest.py            full self test (baseline + mutants through tools/mutrun.py)
       tools/effects_selftest.py --probe    print the probe verdicts of $PYVC_REPO (or /repo) as JSON
"""
import json
import os
import subprocess
import sys

HERE = os.path.dirname(os.path.abspath(__file__))
ROOT = os.path.dirname(HERE)
sys.path.insert(0, ROOT)

from pyvc.effects import EMPTY, FS, KNOWN_FINDINGS, Analysis  # noqa: E402

PY = sys.executable
NEW_NONE = FS({("new", "None")})

# key -> expected verdict of the default run on the current (fixed) tree
PROBES = {
    "element:Element.get_elements": (EMPTY, "pure"),
    "element:Element.get_attribute": (EMPTY, "pure"),
    "table:Table.get_values": (EMPTY, "pure"),
    "table:Table.get_value": (EMPTY, "pure"),
    "row:Row.get_cell": (EMPTY, "pure"),
    "element:Element.serialize": (EMPTY, "pure"),
    "table:Table.get_formatted_text": (EMPTY, "pure"),
    "paragraph:Paragraph.__str__": (EMPTY, "pure"),
    "element:Element.search": (EMPTY, "pure"),
    "element:Element.replace": (NEW_NONE, "pure"),
    # must NOT be pure
    "element:Element.replace#generic": (EMPTY, "may-mutate"),
    # only recomputes the Python-side caches (_rmap, _indexes) in this version: XML-pure
    "row:Row.minimized_width": (EMPTY, "pure"),
    "row:Row.force_width": (EMPTY, "may-mutate"),
    "row:Row.rstrip": (EMPTY, "may-mutate"),
    "table:Table.optimize_width": (EMPTY, "may-mutate"),
    "element:Element.set_attribute": (EMPTY, "may-mutate"),
    "element:Element.delete": (EMPTY, "may-mutate"),
    "element:Element.get_variable_decls": (EMPTY, "may-mutate"),
    # fixed upstream: pretty printing works on a deepcopy, Markdown export on a clone,
    # MetaAutoReload/MetaTemplate only write under `if self._do_init:`
    "xmlpart:XmlPart.serialize": (EMPTY, "pure"),
    "document:Document.to_markdown": (EMPTY, "pure"),
    "mixin_md:MDTable._md_format": (EMPTY, "pure"),
    "document:Document.clone": (EMPTY, "pure"),
    "table:Table.get_columns": (EMPTY, "pure"),
    "table:Table.get_cell": (EMPTY, "may-mutate"),
}
PRIMARY = {  # constructor wrapping an existing node must not write any more
    "meta_auto_reload:MetaAutoReload.__init__": "pure",
}


def probe(strict=False, primary=False):
    an = Analysis(strict_tostring=strict)
    names = PRIMARY if primary else PROBES
    for name in names:
        spec = EMPTY if primary else PROBES[name][0]
        an.summary((name.split("#")[0], spec), None)
    an.run()
    out = {}
    for name in names:
        spec = EMPTY if primary else PROBES[name][0]
        q = name.split("#")[0]
        if name == "meta_auto_reload:MetaAutoReload.__init__":
            spec = FS({("@wrap", ""), ("delay", "None")})
            an.summary((q, spec), None)
            an.run_fixpoint()
        v, chain = an.verdict_of_key((q, spec))
        out[name] = [v, [f"{c['fn']}:{c['line']}" for c in chain] + ([chain[-1]["what"]] if chain else [])]
    return out


MUTANTS = [
    ("a", "table.py", "        table = self.clone\n", "        table = self\n",
     {"table:Table.get_formatted_text": "may-mutate"}, False),
    ("b", "element.py", "native = deepcopy(self.__element)", "native = self.__element",
     {"element:Element.serialize": "pure"}, False),
    ("b-strict", "element.py", "native = deepcopy(self.__element)", "native = self.__element",
     {"element:Element.serialize": "may-mutate"}, True),
    ("c", "element.py", "                count += len(cpattern.findall(str(text)))\n",
     "                count += len(cpattern.findall(str(text)))\n                text.parent.text = \"\"\n",
     {"element:Element.replace": "may-mutate"}, False),
]


def main():
    if "--probe" in sys.argv:
        print(json.dumps(probe(strict="--strict" in sys.argv, primary="--primary" in sys.argv)))
        return 0
    ok = True
    base = probe()
    print("== baseline (default run, nothing assumed)")
    for name, (spec, want) in PROBES.items():
        got = base[name][0]
        good = got == want
        ok &= good
        print(f"  {'ok ' if good else 'BAD'} {name:<42} want {want:<10} got {got:<10} {' -> '.join(base[name][1][-3:])}")
    prim = probe(primary=True)
    print("== baseline, constructors under @wrap")
    for name, want in PRIMARY.items():
        got = prim[name][0]
        good = got == want
        ok &= good
        print(f"  {'ok ' if good else 'BAD'} {name:<42} want {want:<10} got {got:<10} {' -> '.join(prim[name][1][-3:])}")
    sbase = None
    for mid, rel, old, new, expect, strict in MUTANTS:
        cmd = [PY, os.path.join(HERE, "mutrun.py"), rel, old, new, "--", PY, os.path.abspath(__file__), "--probe"]
        if strict:
            cmd.append("--strict")
            if sbase is None:
                sbase = probe(strict=True)
        r = subprocess.run(cmd, capture_output=True, text=True, cwd=ROOT)
        if r.returncode != 0:
            print(f"== mutant ({mid}) FAILED to run: {r.stderr[-400:]}")
            ok = False
            continue
        got = json.loads(r.stdout.strip().splitlines()[-1])
        ref = sbase if strict else base
        flips = {k: (ref[k][0], got[k][0]) for k in got if got[k][0] != ref[k][0]}
        print(f"== mutant ({mid}) {rel}: flips = {flips}")
        for k, want in expect.items():
            good = got[k][0] == want
            ok &= good
            print(f"  {'ok ' if good else 'BAD'} {k:<42} want {want:<10} got {got[k][0]:<10} {' -> '.join(got[k][1][-3:])}")
    print("SELFTEST", "PASSED" if ok else "FAILED")
    return 0 if ok else 1


if __name__ == "__main__":
    sys.exit(main())
