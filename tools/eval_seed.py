#!/usr/bin/env python3
"""Evaluate one seeded breaking change:  eval_seed.py <PID> <variant> [--props C01,C02]
 1. scratch worktree of /repo HEAD under /tmp, apply /tmp/seeds/<PID>/<variant>.diff
 2. demo passes on the unchanged tree and fails on the changed one
 3. the repository's own test suite passes with the change
 4. ./check <prop> (quick) against the changed tree (PYVC_REPO) for each listed property
 5. writes /verif/seeded/<PID>_<variant>/{patch.diff, demo.py, meta.json}; removes the worktree"""
import json, os, shutil, subprocess, sys, time
pid, var = sys.argv[1], sys.argv[2]
props = [pid]
if "--props" in sys.argv:
    props = sys.argv[sys.argv.index("--props") + 1].split(",")
src = f"/tmp/seeds/{pid}"
wt = f"/tmp/ev_{pid}_{var}"
VERIF = os.environ.get("VERIF_DIR", "/verif")       # the (snapshot of the) verification tree whose checks are run
out = f"/verif/seeded/{pid}_{var}"
os.makedirs(out, exist_ok=True)
meta = {"property": pid, "variant": var, "checked_properties": props, "ran": []}
# earlier evaluations of the same change (older snapshots of /verif) are kept: a miss that led to a stronger check stays visible
if os.path.exists(f"{out}/meta.json"):
    try:
        old = json.load(open(f"{out}/meta.json"))
        meta["history"] = old.get("history", []) + [{"verif_commit": old.get("verif_commit"), "detected": old.get("detected")}]
    except Exception:
        pass
def run(cmd, **kw):
    t0 = time.time()
    p = subprocess.run(cmd, shell=True, capture_output=True, text=True, **kw)
    meta["ran"].append({"cmd": cmd, "rc": p.returncode, "s": round(time.time() - t0, 1)})
    return p
subprocess.run(f"git -C /repo worktree remove --force {wt}", shell=True, capture_output=True)
run(f"git -C /repo worktree add --detach {wt} HEAD")
try:
    p = run(f"git -C {wt} apply {src}/{var}.diff")
    if p.returncode != 0:
        meta["error"] = "patch does not apply: " + p.stderr[:300]
        raise SystemExit
    shutil.copy(f"{src}/{var}.diff", f"{out}/patch.diff")
    shutil.copy(f"{src}/demo_{var}.py", f"{out}/demo.py")
    d0 = run(f"PYTHONPATH=/repo/src /venv/bin/python {src}/demo_{var}.py", timeout=900)
    d1 = run(f"PYTHONPATH={wt}/src /venv/bin/python {src}/demo_{var}.py", timeout=900)
    meta["demo_unchanged_rc"], meta["demo_changed_rc"] = d0.returncode, d1.returncode
    meta["demo_changed_output"] = (d1.stdout + d1.stderr)[-600:]
    t = run(f"cd {wt} && PYTHONPATH={wt}/src /venv/bin/python -m pytest -q -p no:cacheprovider --timeout=900 -q -x 2>&1 | tail -3", timeout=2400)
    meta["tests_tail"] = t.stdout[-300:]
    meta["tests_pass"] = ("failed" not in t.stdout and "error" not in t.stdout.lower()) and t.returncode == 0
    meta["detected"] = {}
    for pr in props:
        c = run(f"cd {VERIF} && PYVC_REPO={wt} PYVC_OUT_DIR=/tmp/ev_out_{pid}_{var} ./check {pr} --tier quick", timeout=3000)
        meta["verif_commit"] = subprocess.run(f"git -C {VERIF} rev-parse --short HEAD", shell=True, capture_output=True, text=True).stdout.strip()
        lines = [l for l in c.stdout.splitlines() if l.startswith("VIOLATION")]
        meta["detected"][pr] = {"exit": c.returncode, "violations": len(lines),
                                "first": [l[:300] for l in lines[:4]], "summary": c.stdout.strip().splitlines()[-1][:300] if c.stdout.strip() else c.stderr[-300:]}
    nf = next((f for f in (f"{src}/notes_{var}.md", f"{src}/notes_ef.md" if var in "ef" else "", f"{src}/notes.md")
               if f and os.path.exists(f)), "")
    notes = open(nf).read() if os.path.exists(nf) else ""
    meta["needs_to_manifest"] = notes[:3000]
finally:
    subprocess.run(f"git -C /repo worktree remove --force {wt}", shell=True, capture_output=True)
    # evidence files were rewritten against the changed tree: the caller re-runs the checks on /repo afterwards
    json.dump(meta, open(f"{out}/meta.json", "w"), indent=1)
    print(json.dumps({k: meta.get(k) for k in ("property", "variant", "demo_unchanged_rc", "demo_changed_rc", "tests_pass", "detected", "error")}, indent=1)[:1500])
