HOOKS = {
    "guard": "ODFDO_VERIF",
    "enable": "none: contracts are sidecars under /verif/specs and the source is read with ast, never instrumented",
    "baseline_off_cmd": "cd /repo && /venv/bin/python -m pytest -ra -q -p no:cacheprovider --timeout=900 --continue-on-collection-errors",
    "source_commits": [],
    "add_only": True,
}
NOTES = ("Contract-based deductive verification: pyvc generates VCs from the real source on every run; "
         "exit 0 = all obligations discharged, 1 = refuted obligation (VIOLATION, replayed natively where a "
         "counter-model exists), 2 = undecided, 3 = checker crash. See DESIGN.md.")
TB = ("z3 (5.1 wheel, 4.8.12 binary) / cvc5; the pyvc executor (guarded by the native cross-check of every contract on the real function and by "
      "mutant self-tests); assumed contracts of bisect / str methods on ASCII; Python ints exact.")
CHECKS = {
    "C01": dict(
        text="Position-map kernel of the run-length table model (insert_map_once, _erase_map_once, find_odf_idx) proved "
             "against pointwise run-length specs for all maps, indices and repeat counts; higher layers in progress.",
        note=TB, technique="contracts + VC generation from the real AST, z3"),
    "C19": dict(
        text="Column letters <-> numbers proved inverse for all n >= 0 (no bound) via a Horner-fold spec function; "
             "increment, translate_from_any and the table-level coordinate translation (negatives count from the current end) "
             "proved; agreement of the coordinate forms on cell / column-range / row-range reads and named-range addresses "
             "(write, read back, rename) are bounded stand-ins.",
        note=TB + " Character classes exact on ASCII inputs.", technique="contracts + loop invariants + spec-function lemmas, z3"),
}
CHECKS["C18"] = dict(
    text="Colour, boolean and duration codecs proved against spec functions for all inputs (hex2rgb incl. the rejection "
         "clause, rgb2hex, Boolean, Duration.encode over the full timedelta range with an IEEE-754 division model; "
         "round-trip lemmas); Duration.decode, Date/DateTime glue, Unit (lengths) and the CSS name table are bounded stand-ins.",
    note=TB + " datetime.isoformat/fromisoformat, Decimal assumed (sampled).",
    technique="contracts + spec-function lemmas discharged by z3/cvc5; labelled bounded stand-ins for stdlib glue")
CHECKS["C14"] = dict(
    text="make_xpath_query proved to paste a well-formed XPath literal for every identifier without a double quote, for "
         "each identifier keyword; identifiers with a double quote are a listed known finding.",
    note=TB + " lxml's XPath evaluator assumed.", technique="string VCs from the real AST, z3")
CHECKS["C06"] = dict(
    text="Type-lattice dispatch of ElementTyped.set_value_and_type and Meta.set_user_defined_metadata proved per Python "
         "type (bool before int, datetime before date; attribute written per ODF value type); codecs via C18 contracts.",
    note=TB + " Element.get/set/del_attribute modelled as an attribute map (assumed thin lxml wrappers).",
    technique="symbolic execution over an attribute-map model, one case per type, z3")
CHECKS["C02"] = dict(
    text="Representation invariant (maps = prefix sums of the XML repeats, caches coherent or reset) proved as a "
         "postcondition of the vault-level mutators and of the Row- and Table-level operations built on them, for all "
         "run-length states; Table.get_value / get_cell proved to return the content located by the row map and the row's "
         "cell map (what a fresh parse computes); live `row.repeated = n` and the overlap class are listed known findings.",
    note=TB + " lxml child-list operations as an abstract sequence model (flat table layout).",
    technique="representation invariant + abstract view, VCs from the real AST, z3")
CHECKS["C07"] = dict(
    text="Map/repeat consistency clauses of the vault invariant proved for set/insert/delete of items of all three kinds and "
         "for the Row- and Table-level operations built on them; repeat attributes written absent or as a canonical integer >= 2.",
    note=TB + " lxml child-list operations as an abstract sequence model (flat table layout).",
    technique="representation invariant, VCs from the real AST, z3")
BND = " Bounded stand-ins (specs/b_*.py, labelled bounded in the evidence, never counted as proved) cover the API-level behaviour over stated small scopes."
CHECKS["C01"]["text"] = ("Run-length vault layer proved for all states: map kernel, set/insert/delete of an item in a Row or Table vault "
    "(invariant, pointwise grid view, length, exact abstract operation), and the Row-level cell operations on top of them "
    "and the Table-level row operations (append_column, append_row with columns, set_row, insert_row, delete_row, the row "
    "getters, get_value / get_cell read through both position maps) on top of them, by modular use of the proved contracts; "
    "clone=True stores a copy (argument stays outside the container); the overlap input class of set is a listed known "
    "finding; Table.set_cell / set_value, append_row on a table without columns and the range getters are bounded stand-ins." )
CHECKS["C01"]["note"] = TB + " lxml child-list operations as an abstract sequence model (flat table layout)." + BND
CHECKS["C02"]["note"] += BND
CHECKS["C07"]["note"] += BND
CHECKS["C05"] = dict(
    text="text:s encoding proved against the raw lxml attribute model (count attribute written only for >= 2, length and "
         "text read it back); the paragraph pipeline (append_plain_text, splits, re-parse, white-space normal form) is a bounded stand-in.",
    note=TB + BND, technique="contracts over an lxml attribute model, z3; bounded native contracts for the lxml pipeline")
CHECKS["C08"] = dict(
    text="Row getters proved for all run-length states: content at the addressed position, x/y stamps, detached copy when "
         "cloning or reading outside, no growth (frame), invariant kept; the Table-level row getters and Table.get_cell "
         "likewise (content of the grid position, stamps); vault results are fresh nodes (exact clause); range getters bounded.",
    note=TB + BND, technique="postconditions + freshness over the abstract XML model, z3")
CHECKS["C10"] = dict(
    text="No-alias clauses of the map kernel (returned list fresh or the argument itself, argument untouched), clone-or-"
         "argument identity of the nodes inserted by the vault operations, detached copies of the Row getters and the "
         "stores-by-copy clause of set/insert/append (clone=True) proved; Document.clone over packagings and load states, "
         "XmlPart.clone and Element.clone (clones of clones, absolute paths) bounded.",
    note=TB + BND, technique="heap identity / freshness clauses in the VC generator, z3")
CHECKS["C11"] = dict(
    text="Frame condition: the serialisation / pretty-printing entry points of XmlPart do not modify the in-memory trees "
         "(modular effect inference over the real AST); layout-only equivalence of the saves is a bounded stand-in.",
    note="effect inference assumptions (closed world, lxml base facts)." + BND,
    technique="modular effect (frame) inference with function summaries; bounded native contracts")
CHECKS["C12"] = dict(
    text="Attribute machinery proved against the raw lxml attribute model: Element.get/set/del_attribute and "
         "get_attribute_string for str/bool/None values, repeat-attribute setters and getters; registry, constructors and access paths bounded.",
    note=TB + BND, technique="contracts over an lxml attribute model, z3; bounded native contracts over the real registry")
CHECKS["C15"] = dict(
    text="modifies(XML trees) = {} proved for 304 of 307 mechanically enumerated read-only entry points by a modular "
         "effect inference (function summaries, fixpoint); the 3 others are listed (two are a known finding); plus bounded replay.",
    note="effect inference assumptions (closed world, lxml base facts)." + BND,
    technique="modular effect (frame) inference with function summaries")
CHECKS["C20"] = dict(
    text="The numbering function of the TOC and of the heading-listing tool proved against the outline-numbering spec "
         "with a symbolic-key dict model and loop invariants (same contract on both); TOC.fill itself is a bounded stand-in.",
    note=TB + BND, technique="contracts + loop invariants over a dict model, z3")
CHECKS["C03"] = dict(
    text="Part bookkeeping proved on the package model: Document.set_part makes the given bytes what save() writes (no "
         "parsed tree stays cached), del_part refuses mandatory parts; save / reopen round trips over templates, samples, "
         "edit histories and packagings are a bounded stand-in.",
    note=TB + " zipfile, filesystem, lxml parse/serialise assumed." + BND,
    technique="contracts over a package model (ghost logs), VC generation from the real AST; bounded native contracts")
CHECKS["C04"] = dict(
    text="Manifest coherence kernel proved: add_full_path lists a path exactly once for every entry list (no duplicates "
         "preserved), del_part removes the manifest entry with the part; zip layout and full coherence after histories bounded.",
    note=TB + " XPath lookups over the manifest assumed (their literals are C14's contract)." + BND,
    technique="contracts over an entry-list model, z3; bounded native contracts")
CHECKS["C09"] = dict(
    text="Offset arithmetic of markup insertion proved for all text-node lists and positions (the offset is split into "
         "node + inner offset, count + pos = position, bounds, ValueError exactly beyond the text) with a prefix-sum spec "
         "function and a monotonicity lemma; the lxml-facing insert/remove pipelines are bounded stand-ins.",
    note=TB + " lxml XPath text() order assumed." + BND, technique="loop invariant + spec-function lemma, z3; bounded native contracts")
CHECKS["C13"] = dict(
    text="Generated automatic style names proved never to collide with an existing name of the family (loop invariant over "
         "all name lists); container dispatch, uniqueness and merge are bounded stand-ins.",
    note=TB + " one string-theory fact assumed (str.from_int yields digits); get_styles (XPath) assumed." + BND,
    technique="loop invariant over a string list, z3; bounded native contracts")
CHECKS["C16"] = dict(
    text="Counting form of replace() proved: the result is the sum over the individual text runs of the per-run match "
         "counts, for all run lists (re.findall abstract); replacement and search behaviour are bounded stand-ins.",
    note=TB + " re assumed." + BND, technique="loop invariant + prefix-sum spec function, z3; bounded native contracts")
CHECKS["C17"] = dict(
    text="Row.rstrip proved for all run-length rows: removes exactly the maximal suffix of empty cells, every remaining "
         "cell keeps node, repeat and content, invariant re-established through make_cache_map (also proved); transpose, "
         "optimize_width, spans and CSV export / import (values as CSV can carry them; the inputs on which csv.Sniffer guesses "
         "another delimiter are a listed known finding) are bounded stand-ins.",
    note=TB + BND, technique="loop invariants over the abstract XML model, z3; bounded native contracts")
NOT_APPLICABLE = {p: "not yet under contract in this revision (work in progress; see DESIGN.md §4 for the plan)"
                  for p in []}
