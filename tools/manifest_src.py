HOOKS = {
    "guard": "ODFDO_VERIF",
    "enable": "none: contracts are sidecars under /verif/specs and the source is read with ast, never instrumented",
    "baseline_off_cmd": "cd /repo && /venv/bin/python -m pytest -ra -q -p no:cacheprovider --timeout=900 --continue-on-collection-errors",
    "source_commits": [],
    "add_only": True,
}
NOTES = ("Contract-based deductive verification: pyvc generates VCs from the real source on every run; "
         "exit 0 = all obligations discharged, 1 = refuted obligation (VIOLATION, replayed natively where a "
         "counter-model exists), 2 = undecided, 3 = checker crash. See DESIGN.md.")
TB = ("z3/cvc5; the pyvc executor (guarded by the native cross-check of every contract on the real function and by "
      "mutant self-tests); assumed contracts of bisect / str methods on ASCII; Python ints exact.")
CHECKS = {
    "C01": dict(
        text="Position-map kernel of the run-length table model (insert_map_once, _erase_map_once, find_odf_idx) proved "
             "against pointwise run-length specs for all maps, indices and repeat counts; higher layers in progress.",
        note=TB, technique="contracts + VC generation from the real AST, z3"),
    "C19": dict(
        text="Column letters <-> numbers proved inverse for all n >= 0 (no bound) via a Horner-fold spec function; "
             "increment proved with a loop invariant and variant; remaining addressing forms in progress.",
        note=TB + " Character classes exact on ASCII inputs.", technique="contracts + loop invariants + spec-function lemmas, z3"),
}
NOT_APPLICABLE = {p: "not yet under contract in this revision (work in progress; see DESIGN.md §4 for the plan)"
                  for p in ["C02", "C03", "C04", "C05", "C06", "C07", "C08", "C09", "C10", "C11", "C12", "C13", "C14",
                            "C15", "C16", "C17", "C18", "C20"]}
