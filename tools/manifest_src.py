HOOKS = {
    "guard": "ODFDO_VERIF",
    "enable": "none: contracts are sidecars under /verif/specs and the source is read with ast, never instrumented",
    "baseline_off_cmd": "cd /repo && /venv/bin/python -m pytest -ra -q -p no:cacheprovider --timeout=900 --continue-on-collection-errors",
    "source_commits": [],
    "add_only": True,
}
NOTES = ("Contract-based deductive verification: pyvc generates VCs from the real source on every run; "
         "exit 0 = all obligations discharged, 1 = refuted obligation (VIOLATION, replayed natively where a "
         "counter-model exists), 2 = undecided, 3 = checker crash. See DESIGN.md.")
TB = ("z3/cvc5; the pyvc executor (guarded by the native cross-check of every contract on the real function and by "
      "mutant self-tests); assumed contracts of bisect / str methods on ASCII; Python ints exact.")
CHECKS = {
    "C01": dict(
        text="Position-map kernel of the run-length table model (insert_map_once, _erase_map_once, find_odf_idx) proved "
             "against pointwise run-length specs for all maps, indices and repeat counts; higher layers in progress.",
        note=TB, technique="contracts + VC generation from the real AST, z3"),
    "C19": dict(
        text="Column letters <-> numbers proved inverse for all n >= 0 (no bound) via a Horner-fold spec function; "
             "increment proved with a loop invariant and variant; remaining addressing forms in progress.",
        note=TB + " Character classes exact on ASCII inputs.", technique="contracts + loop invariants + spec-function lemmas, z3"),
}
CHECKS["C18"] = dict(
    text="Colour, boolean and duration codecs proved against spec functions for all inputs (hex2rgb incl. the rejection "
         "clause, rgb2hex, Boolean, Duration.encode over the full timedelta range with an IEEE-754 division model; "
         "round-trip lemmas); Duration.decode, Date/DateTime glue and the CSS name table are bounded stand-ins.",
    note=TB + " datetime.isoformat/fromisoformat, Decimal assumed (sampled).",
    technique="contracts + spec-function lemmas discharged by z3/cvc5; labelled bounded stand-ins for stdlib glue")
CHECKS["C14"] = dict(
    text="make_xpath_query proved to paste a well-formed XPath literal for every identifier without a double quote, for "
         "each identifier keyword; identifiers with a double quote are a listed known finding.",
    note=TB + " lxml's XPath evaluator assumed.", technique="string VCs from the real AST, z3")
CHECKS["C06"] = dict(
    text="Type-lattice dispatch of ElementTyped.set_value_and_type and Meta.set_user_defined_metadata proved per Python "
         "type (bool before int, datetime before date; attribute written per ODF value type); codecs via C18 contracts.",
    note=TB + " Element.get/set/del_attribute modelled as an attribute map (assumed thin lxml wrappers).",
    technique="symbolic execution over an attribute-map model, one case per type, z3")
CHECKS["C02"] = dict(
    text="Representation invariant (maps = prefix sums of the XML repeats, caches coherent or reset) proved as a "
         "postcondition of the vault-level mutators for all run-length states; higher layers in progress.",
    note=TB + " lxml child-list operations as an abstract sequence model (flat table layout).",
    technique="representation invariant + abstract view, VCs from the real AST, z3")
CHECKS["C07"] = dict(
    text="Map/repeat consistency clauses of the vault invariant proved for set/insert/delete of items of all three kinds.",
    note=TB + " lxml child-list operations as an abstract sequence model (flat table layout).",
    technique="representation invariant, VCs from the real AST, z3")
NOT_APPLICABLE = {p: "not yet under contract in this revision (work in progress; see DESIGN.md §4 for the plan)"
                  for p in ["C03", "C04", "C05", "C08", "C09", "C10", "C11", "C12", "C13",
                            "C15", "C16", "C17", "C20"]}
