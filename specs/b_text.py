"""Bounded native contracts for the text layer: C05 (paragraph text round trip and ODF white-space normal
form), C09 (markup insertion / removal keeps the surrounding text), C16 (search / replace act as the regex says).

Labelled bounded stand-ins (DESIGN.md section 2.9): never counted as proved.  Every oracle below works on the raw
lxml tree (``obj._Element__element`` or an independent ``lxml.etree.fromstring`` of the serialisation) and on the
plain ``re`` module; none of them calls the odfdo API under check.

Oracles
  * ``_odf_collapse``   ODF 1.2 section 6.1.2 steps 1-4 over the character data of a paragraph-like element, with
                        text:s / text:tab / text:line-break as non-space placeholders, then expanded.
  * ``_proj`` / ``_layout``   readable-text projection: text and tails in document order, text:s -> c spaces,
                        text:tab -> TAB, text:line-break -> LF, note / annotation bodies and marks -> nothing.
  * ``_runs``           the text runs (every non-empty .text / .tail string below an element) in document order.

Labelled sub-domains.  A clause whose violation on the unchanged tree is a confirmed defect of odfdo (see FINDINGS)
keeps its statement, but the inputs on which that defect shows carry a label suffix (``_neg_offset``, ``_pair``,
``_annot_pair``, ``_ws``, ``_tail``, ``_link``, ``_stale``), so that the un-suffixed labels pass on the unchanged
tree and any failure of an un-suffixed label is news.  The suffix is decided from the *input* only.

Self-test (tools/mutrun.py, quick tier; "caught" = a label that passes on the unchanged tree fails); the full
record with the exact edits is the list ``MUTANTS`` at the end of this module.
kills (C05): Spacer(len(item) - 1) -> Spacer(len(item)); _re_spaces_split "( +)" -> "( )"; first-run Spacer dropped;
  Spacer(len(last_item)) -> len(last_item) - 1; Spacer "number >= 2" -> "> 2"; 'obj.tail = ""' dropped in
  _expand_spaces; LineBreak() -> Tab() for "\n".
  missed, equivalent: keep_tail=False -> True in append_plain_text (tails are already ''); _re_only_spaces "^ +$" -> "^ +".
kills (C09): _insert text[pos:] -> text[pos + 1:]; text[:pos] -> text[:pos + 1]; offset scan "<=" -> "<";
  delete(): "prev.tail += tail" dropped, "prev is not None" negated, "parent text is None" negated; _by_regex_offset:
  is_text branches swapped, tail = text_str[end + 1:] (both branches), min(length, len(text) - 1), finditer not
  reversed; set_span "span.tail = tail" dropped; _insert_find_text ">=" -> ">"; _search_positive_position index
  [position]; before/after swapped in _insert_before_after; _strip_tags tail dropped.
kills (C16): count += number -> count = number; is_text branches swapped in replace; findall on inner_text instead of
  per node; subn(..., 1); search returns match.end(); text_at end clamp off by one; search_first on self.text.
"""
import itertools as _it
import re as _re

from lxml import etree as _et

from pyvc.native import NativeResult
from pyvc.spec import Clause, Int, Opaque, Str, contract

NS = {
    "text": "urn:oasis:names:tc:opendocument:xmlns:text:1.0",
    "office": "urn:oasis:names:tc:opendocument:xmlns:office:1.0",
    "xlink": "http://www.w3.org/1999/xlink",
    "dc": "http://purl.org/dc/elements/1.1/",
}
_T = "{%s}" % NS["text"]
_O = "{%s}" % NS["office"]
_XL = "{%s}" % NS["xlink"]
TAG_S, TAG_TAB, TAG_LB = _T + "s", _T + "tab", _T + "line-break"
TAG_P, TAG_H, TAG_SPAN, TAG_A = _T + "p", _T + "h", _T + "span", _T + "a"
TAG_NOTE, TAG_ANNOT, TAG_ANNOT_END = _T + "note", _O + "annotation", _O + "annotation-end"
# elements whose character data belongs to the paragraph (ODF 1.2 6.1.2 step 2: the schema permits character data
# for the element and all its ancestors up to the paragraph)
CHAR_CONTAINERS = {TAG_P, TAG_H, TAG_SPAN, TAG_A, _T + "this-will-be-removed"}
STYLE_ATTR = _T + "style-name"
HREF_ATTR = _XL + "href"
NAME_ATTR = _T + "name"


def _raw(obj):
    return obj._Element__element


def _parse(xml):
    """Independent parse of a serialisation (prefix form, no namespace declarations)."""
    decl = " ".join(f'xmlns:{k}="{v}"' for k, v in NS.items())
    return _et.fromstring(f"<r {decl}>{xml}</r>")[0]


def _ser(raw):
    """Independent canonical serialisation of a raw lxml element without its tail."""
    return _re.sub(r' xmlns:\w+="[^"]*"', "", _et.tostring(raw, with_tail=False, encoding="unicode"))


# ------------------------------------------------------------------ ODF 1.2 6.1.2 white-space interpreter
def _odf_tokens(raw, out):
    """Character data of `raw` in document order; white-space elements become placeholder tuples."""
    for ch in raw.text or "":
        out.append(ch)
    for child in raw:
        tag = child.tag
        if tag == TAG_S:
            out.append(("S", int(child.get(_T + "c", "1"))))
        elif tag == TAG_TAB:
            out.append(("T", 1))
        elif tag == TAG_LB:
            out.append(("L", 1))
        elif tag in CHAR_CONTAINERS:
            _odf_tokens(child, out)
        # any other element (notes, annotations, marks, fields): no character data of this paragraph
        for ch in child.tail or "":
            out.append(ch)
    return out


def _odf_collapse(raw):
    """What a conforming consumer displays for the paragraph-like element `raw`."""
    toks = _odf_tokens(raw, [])
    toks = [" " if t in ("\t", "\r", "\n") else t for t in toks]            # step 1
    while toks and toks[0] == " ":                                          # step 3 (leading)
        toks.pop(0)
    while toks and toks[-1] == " ":                                         # step 3 (trailing)
        toks.pop()
    res = []
    for t in toks:                                                          # step 4
        if t == " " and res and res[-1] == " ":
            continue
        res.append(t)
    out = []
    for t in res:
        if isinstance(t, tuple):
            out.append({"S": " " * t[1], "T": "\t", "L": "\n"}[t[0]])
        else:
            out.append(t)
    return "".join(out)


# ------------------------------------------------------------------ C05
C05_ALPHA = "a \t\n<é"


def _splits(n, ways):
    if ways == 2:
        return [(i,) for i in range(n + 1)]
    return [(i, j) for i in range(n + 1) for j in range(i, n + 1)]


def _pieces(s, cuts):
    idx = (0,) + tuple(cuts) + (len(s),)
    return [s[a:b] for a, b in zip(idx, idx[1:])]


def _gen_c05(con, sigcase, count, seed):
    maxlen = 4 if count <= 200 else 6
    for n in range(0, maxlen + 1):
        for tup in _it.product(C05_ALPHA, repeat=n):
            s = "".join(tup)
            for kind in ("p", "span", "h"):
                yield {"kind": kind, "s": s}


def _c05_make(kind, first):
    from odfdo import Header, Paragraph, Span
    if kind == "p":
        return Paragraph(first)
    if kind == "span":
        return Span(first)
    return Header(1, first)


def _call_c05(con, fn, argvals, labels):
    from odfdo import Element
    res = NativeResult()
    kind, s = argvals["kind"], argvals["s"]
    n = len(s)
    builds = [((), "new")]
    # splits are enumerated up to length 5 (the cost grows as n^2 * 6^n)
    if n <= 5:
        builds += [(c, "append" if c[0] % 2 else "append_plain_text") for c in _splits(n, 2)]
        builds += [(c, "append_plain_text" if (c[0] + c[1]) % 2 else "append") for c in _splits(n, 3)]
    seen = {}
    for cuts, mode in builds:
        pieces = _pieces(s, cuts)
        what = f"{kind} pieces={pieces!r} via {mode}"
        try:
            el = _c05_make(kind, pieces[0])
            for pc in pieces[1:]:
                getattr(el, mode)(pc)
            got = el.inner_text
            xml = el.serialize()
        except Exception as e:  # noqa
            res.checked += 1
            res.failures.append(("ensures:text", f"{what}: raised {e!r}"))
            continue
        res.checked += 1
        if got != s:
            res.failures.append(("ensures:text", f"{what}: inner_text {got!r} != {s!r}; xml {xml}"))
        if xml in seen:          # same XML already examined for this string: (b) and (c) depend on the XML only
            continue
        seen[xml] = True
        res.checked += 2
        try:
            back = Element.from_tag(xml)
            got2 = back.inner_text
            if got2 != s or type(back) is not type(el):
                res.failures.append(("ensures:reparse", f"{what}: after re-parse {got2!r} ({type(back).__name__}) "
                                                        f"!= {s!r}; xml {xml}"))
        except Exception as e:  # noqa
            res.failures.append(("ensures:reparse", f"{what}: re-parse of {xml} raised {e!r}"))
        try:
            shown = _odf_collapse(_parse(xml))
            live = _odf_collapse(_raw(el))
        except Exception as e:  # noqa
            res.failures.append(("ensures:odf_ws", f"{what}: {xml} not interpretable: {e!r}"))
            continue
        if shown != s or live != s:
            res.failures.append(("ensures:odf_ws", f"{what}: a consumer of {xml} shows {shown!r}, not {s!r}"))
    res.outcome = f"{len(builds)} builds, {len(seen)} distinct XML"
    # keep one failure per label (the first = the smallest split)
    first = {}
    for lab, det in res.failures:
        first.setdefault(lab, det)
    res.failures = list(first.items())
    return res


contract(
    "odfdo.paragraph:Paragraph|Span|Header text round trip",
    sig=dict(kind=Str, s=Str),
    ensures=[
        Clause("text", {"C05"}, lambda a, r, p: True),
        Clause("reparse", {"C05"}, lambda a, r, p: True),
        Clause("odf_ws", {"C05"}, lambda a, r, p: True),
    ],
    gen=_gen_c05, call_native=_call_c05,
    bounded=dict(
        scope="all strings over the alphabet {a, SPACE, TAB, LF, <, e-acute} up to length 4 (quick) / 6 (thorough) "
              "x {Paragraph, Span, Header(level 1)}; each built directly and (length <= 5) by every 2-way split "
              "and every 3-way split (empty pieces included), the pieces appended with append_plain_text or with "
              "append (alternating with the cut positions); clauses: inner_text == s; "
              "Element.from_tag(serialize()) has the same class and text; independent ODF 1.2 6.1.2 collapse of the produced XML == s",
        reason="the pipeline _expand_spaces/_merge_spaces/_replace_tabs_lb rebuilds lxml children; lxml-facing code "
               "is outside the executor's fragment"),
)


# ------------------------------------------------------------------ readable-text projection (C09, C16)
WS_TAGS = {TAG_S, TAG_TAB, TAG_LB}


def _layout(root):
    """(T, elems, runs) of the raw element `root`.
    T      readable text: text and tails in document order, text:s -> c spaces, text:tab -> TAB,
           text:line-break -> LF; elements that are not character containers (notes, annotations, marks) -> nothing
    elems  [(raw element, start, end)] for every element met, offsets in T
    runs   [(start, string)] for every non-empty text / tail string that is part of T, in document order"""
    buf, elems, runs = [], [], []
    pos = [0]

    def add(sv):
        buf.append(sv)
        pos[0] += len(sv)

    def walk(e):
        tag = e.tag
        if tag == TAG_S:
            add(" " * int(e.get(_T + "c", "1")))
        elif tag == TAG_TAB:
            add("\t")
        elif tag == TAG_LB:
            add("\n")
        elif tag in CHAR_CONTAINERS:
            if e.text:
                runs.append((pos[0], e.text))
                add(e.text)
            for ch in e:
                st = pos[0]
                walk(ch)
                elems.append((ch, st, pos[0]))
                if ch.tail:
                    runs.append((pos[0], ch.tail))
                    add(ch.tail)

    walk(root)
    return "".join(buf), elems, runs


def _proj(root):
    return _layout(root)[0]


def _canon(raw, with_tail=False):
    """Canonical nested-tuple form of a raw tree (None and '' text are the same)."""
    return (raw.tag, tuple(sorted(raw.attrib.items())), raw.text or "",
            tuple(_canon(c, True) for c in raw), (raw.tail or "") if with_tail else "")


def _frame(elems, is_new):
    """The old elements with their extent in the readable text (new elements and what they contain left out: a new
    span may encode a wrapped space as text:s)."""
    def inside_new(e):
        while e is not None:
            if is_new(e):
                return True
            e = e.getparent()
        return False
    return sorted(((e.tag, tuple(sorted(e.attrib.items())), st, en) for e, st, en in elems if not inside_new(e)),
                  key=lambda t: (t[2], t[3], t[0]))


def _has_ws(raw):
    return any(e.tag in WS_TAGS for e in raw.iter())


def _span_x(style, body):
    return f'<text:span text:style-name="{style}">{body}</text:span>'


def _link_x(url, body):
    return f'<text:a xlink:href="{url}">{body}</text:a>'


def _c09_paragraphs(texts, full):
    """Paragraph XML of the grammar: plain | one span | one link | text:s (c = 1, 2) | tab | bookmark | nestings."""
    seen = set()
    out = []

    def emit(body):
        xml = f"<text:p>{body}</text:p>"
        if xml not in seen:
            seen.add(xml)
            out.append(xml)

    for t in texts:
        n = len(t)
        emit(t)
        for i in range(n + 1):
            for j in range(i, n + 1):
                if not full and j - i not in (0, 1, 2, n):
                    continue
                emit(t[:i] + _span_x("old", t[i:j]) + t[j:])
                emit(t[:i] + _link_x("old", t[i:j]) + t[j:])
        for i in range(n + 1):
            emit(t[:i] + "<text:s/>" + t[i:])
            emit(t[:i] + '<text:s text:c="2"/>' + t[i:])
            emit(t[:i] + "<text:tab/>" + t[i:])
            emit(t[:i] + '<text:bookmark text:name="old"/>' + t[i:])
        if n >= 4:
            emit(t[:1] + _span_x("old", t[1:2] + _link_x("old", t[2:3]) + t[3:4]) + t[4:])
            emit(t[:1] + _link_x("old", _span_x("old", t[1:3])) + t[3:])
            emit(t[:1] + _span_x("old", t[1:2] + "<text:s/>" + t[2:3]) + t[3:])
            emit(t[:1] + _span_x("old", t[1:2]) + _link_x("old", t[2:3]) + t[3:])
            emit(_span_x("old", t[:2]) + "<text:tab/>" + _span_x("old2", t[2:]))
            emit(t[:2] + "<text:line-break/>" + t[2:3] + " " + "<text:s/>" + t[3:])
    return out


C09_REGEX = ["b", "ab", "bc", "[ab]", "[bc]+", "a+", "b+", "ab|c", "a|bc", "z", "x+|y"]


def _run_matches(runs, pattern):
    """Independent per-run matching: [(start in T, end in T)] in document order."""
    rx = _re.compile(pattern)
    out = []
    for st, sv in runs:
        for m in rx.finditer(sv):
            out.append((st + m.start(), st + m.end()))
    return out


def _run_of(runs, o):
    for st, sv in runs:
        if st <= o < st + len(sv):
            return st, st + len(sv)
    return None


# an expectation is one of
#   ("free",)                     only the text must be kept (no designated substring defined)
#   ("none",)                     nothing designated: untouched, or an exception without modification
#   ("wrap", [(start, text)...])  exactly these substrings are wrapped by new elements
#   ("mark", [(tag, pos)...])     exactly these empty new elements at these offsets of the readable text
#   ("at", pos)                   untouched / raised, or one new element starting at pos (offset on a white-space element)
def _expect_offset(T, runs, o, ln):
    if o < 0:
        return ("free",)
    if o >= len(T):
        return ("none",)
    run = _run_of(runs, o)
    if run is None:
        return ("at", o)
    end = run[1] if ln == 0 else min(o + ln, run[1])
    return ("wrap", [(o, T[o:end])])


def _c09_cases(op, T, runs, quick):
    """[(description, callable(paragraph), expectation, domain, addr)] for one operation kind; domain is '' or the
    suffix of a separately labelled sub-domain ('_neg_offset', '_pair', '_annot_pair'); addr is the last character
    offset that the address counts over (None for regex addresses and for out-of-range offsets)."""
    n = len(T)
    cases = []
    if op in ("span_offset", "link_offset"):
        meth = "set_span" if op == "span_offset" else "set_link"
        for o in range(-2, n + 3):
            for ln in range(0, n + 2):
                cases.append((f"{meth}('NEW', offset={o}, length={ln})",
                              (lambda p, o=o, ln=ln: getattr(p, meth)("NEW", offset=o, length=ln)),
                              _expect_offset(T, runs, o, ln), "_neg_offset" if o < 0 else "",
                              o if 0 <= o < n else None))
        cases.append((f"{meth}('NEW', offset=1)", (lambda p: getattr(p, meth)("NEW", offset=1)),
                      _expect_offset(T, runs, 1, 0), "", 1))
    elif op in ("span_regex", "link_regex"):
        meth = "set_span" if op == "span_regex" else "set_link"
        for rx in C09_REGEX:
            ms = _run_matches(runs, rx)
            exp = ("wrap", [(a, T[a:b]) for a, b in ms]) if ms else ("none",)
            cases.append((f"{meth}('NEW', regex={rx!r})", (lambda p, rx=rx: getattr(p, meth)("NEW", regex=rx)),
                          exp, "", None))
    elif op in ("bookmark", "refmark", "annotation"):
        if op == "bookmark":
            call = lambda p, **kw: p.set_bookmark("NEW", **kw)                            # noqa: E731
            single, start, end = _T + "bookmark", _T + "bookmark-start", _T + "bookmark-end"
        elif op == "refmark":
            call = lambda p, **kw: p.set_reference_mark("NEW", **kw)                      # noqa: E731
            single, start, end = _T + "reference-mark", _T + "reference-mark-start", _T + "reference-mark-end"
        else:
            call = lambda p, **kw: p.insert_annotation(body="NEW", creator="me", **kw)    # noqa: E731
            single, start, end = TAG_ANNOT, TAG_ANNOT, TAG_ANNOT_END
        for k in range(0, n + 3):
            exp = ("mark", [(single, k)]) if k <= n else ("none",)
            if k <= n and _run_of(runs, k) is None and _run_of(runs, k - 1) is None:
                exp = ("at", k)         # between two white-space elements: no text run touches this offset
            cases.append((f"{op}(position={k})", (lambda p, k=k: call(p, position=k)), exp, "",
                          k if k <= n else None))
        pairs = [(i, j) for i in range(0, n + 1) for j in range(i, n + 1)]
        if quick:
            pairs = [pr for pr in pairs if pr[1] - pr[0] in (0, 1, n)]
        for i, j in pairs + [(1, n + 2), (n + 1, n + 2)]:
            exp = ("mark", [(start, i), (end, j)]) if j <= n else ("none",)
            cases.append((f"{op}(position=({i}, {j}))", (lambda p, i=i, j=j: call(p, position=(i, j))), exp,
                          "_annot_pair" if op == "annotation" else ("" if j <= n else "_pair"),
                          j if j <= n else None))
        for rx in C09_REGEX:
            ms = _run_matches(runs, rx)
            for idx in (0, 1, 2, -1):
                ok = ms and (idx < len(ms))
                m = ms[idx] if ok else None
                cases.append((f"{op}(before={rx!r}, position={idx})",
                              (lambda p, rx=rx, idx=idx: call(p, before=rx, position=idx)),
                              ("mark", [(single, m[0])]) if ok else ("none",), "", None))
                cases.append((f"{op}(after={rx!r}, position={idx})",
                              (lambda p, rx=rx, idx=idx: call(p, after=rx, position=idx)),
                              ("mark", [(single, m[1])]) if ok else ("none",), "", None))
                if idx >= 0:
                    cases.append((f"{op}(content={rx!r}, position={idx})",
                                  (lambda p, rx=rx, idx=idx: call(p, content=rx, position=idx)),
                                  ("mark", [(start, m[0]), (end, m[1])]) if ok else ("none",), "", None))
    elif op == "note":
        for rx in C09_REGEX:
            ms = _run_matches(runs, rx)
            cases.append((f"insert_note(after={rx!r})",
                          (lambda p, rx=rx: p.insert_note(after=rx, note_id="NEW", citation="1", body="zz")),
                          ("mark", [(TAG_NOTE, ms[0][1])]) if ms else ("none",), "", None))
    else:
        raise ValueError(op)
    return cases


def _is_new(e):
    if e.tag == TAG_ANNOT or e.tag == TAG_ANNOT_END:
        return True            # the grammar has no annotation: every annotation is a new one
    return "NEW" in (e.get(STYLE_ATTR), e.get(HREF_ATTR), e.get(NAME_ATTR), e.get(_T + "id"))


def _c09_check(res, xml, desc, action, exp, domain, ws):
    """Run one insertion on a fresh paragraph and evaluate the clauses; ws: the paragraph has white-space elements
    and the address is a character offset (separately labelled sub-domain)."""
    from odfdo import Element
    p = Element.from_tag(xml)
    raw = _raw(p)
    T, elems0, _runs = _layout(raw)
    canon0 = _canon(raw)
    frame0 = _frame(elems0, lambda e: False)
    sfx = domain or ("_ws" if ws else "")
    what = f"{desc} on {xml}"
    try:
        action(p)
        raised = None
    except Exception as e:  # noqa
        raised = e
    raw = _raw(p)
    T1, elems1, _r = _layout(raw)
    new = [(e, st, en) for e, st, en in elems1 if _is_new(e)]
    class _Lazy:
        def __format__(self, spec):
            return _ser(raw)
    after = _Lazy()
    fails = []
    res.checked += 1
    if raised is not None:
        # "raises without partial modification"
        if _canon(raw) != canon0:
            fails.append(("atomic" + sfx, f"{what}: raised {raised!r} but left {after}"))
        elif exp[0] not in ("none", "free", "at"):
            fails.append(("address" + sfx, f"{what}: raised {raised!r} although {exp} is designated"))
        return fails
    res.checked += 2
    if T1 != T:
        fails.append(("text_kept" + sfx, f"{what}: readable text {T!r} became {T1!r}: {after}"))
    if _frame(elems1, _is_new) != frame0:
        fails.append(("frame" + sfx, f"{what}: existing elements moved or changed: {after}"))
    res.checked += 1
    if exp[0] == "none":
        if _canon(raw) != canon0:
            fails.append(("untouched" + sfx, f"{what}: nothing is designated but the paragraph became {after}"))
    elif exp[0] == "at":
        if _canon(raw) != canon0 and [st for _e, st, _en in new] != [exp[1]]:
            fails.append(("address" + sfx, f"{what}: new elements at {[st for _e, st, _en in new]}, designated "
                                           f"offset {exp[1]}: {after}"))
    elif exp[0] == "wrap":
        got = sorted((st, T1[st:en]) for _e, st, en in new)
        if got != sorted(exp[1]):
            fails.append(("address" + sfx, f"{what}: wrapped {got}, designated {sorted(exp[1])}: {after}"))
    elif exp[0] == "mark":
        got = sorted((e.tag, st) for e, st, en in new)
        bad = [e.tag for e, st, en in new if st != en]
        if got != sorted(exp[1]) or bad:
            fails.append(("address" + sfx, f"{what}: marks {[(t.split('}')[1], k) for t, k in got]}, designated "
                                           f"{[(t.split('}')[1], k) for t, k in sorted(exp[1])]}: {after}"))
    return fails


C09_OPS = ["span_offset", "link_offset", "span_regex", "link_regex", "bookmark", "refmark", "annotation", "note"]
C09_TEXTS_QUICK = ["abcab"]
C09_TEXTS_FULL = ["abcab", "abcdef", "aabbcc", "ab cb"]


C09_SEQ_STEPS = [
    ("set_span('N', regex='b')", lambda p: p.set_span("NEW", regex="b")),
    ("set_link('N', regex='[bc]+')", lambda p: p.set_link("NEW", regex="[bc]+")),
    ("set_bookmark('N', position=2)", lambda p: p.set_bookmark("NEW", position=2)),
    ("set_reference_mark('N', content='ab|c')", lambda p: p.set_reference_mark("NEW", content="ab|c")),
    ("set_span('N', offset=1, length=2)", lambda p: p.set_span("NEW", offset=1, length=2)),
]
_POP = {}


def _c09_population(quick):
    """The grammar, then the paragraphs reached from a plain paragraph by one and by two of the C09_SEQ_STEPS
    insertions (markers renamed old1 / old2), so that every checked call is the 2nd / 3rd of a mixed sequence."""
    if quick in _POP:
        return _POP[quick]
    from odfdo import Element
    texts = C09_TEXTS_QUICK if quick else C09_TEXTS_FULL
    out = _c09_paragraphs(texts, not quick)
    seen = set(out)
    level = [f"<text:p>{t}</text:p>" for t in texts]
    for depth in (1, 2):
        nxt = []
        for xml in level:
            for _desc, step in C09_SEQ_STEPS:
                try:
                    p = Element.from_tag(xml)
                    step(p)
                    got = p.serialize().replace('"NEW"', f'"old{depth}"')
                    _parse(got)
                except Exception:  # noqa   (only under a modified tree; the direct contracts report it)
                    continue
                if got not in seen:
                    seen.add(got)
                    out.append(got)
                    nxt.append(got)
        level = nxt
    _POP[quick] = out
    return out


def _gen_c09_insert(con, sigcase, count, seed):
    quick = count <= 200
    for xml in _c09_population(quick):
        for op in C09_OPS:
            yield {"xml": xml, "op": op, "quick": quick}


def _call_c09_insert(con, fn, argvals, labels):
    res = NativeResult()
    xml, op = argvals["xml"], argvals["op"]
    raw = _parse(xml)
    T, _elems, runs = _layout(raw)
    ws_at = [st for e, st, _en in _elems if e.tag in WS_TAGS]
    first = {}
    ncase = 0
    for desc, action, exp, domain, addr in _c09_cases(op, T, runs, argvals["quick"]):
        ncase += 1
        # character offsets that count over a white-space element: separately labelled sub-domain "_ws"
        ws = addr is not None and any(st <= addr for st in ws_at)
        for lab, det in _c09_check(res, xml, desc, action, exp, domain, ws):
            first.setdefault("ensures:" + lab, det)
    res.outcome = f"{ncase} calls of {op}"
    res.failures = list(first.items())
    return res


_C09_BASE = ["text_kept", "frame", "address", "untouched"]
_C09_LABELS = [b + s for b in _C09_BASE + ["atomic"] for s in ("", "_ws", "_neg_offset", "_pair", "_annot_pair")]

contract(
    "odfdo.paragraph:Paragraph markup insertion (set_span, set_link, set_bookmark, set_reference_mark, "
    "insert_note, insert_annotation)",
    sig=dict(xml=Str, op=Str, quick=Opaque(bool)),
    ensures=[Clause(lab, {"C09"}, lambda a, r, p: True) for lab in _C09_LABELS],
    gen=_gen_c09_insert, call_native=_call_c09_insert,
    bounded=dict(
        scope="paragraphs <text:p> over the text 'abcab' (quick) / 'abcab','abcdef','aabbcc','ab cb' (thorough) "
              "in the layouts: plain; one span or one link around t[i:j] for all i<=j (quick: widths 0,1,2,n); "
              "<text:s/>, <text:s text:c=2/>, <text:tab/>, <text:bookmark/> at every i; 6 nested/adjacent layouts "
              "(span>link, link>span, span>text:s, span+link, span+tab+span, line-break+space+text:s); plus every "
              "paragraph reached from the plain one by 1 or 2 insertions out of {set_span regex b, set_link regex "
              "[bc]+, set_bookmark position 2, set_reference_mark content ab|c, set_span offset 1 length 2} (so "
              "the checked call is the 2nd / 3rd of a mixed sequence).  Calls: "
              "set_span / set_link with offset -2..n+2 x length 0..n+1 and with 11 regexes {b, ab, bc, [ab], "
              "[bc]+, a+, b+, ab|c, a|bc, z, x+|y}; set_bookmark / set_reference_mark / insert_annotation with "
              "position 0..n+2, position pairs (i,j) and two out-of-range pairs, before= / after= / content= "
              "each regex x match index {0,1,2,-1}; insert_note(after= each regex).  Oracle: independent "
              "projection of the raw lxml tree and per-run re.finditer.",
        reason="_by_regex_offset and Element._insert split lxml text nodes; the lxml node model is assumed, "
               "not executable symbolically"),
)


# ------------------------------------------------------------------ C09 removals
KILL = "{urn:verif}kill"


def _lx_delete_keep_tail(el):
    """Reference removal of an element with its content; its tail stays in place."""
    parent = el.getparent()
    tail = el.tail or ""
    prev = el.getprevious()
    if prev is not None:
        prev.tail = (prev.tail or "") + tail
    else:
        parent.text = (parent.text or "") + tail
    parent.remove(el)


def _nth(raw, k):
    return list(raw.iter())[k]


def _c09_removal_cases(xml, op):
    """[(description, action(paragraph) -> resulting odfdo element, expected raw tree, expected text)]"""
    raw0 = _parse(xml)
    T, elems, _runs = _layout(raw0)
    index = {id(e): k for k, e in enumerate(raw0.iter())}
    cases = []
    if op in ("remove_spans", "remove_links"):
        tag = TAG_SPAN if op == "remove_spans" else TAG_A
        exp = _parse(xml)
        _et.strip_tags(exp, tag)
        cases.append((f"{op}()", (lambda p: getattr(p, op)()), exp, T))
    elif op in ("remove_span", "remove_link"):
        tag = TAG_SPAN if op == "remove_span" else TAG_A
        for e, st, en in elems:
            if e.tag != tag:
                continue
            k = index[id(e)]
            exp = _parse(xml)
            _nth(exp, k).tag = KILL
            _et.strip_tags(exp, KILL)

            def act(p, k=k):
                from odfdo import Element
                return getattr(p, op)(Element.from_tag(_nth(_raw(p), k)))
            cases.append((f"{op}(element #{k})", act, exp, T))
    elif op in ("delete_self", "delete_child"):
        for e, st, en in elems:
            k = index[id(e)]
            if op == "delete_child" and e.getparent() is not raw0:
                continue
            exp = _parse(xml)
            victim = _nth(exp, k)
            if op == "delete_self" and e.tag == _T + "reference-mark-start":
                # documented: deleting a reference-mark-start by itself also deletes its reference-mark-end
                for other in list(exp.iter(_T + "reference-mark-end")):
                    if other.get(NAME_ATTR) == e.get(NAME_ATTR):
                        _lx_delete_keep_tail(other)
            _lx_delete_keep_tail(victim)

            def act(p, k=k):
                from odfdo import Element
                child = Element.from_tag(_nth(_raw(p), k))
                if op == "delete_self":
                    child.delete()
                else:
                    p.delete(child)
                return p
            cases.append((f"{op}(element #{k} {e.tag.split('}')[1]})", act, exp, T[:st] + T[en:]))
    elif op == "insert_then_remove":
        def newest(p, tag):
            from odfdo import Element
            return Element.from_tag([e for e in _raw(p).iter() if e.tag == tag and _is_new(e)][0])

        for rx in ("b", "[bc]+", "ab|c"):
            if not _run_matches(_runs, rx):
                continue
            nospan, nolink = _parse(xml), _parse(xml)
            _et.strip_tags(nospan, TAG_SPAN)
            _et.strip_tags(nolink, TAG_A)

            def a_span(p, rx=rx):
                p.set_span("NEW", regex=rx)
                return p.remove_spans()

            def a_link(p, rx=rx):
                p.set_link("NEW", regex=rx)
                return p.remove_links()

            def a_note(p, rx=rx):
                p.insert_note(after=rx, note_id="NEW", citation="1", body="zz")
                newest(p, TAG_NOTE).delete()
                return p

            def a_annot(p, rx=rx):
                p.insert_annotation(content=rx, body="NEW", creator="me").delete()
                return p

            def a_ref(p, rx=rx):
                p.set_reference_mark("NEW", content=rx).delete()
                return p

            def a_bm(p, rx=rx):
                start, end = p.set_bookmark("NEW", content=rx)
                end.delete()
                start.delete()
                return p
            cases.append((f"set_span(regex={rx!r}); remove_spans()", a_span, nospan, T))
            cases.append((f"set_link(regex={rx!r}); remove_links()", a_link, nolink, T))
            cases.append((f"insert_note(after={rx!r}); note.delete()", a_note, raw0, T))
            cases.append((f"insert_annotation(content={rx!r}).delete()", a_annot, raw0, T))
            cases.append((f"set_reference_mark(content={rx!r}).delete()", a_ref, raw0, T))
            cases.append((f"set_bookmark(content={rx!r}); end.delete(); start.delete()", a_bm, raw0, T))
        for k in range(0, len(T) + 1):
            if any(st <= k for e, st, _en in elems if e.tag in WS_TAGS):
                continue            # offsets counting over white-space elements: see the finding address_ws

            def a_pos(p, k=k):
                p.set_bookmark("NEW", position=k).delete()
                return p
            cases.append((f"set_bookmark(position={k}).delete()", a_pos, raw0, T))
    else:
        raise ValueError(op)
    return cases


C09_REMOVALS = ["remove_spans", "remove_links", "remove_span", "remove_link", "delete_self", "delete_child",
                "insert_then_remove"]


def _gen_c09_removal(con, sigcase, count, seed):
    quick = count <= 200
    for xml in _c09_population(quick):
        for op in C09_REMOVALS:
            yield {"xml": xml, "op": op}


def _call_c09_removal(con, fn, argvals, labels):
    from odfdo import Element
    res = NativeResult()
    xml, op = argvals["xml"], argvals["op"]
    cases = _c09_removal_cases(xml, op)
    if not cases:
        res.in_domain = False
        return res
    first = {}
    for desc, act, exp_raw, exp_text in cases:
        p = Element.from_tag(xml)
        what = f"{desc} on {xml}"
        res.checked += 2
        try:
            out = act(p)
        except Exception as e:  # noqa
            first.setdefault("ensures:removal_text", f"{what}: raised {e!r}")
            continue
        if isinstance(out, list):        # strip of the top-level element (not in this scope)
            first.setdefault("ensures:removal_tree", f"{what}: returned a list")
            continue
        got = _raw(out)
        if _proj(got) != exp_text:
            first.setdefault("ensures:removal_text", f"{what}: readable text {_proj(got)!r}, expected {exp_text!r}: "
                                                     f"{_ser(got)}")
        if _canon(got) != _canon(exp_raw):
            first.setdefault("ensures:removal_tree", f"{what}: {_ser(got)}, expected {_ser(exp_raw)}")
    res.outcome = f"{len(cases)} calls of {op}"
    res.failures = list(first.items())
    return res


contract(
    "odfdo.paragraph:Paragraph markup removal (remove_spans, remove_links, remove_span, remove_link, delete)",
    sig=dict(xml=Str, op=Str),
    ensures=[Clause("removal_text", {"C09"}, lambda a, r, p: True),
             Clause("removal_tree", {"C09"}, lambda a, r, p: True)],
    gen=_gen_c09_removal, call_native=_call_c09_removal,
    bounded=dict(
        scope="the same paragraph population as the insertion contract (grammar + results of 1-2 insertions); remove_spans(), remove_links(), "
              "remove_span / remove_link of every single span / link, element.delete() of every descendant element "
              "and paragraph.delete(child) of every child; and insertion followed by removal: set_span / set_link by "
              "regex {b, [bc]+, ab|c} then remove_spans / remove_links, insert_note / insert_annotation(content) / "
              "set_reference_mark(content) / set_bookmark(content) then delete of the new element(s), "
              "set_bookmark(position=k).delete() for every k not counting over a white-space element.  Oracle: "
              "lxml.etree.strip_tags / a reference tail-keeping removal on an independent parse, compared as "
              "canonical trees, and the readable-text projection.",
        reason="recursive _strip_tags over clones and lxml tail handling in delete()"),
)


# ------------------------------------------------------------------ C16 search / replace
C16_PATTERNS = ["b", "ab", "[ab]", "[^a]", "a+", "[bc]+", "ab|c", "a|bc", "^a", "b$", "^ab|b$", "a.", ".b", "z"]
C16_NEWS = ["", "X", "bb", "a-b"]
C16_FORMATTED_QUICK = ["x", " ", "  ", "x  y", "\t", "x\ny", " x "]


def _own_runs(el):
    """The individual text runs below the raw element `el`: every .text, and every .tail except el's own."""
    out = []
    for e in el.iter():
        if e.text:
            out.append((e, "text", e.text))
        if e is not el and e.tail:
            out.append((e, "tail", e.tail))
    return out


def _expected_replace(root, k, pattern, new):
    """Independent copy of `root` in which every text run below element #k went through re.sub; returns
    (copy, number of matches, whether a changed run is a tail or the text of something else than p / h / span)."""
    exp = _et.fromstring(_et.tostring(root))
    el = _nth(exp, k)
    rx = _re.compile(pattern)
    total = 0
    outside = False
    for e, kind, sv in _own_runs(el):
        cnt = len(rx.findall(sv))
        total += cnt
        if new is None or cnt == 0:
            continue
        repl = rx.sub(new.replace("\\", "\\\\"), sv)
        if kind == "text":
            e.text = repl
            if e.tag not in (TAG_P, TAG_H, TAG_SPAN):
                outside = True
        else:
            e.tail = repl
            outside = True
    return exp, total, outside


def _search_domain(el):
    """Separately labelled sub-domains of the search clauses: the element has a tail; it contains a link."""
    if el.tail:
        return "_tail"
    if any(e.tag == TAG_A and e is not el for e in el.iter()):
        return "_link"
    return ""


def _stale_domain(el):
    """Separately labelled sub-domain of the formatted clauses: below `el` there is a text:s, or a tail that starts
    or ends with a space.  These are what append_plain_text('') re-encodes when it rebuilds a container."""
    for e in el.iter():
        if e is el:
            continue
        if e.tag == TAG_S or (e.tail and (e.tail[0] == " " or e.tail[-1] == " ")):
            return True
    return False


def _c16_targets(root):
    return [k for k, e in enumerate(root.iter()) if e.tag in (TAG_P, TAG_SPAN, TAG_A)]


def _gen_c16(con, sigcase, count, seed):
    quick = count <= 200
    for xml in _c09_paragraphs(["abcab", "ab cb"] if quick else ["abcab", "aabbcc", "ab cb", "abcdef"], not quick):
        for k in _c16_targets(_parse(xml)):
            for what in ("count", "replace", "formatted", "search"):
                yield {"xml": xml, "k": k, "what": what, "quick": quick}


def _formatted_news(quick):
    if quick:
        return C16_FORMATTED_QUICK
    return ["".join(t) for n in range(1, 4) for t in _it.product("x \t\n", repeat=n)]


def _call_c16(con, fn, argvals, labels):
    from odfdo import Element
    res = NativeResult()
    xml, k, what = argvals["xml"], argvals["k"], argvals["what"]
    root0 = _parse(xml)
    first = {}

    def fresh():
        p = Element.from_tag(xml)
        return p, Element.from_tag(_nth(_raw(p), k))

    def fail(lab, det):
        first.setdefault("ensures:" + lab, det)

    n = 0
    for pat in C16_PATTERNS:
        if what == "count":
            n += 1
            res.checked += 2
            p, el = fresh()
            _exp, total, _o = _expected_replace(root0, k, pat, None)
            desc = f"element #{k} of {xml}: replace({pat!r})"
            try:
                got = el.replace(pat)
            except Exception as e:  # noqa
                fail("count", f"{desc} raised {e!r}")
                continue
            if got != total:
                fail("count", f"{desc} = {got!r}, the text runs hold {total} matches")
            if _canon(_raw(p)) != _canon(root0):
                fail("count_pure", f"{desc} modified the tree: {_ser(_raw(p))}")
        elif what == "replace":
            for new in C16_NEWS:
                n += 1
                res.checked += 2
                p, el = fresh()
                exp, total, _o = _expected_replace(root0, k, pat, new)
                desc = f"element #{k} of {xml}: replace({pat!r}, {new!r})"
                try:
                    got = el.replace(pat, new)
                except Exception as e:  # noqa
                    fail("replace_count", f"{desc} raised {e!r}")
                    continue
                if got != total:
                    fail("replace_count", f"{desc} = {got!r}, the text runs hold {total} matches")
                if _canon(_raw(p)) != _canon(exp):
                    fail("replace_tree", f"{desc} gave {_ser(_raw(p))}, expected {_ser(exp)}")
        elif what == "formatted":
            for new in _formatted_news(argvals["quick"]):
                n += 1
                res.checked += 3
                p, el = fresh()
                exp, total, outside = _expected_replace(root0, k, pat, new)
                sfx = "_stale" if _stale_domain(_nth(root0, k)) else ("_tail" if outside else "")
                want = _proj(exp)
                desc = f"element #{k} of {xml}: replace({pat!r}, {new!r}, formatted=True)"
                try:
                    got = el.replace(pat, new, formatted=True)
                except Exception as e:  # noqa
                    fail("formatted_text" + sfx, f"{desc} raised {e!r}")
                    continue
                if got != total:
                    fail("replace_count", f"{desc} = {got!r}, the text runs hold {total} matches")
                if _proj(_raw(p)) != want:
                    fail("formatted_text" + sfx, f"{desc}: readable text {_proj(_raw(p))!r}, expected {want!r}: "
                                                 f"{_ser(_raw(p))}")
                elif _odf_collapse(_raw(p)) != want:
                    fail("formatted_ws" + sfx, f"{desc}: a consumer of {_ser(_raw(p))} shows "
                                               f"{_odf_collapse(_raw(p))!r}, not {want!r}")
                if _frame(_layout(_raw(p))[1], lambda e: e.tag in WS_TAGS) != \
                        _frame(_layout(exp)[1], lambda e: e.tag in WS_TAGS):
                    fail("formatted_frame" + sfx, f"{desc}: markup moved: {_ser(_raw(p))}")
        else:
            n += 1
            p, el = fresh()
            own = _proj(_nth(root0, k))
            sfx = _search_domain(_nth(root0, k))
            desc = f"element #{k} of {xml} (own text {own!r}, tail {_nth(root0, k).tail!r})"
            ms = [(m.start(), m.end()) for m in _re.finditer(pat, own)]
            res.checked += 5
            try:
                got = (el.search(pat), el.match(pat), el.search_first(pat), el.search_all(pat))
                want = (ms[0][0] if ms else None, bool(ms), ms[0] if ms else None, ms)
                if got != want:
                    fail("search_own_text" + sfx, f"{desc}: search/match/search_first/search_all({pat!r}) = {got}, "
                                                  f"its own text gives {want}")
                for a, b in (got[3] if got[3] == ms else []):
                    if el.text_at(a, b) != own[a:b]:
                        fail("text_at" + sfx, f"{desc}: text_at({a}, {b}) = {el.text_at(a, b)!r} != {own[a:b]!r}")
            except Exception as e:  # noqa
                fail("search_own_text" + sfx, f"{desc}: {pat!r} raised {e!r}")
    if what == "search":
        p, el = fresh()
        own = _proj(_nth(root0, k))
        sfx = _search_domain(_nth(root0, k))
        for a in range(0, len(own) + 2):
            res.checked += 1
            if el.text_at(a) != own[a:]:
                fail("text_at" + sfx, f"element #{k} of {xml}: text_at({a}) = {el.text_at(a)!r} != {own[a:]!r}")
            for b in range(a, len(own) + 2):
                res.checked += 1
                if el.text_at(a, b) != own[a:b]:
                    fail("text_at" + sfx, f"element #{k} of {xml}: text_at({a}, {b}) = {el.text_at(a, b)!r} "
                                          f"!= {own[a:b]!r}")
    res.outcome = f"{n} calls ({what})"
    res.failures = list(first.items())
    return res


_C16_LABELS = ["count", "count_pure", "replace_count", "replace_tree",
               "formatted_text", "formatted_ws", "formatted_frame",
               "formatted_text_tail", "formatted_ws_tail", "formatted_frame_tail",
               "formatted_text_stale", "formatted_ws_stale", "formatted_frame_stale",
               "search_own_text", "text_at", "search_own_text_tail", "text_at_tail",
               "search_own_text_link", "text_at_link"]

contract(
    "odfdo.element:Element.replace / search / search_first / search_all / match / text_at",
    sig=dict(xml=Str, k=Int, what=Str, quick=Opaque(bool)),
    ensures=[Clause(lab, {"C16"}, lambda a, r, p: True) for lab in _C16_LABELS],
    gen=_gen_c16, call_native=_call_c16,
    bounded=dict(
        scope="every text:p / text:span / text:a element of the paragraphs of the C09 grammar over 'abcab','ab cb' (quick) "
              "/ 'abcab','aabbcc','ab cb','abcdef' (thorough) x 14 patterns {b, ab, [ab], [^a], a+, [bc]+, ab|c, "
              "a|bc, ^a, b$, ^ab|b$, a., .b, z} (none matches the empty string): replace(p) counts the matches of "
              "the individual text runs and leaves the tree alone; replace(p, new) for new in {'', X, bb, a-b} "
              "returns that count and equals re.sub on every run of an independent copy; replace(p, new, "
              "formatted=True) for 7 white-space replacements (thorough: all strings over {x,SPACE,TAB,LF} of "
              "length 1..3) keeps markup, gives the substituted readable text and stays in ODF white-space normal "
              "form; search / match / search_first / search_all / text_at against re on the element's own text "
              "(projection without the tail), text_at for all 0 <= a <= b <= len+1.",
        reason="iteration over lxml text nodes while containers are rewritten"),
)


# ------------------------------------------------------------------ findings on the unchanged tree
_W = "import os, sys\nsys.path.insert(0, os.path.join(os.environ.get('PYVC_REPO', '/repo'), 'src'))\n" \
     "from odfdo import Element, Paragraph\n"

FINDINGS = [
    dict(
        property="C09", target="odfdo.paragraph:Paragraph.set_span / set_link (decorator _by_regex_offset)",
        clause="ensures:text_kept_neg_offset (also ensures:frame_neg_offset)",
        what_fails="a negative offset duplicates text: start = offset - counted is negative, so before = text[:start] "
                   "and tail = text[end:] overlap.  Smallest input: Paragraph('ab').set_span('s', offset=-1, length=1) "
                   "reads 'aab'; DESIGN probe Paragraph('abcdef').set_span('s', offset=-2, length=3) reads 'abcdbcdef'. "
                   "Genuine: the statement demands the readable text unchanged (or an exception without modification) "
                   "for every address.  Fix in 2 lines (reject or ignore offset < 0 at the top of the wrapper).",
        witness=_W + "p = Paragraph('abcdef')\np.set_span('s', offset=-2, length=3)\n"
                     "q = Paragraph('ab')\nq.set_link('u', offset=-1, length=1)\n"
                     "REPRODUCED = p.serialize() == '<text:p>abcd<text:span text:style-name=\"s\"></text:span>bcdef</text:p>' "
                     "and 'a<text:a xlink:href=\"u\"></text:a>ab' in q.serialize()\nprint(REPRODUCED)\n"),
    dict(
        property="C09", target="odfdo.paragraph:Paragraph.set_bookmark / set_reference_mark with position=(i, j)",
        clause="ensures:atomic_pair",
        what_fails="when the second offset is beyond the text, ValueError('Text not found') is raised after the start "
                   "mark has been inserted: Paragraph('ab').set_bookmark('b', position=(1, 9)) leaves "
                   "<text:p>a<text:bookmark-start text:name=\"b\"/>b</text:p>.  Genuine: 'raises without partial "
                   "modification' is violated (an unmatched bookmark-start stays in the document).  Fix in 3-5 lines "
                   "(delete the start mark when the second _insert raises, or locate both positions first).",
        witness=_W + "p = Paragraph('ab')\ntry:\n    p.set_bookmark('b', position=(1, 9))\n    raised = False\n"
                     "except ValueError:\n    raised = True\n"
                     "q = Paragraph('ab')\ntry:\n    q.set_reference_mark('r', position=(1, 9))\nexcept ValueError:\n    pass\n"
                     "REPRODUCED = raised and 'bookmark-start' in p.serialize() and 'reference-mark-start' in q.serialize()\n"
                     "print(REPRODUCED)\n"),
    dict(
        property="C09", target="odfdo.paragraph:Paragraph.insert_annotation(position=(i, j))",
        clause="ensures:address_annot_pair (also ensures:untouched_annot_pair)",
        what_fails="the office:annotation-end is placed inside the annotation that was just inserted: the character "
                   "count of Element._insert(main_text=True) includes the annotation's own body, creator and date "
                   "(_xpath_text_main_descendant only skips text whose *parent* is office:annotation).  "
                   "Paragraph('abcd').insert_annotation(body='XY', creator='me', position=(1, 3)) gives "
                   "a<office:annotation><text:p>XY<office:annotation-end/></text:p>...</office:annotation>bcd; with an "
                   "end offset beyond the text the end tag lands inside dc:date and no exception is raised.  Genuine: "
                   "the marks do not delimit the designated substring 'bc'.  One-line fix: "
                   "descendant::text()[not (ancestor::office:annotation)].",
        witness=_W + "p = Paragraph('abcd')\np.insert_annotation(body='XY', creator='me', position=(1, 3))\n"
                     "x = p.serialize()\n"
                     "REPRODUCED = '<text:p>XY<office:annotation-end' in x and x.endswith('</office:annotation>bcd</text:p>')\n"
                     "print(REPRODUCED)\n"),
    dict(
        property="C09", target="odfdo.paragraph:_by_regex_offset (offset=) and odfdo.element:Element._insert (position=)",
        clause="ensures:address_ws (also ensures:atomic_ws, ensures:frame_ws)",
        what_fails="character offsets count text nodes only and skip text:s / text:tab / text:line-break, so they do not "
                   "index the paragraph's text once it holds white-space elements.  Paragraph('a  b') reads 'a  b' and "
                   "'a  b'.index('b') == 3, but set_span('s', offset=3, length=1) changes nothing and offset=2 wraps "
                   "'b'; set_bookmark('b', position=4) raises 'Text not found' although the text has 4 characters; "
                   "Paragraph('a\\tb').set_span('s', offset=1, length=1) wraps 'b' instead of the tab.  Genuine against "
                   "the statement ('also when the paragraph already contains ... spacing elements'); the project's own "
                   "tests address with offset=text.index(...), i.e. offsets of the plain text.  No 1-5 line fix (the scan "
                   "has to count the white-space elements).",
        witness=_W + "p = Paragraph('a  b')\nassert p.inner_text == 'a  b'\nbefore = p.serialize()\n"
                     "p.set_span('s', offset=p.inner_text.index('b'), length=1)\nsame = p.serialize() == before\n"
                     "q = Paragraph('a  b')\ntry:\n    q.set_bookmark('b', position=4)\n    raised = False\n"
                     "except ValueError:\n    raised = True\n"
                     "REPRODUCED = same and raised\nprint(REPRODUCED)\n"),
    dict(
        property="C16", target="odfdo.element:Element.search / search_first / search_all / match / text_at",
        clause="ensures:search_own_text_tail (also ensures:text_at_tail)",
        what_fails="they run on text_recursive = inner_text + tail, so text that follows the element is reported as "
                   "being in it: for <text:p><text:span>a</text:span>b</text:p> the span (own text 'a') answers "
                   "match('b') == True, search('b') == 1, text_at(0) == 'ab'.  Genuine against 'search positions index "
                   "the element's own text': position 1 is outside the span, and replace('b') on the same span counts 0 "
                   "(search and count disagree).  One-line fix per method (use inner_text), but text_at documents "
                   "'recursive' so the intent has to be settled.",
        witness=_W + "p = Element.from_tag('<text:p><text:span>a</text:span>b</text:p>')\nsp = p.get_span()\n"
                     "REPRODUCED = sp.match('b') is True and sp.search('b') == 1 and sp.text_at(0) == 'ab' "
                     "and sp.replace('b') == 0\nprint(REPRODUCED)\n"),
    dict(
        property="C16", target="odfdo.element:Element.search ... on an element that contains a text:a",
        clause="ensures:search_own_text_link (also ensures:text_at_link)",
        what_fails="inner_text concatenates str(child) and Link.__str__ renders '[text](url)', so positions index a "
                   "markdown rendering and the URL itself is searched: for <text:p>a<text:a xlink:href=\"http://x/\">b"
                   "</text:a>c</text:p> inner_text is 'a[b](http://x/)c', search('c') == 15 (the text is 'abc'), "
                   "match('http') is True while replace('http') counts 0.  Against the statement (positions do not "
                   "index the text; search and count disagree); probably a side effect of Link.__str__ rather than an "
                   "intended feature.  No local 1-5 line fix (inner_text would need a text-only projection).",
        witness=_W + "p = Element.from_tag('<text:p>a<text:a xlink:href=\"http://x/\">b</text:a>c</text:p>')\n"
                     "REPRODUCED = p.search('c') == 15 and p.match('http') is True and p.replace('http') == 0\n"
                     "print(REPRODUCED)\n"),
    dict(
        property="C16", target="odfdo.element:Element.replace(pattern, new, formatted=True)",
        clause="ensures:formatted_text_stale (also ensures:formatted_frame_stale, ensures:formatted_ws_stale)",
        what_fails="container.append_plain_text('') rebuilds the container while the loop still walks the text nodes "
                   "fetched before: a rebuilt text:s is a new element, a tail starting / ending with a space is turned "
                   "into text:s + text, and the later 'container.tail = new_text' then writes to a detached node or "
                   "next to the re-encoded copy.  Paragraph('a  b').replace('b', 'x', formatted=True) returns 1 and "
                   "changes nothing; <text:p>a<text:span>b</text:span> c</text:p>.replace('z', 'y', formatted=True) "
                   "returns 0 and the text becomes 'ab c c'.  Genuine (lost replacement; duplicated text without any "
                   "match).  No 1-5 line fix (normalise once after the loop, per container).",
        witness=_W + "p = Paragraph('a  b')\nn = p.replace('b', 'x', formatted=True)\n"
                     "q = Element.from_tag('<text:p>a<text:span>b</text:span> c</text:p>')\n"
                     "m = q.replace('z', 'y', formatted=True)\n"
                     "REPRODUCED = n == 1 and p.inner_text == 'a  b' and m == 0 and q.inner_text == 'ab c c'\n"
                     "print(REPRODUCED)\n"),
    dict(
        property="C16", target="odfdo.element:Element.replace(pattern, new, formatted=True)",
        clause="ensures:formatted_ws_tail",
        what_fails="only the element that owns the text node is re-normalised; for a tail that is the *preceding "
                   "sibling*, not the paragraph, so white space put into a tail stays raw: "
                   "<text:p><text:span>x</text:span>ab</text:p>.replace('b', ' ', formatted=True) ends with a raw "
                   "trailing space (a consumer shows 'xa'), replace('a', '\\t', formatted=True) leaves a raw TAB, "
                   "whereas Paragraph('xab') gives <text:p>xa<text:s/></text:p>.  Genuine against 'encodes spaces, tabs "
                   "and line breaks as in a freshly created paragraph'.  Fix in ~3 lines (for a tail, call "
                   "append_plain_text on container.parent).",
        witness=_W + "p = Element.from_tag('<text:p><text:span>x</text:span>ab</text:p>')\n"
                     "p.replace('b', ' ', formatted=True)\n"
                     "q = Element.from_tag('<text:p><text:span>x</text:span>ab</text:p>')\n"
                     "q.replace('a', '\\t', formatted=True)\n"
                     "REPRODUCED = p.serialize().endswith('</text:span>a </text:p>') and '\\t' in q.serialize()\n"
                     "print(REPRODUCED)\n"),
]


# ------------------------------------------------------------------ self-test record (tools/mutrun.py, quick tier)
# (file under src/odfdo, old text, new text, verdict).  "caught" = a label that passes on the unchanged tree fails.
MUTANTS = [
    # C05
    ("paragraph.py", "Spacer(len(item) - 1)", "Spacer(len(item))", "caught: text, reparse, odf_ws"),
    ("paragraph.py", '_re_spaces_split = re.compile(r"( +)")', 're.compile(r"( )")', "caught: text, reparse, odf_ws"),
    ("paragraph.py", "first-run spacer: result.append(Spacer(len(item0)))", "result.append(item0)",
     "caught: odf_ws (1065 inputs), text, reparse"),
    ("paragraph.py", "spacer = Spacer(len(last_item))", "Spacer(len(last_item) - 1)", "caught: text, reparse, odf_ws"),
    ("paragraph_base.py", "if number and number >= 2:", "number > 2", "caught: text, reparse, odf_ws"),
    ("paragraph.py", 'obj.tail = ""  (in _expand_spaces)', "pass", "caught: text, reparse, odf_ws"),
    ("paragraph.py", 'bloc == "\\n": result.append(LineBreak())', "result.append(Tab())", "caught: text, reparse, odf_ws"),
    ("paragraph.py", "self.delete(child, keep_tail=False)", "keep_tail=True",
     "missed - equivalent: _expand_spaces has set every child's tail to '' before"),
    ("paragraph.py", '_re_only_spaces = re.compile("^ +$")', '"^ +"',
     "missed - equivalent: the items of _re_spaces_split are all-space or space-free"),
    # C09
    ("element.py", "text_after = text[pos:] ...", "text[pos + 1:]", "caught: text_kept, address, frame, removal_*"),
    ("element.py", "text_before = text[:pos] ...", "text[:pos + 1]", "caught: text_kept, address, frame, removal_*"),
    ("paragraph.py", "if len(text) + counted <= offset:", "<", "caught: untouched, address"),
    ("element.py", "prev.tail += tail  (delete)", "pass", "caught: removal_text, removal_tree"),
    ("element.py", "if prev is not None:  (delete)", "if prev is None:", "caught: removal_text, removal_tree"),
    ("element.py", "if parent.__element.text is None:  (delete)", "is not None", "caught: removal_text, removal_tree"),
    ("paragraph.py", "if is_text:  (regex branch of _by_regex_offset)", "if not is_text:",
     "caught: address, text_kept, frame, untouched"),
    ("paragraph.py", "tail = text_str[end:]  (regex branch)", "text_str[end + 1:]", "caught: text_kept, address, frame"),
    ("paragraph.py", "tail = text_str[end:]  (offset branch)", "text_str[end + 1:]", "caught: text_kept, frame"),
    ("paragraph.py", "length = min(length, len(text))", "len(text) - 1", "caught: address"),
    ("paragraph.py", "for group in reversed(list(pattern.finditer(text))):", "not reversed", "caught: address"),
    ("paragraph.py", "span.tail = tail  (set_span)", "dropped", "caught: text_kept, address, frame"),
    ("element.py", "if found_nb + count >= position:  (_insert_find_text)", ">", "caught: address, atomic"),
    ("element.py", "list(regex.finditer(text))[position - count]", "[position]", "caught: address, atomic"),
    ("element.py", "if before is None: pos = sre.end()", "if before is not None:", "caught: address"),
    ("element.py", "element_result.append(tail)  (_strip_tags)", "pass", "caught: removal_text, removal_tree"),
    # C16
    ("element.py", "count += number", "count = number", "caught: replace_count"),
    ("element.py", "if text.is_text():  (replace)", "if not text.is_text():",
     "caught: replace_tree, formatted_text, formatted_frame, replace_count"),
    ("element.py", "count += len(cpattern.findall(str(text)))", "count = len(cpattern.findall(self.inner_text))",
     "caught: count"),
    ("element.py", "cpattern.subn(new, str(text))", "subn(new, str(text), 1)", "caught: replace_count, replace_tree"),
    ("element.py", "return match.start()  (search)", "match.end()", "caught: search_own_text"),
    ("element.py", "if end < start: end = start  (text_at)", "if end <= start: end = start + 1", "caught: text_at"),
    ("element.py", "re.search(pattern, self.text_recursive)  (search_first)", "self.text", "caught: search_own_text"),
]
