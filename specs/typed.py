"""Typed values (C06): the dispatcher ElementTyped.set_value_and_type over the real type lattice.

One signature case per Python type of `value`; the obligations are the lattice corners the
property names: a bool takes the boolean branch (bool <: int), a datetime the date-time branch
(datetime <: date), and the attribute written is the one ODF prescribes for the value type."""
from datetime import date, datetime, timedelta
from decimal import Decimal

import z3

import specs.datatypes  # noqa: F401  (Boolean.encode / Duration.encode contracts)
import specs.vault  # noqa: F401  (Element.__append hook)
import specs.attrs  # noqa: F401  (verified Element.get/set/del_attribute contracts, Element.__init__ hook)
from pyvc.attrmodel import ABSENT
from pyvc.lxmlmodel import ELEM, elem_maker, new_node
from pyvc.engine import OpaqueV
from pyvc.spec import Bool, Clause, Const, Int, Model, NoneT, OneOf, Opaque, S, Str, contract

_EXT = dict(trusted=True, sig={}, note="thin wrapper over lxml attrib: attribute-map model operation")
ATTR_INLINE = {"odfdo.element:Element.del_attribute", "odfdo.element:Element.set_attribute",
               "odfdo.element:Element.get_attribute", "odfdo.element:Element.get_attribute_string"}
contract("odfdo.element:Element._erase_text_content", call=lambda en, con, vals, site: None, **_EXT)

ENC_DT = z3.Function("enc_datetime", z3.IntSort(), z3.StringSort())
ENC_D = z3.Function("enc_date", z3.IntSort(), z3.StringSort())
ENC_DUR = z3.Function("enc_duration", z3.IntSort(), z3.StringSort())
STR_OF = z3.Function("py_str_of_number", z3.IntSort(), z3.StringSort())

contract("odfdo.datatype:DateTime.encode", call=lambda en, con, vals, site: ENC_DT(vals["value"].sym),
         trusted=True, sig={}, note="glue over datetime.isoformat (bounded contract odfdo.datatype:DateTime)")
contract("odfdo.datatype:Date.encode", call=lambda en, con, vals, site: ENC_D(vals["value"].sym),
         trusted=True, sig={}, note="glue over date.isoformat (bounded contract odfdo.datatype:DateTime)")


def _num(pytype):
    return Opaque(pytype, __str__=lambda en, v: STR_OF(v.sym))


def _elem():
    from odfdo.element_typed import ElementTyped
    return Model("TypedElement", elem_maker, cls=ElementTyped)


VT, BV, V, DV, SV, TV = ("office:value-type", "office:boolean-value", "office:value", "office:date-value",
                         "office:string-value", "office:time-value")
ALL_VALUE_ATTRS = (BV, V, DV, SV, TV)


def _only(p, name):
    """of the value attributes exactly `name` is present"""
    return S.And(*[p.self.absent(n) for n in ALL_VALUE_ATTRS if n != name])


def _expect(type_name, attr, value_text):
    def post(a, r, p):
        return S.And(p.self.equals(VT, type_name), p.self.equals("calcext:value-type", type_name),
                     p.self.equals(attr, value_text(a)), _only(p, attr))
    return post


def _dur_text(a):
    from specs.datatypes import _dur_text as _t
    # Duration.encode's proved postcondition gives the text; here only "what Duration.encode returned"
    return None


CASES = [
    ("bool", dict(value=Bool), _expect("boolean", BV, lambda a: S.If(a.value, "true", "false"))),
    ("int", dict(value=Int), _expect("float", V, lambda a: _int_text(a.value))),
    ("float", dict(value=_num(float)), _expect("float", V, lambda a: STR_OF(a.value.sym))),
    ("Decimal", dict(value=_num(Decimal)), _expect("float", V, lambda a: STR_OF(a.value.sym))),
    ("datetime", dict(value=Opaque(datetime)), _expect("date", DV, lambda a: ENC_DT(a.value.sym))),
    ("date", dict(value=Opaque(date)), _expect("date", DV, lambda a: ENC_D(a.value.sym))),
    ("str", dict(value=Str), _expect("string", SV, lambda a: a.value)),
]


def _int_text(v):
    if isinstance(v, z3.ExprRef):
        return z3.If(v < 0, z3.Concat(z3.StringVal("-"), z3.IntToStr(-v)), z3.IntToStr(v))
    return str(v)


def _dispatch(a, r, p):
    v = a.value
    for name, sig, post in CASES:
        t = sig["value"]
        if (name == "bool" and (isinstance(v, bool) or (isinstance(v, z3.ExprRef) and z3.is_bool(v)))) or \
           (name == "int" and ((isinstance(v, int) and not isinstance(v, bool)) or (isinstance(v, z3.ExprRef) and z3.is_int(v)))) or \
           (name == "str" and (isinstance(v, str) or (isinstance(v, z3.ExprRef) and z3.is_string(v)))) or \
           (isinstance(v, OpaqueV) and name == {float: "float", Decimal: "Decimal", datetime: "datetime", date: "date"}.get(v.pytype)):
            return post(a, r, p)
    raise TypeError("no case")


contract(
    "odfdo.element_typed:ElementTyped.set_value_and_type",
    sig=[dict(self=_elem(), **sig) for _n, sig, _p in CASES],
    ensures=[Clause("dispatch", {"C06"}, _dispatch)],
    inline=ATTR_INLINE,
    note="value_type / text / currency left at their default None (the typed-value round trip of C06); the "
         "attribute wrappers are interpreted from their source down to lxml's get/set/attrib",
)



# --------------------------------------------------------------------- Meta.set_user_defined_metadata
def _h_text_set(en, con, vals, site):
    vals["self"].fields["__text"] = vals["text"]
    return None


def _h_from_tag(en, con, vals, site):
    from odfdo.element import Element
    from pyvc.engine import ObjV
    return ObjV(Element, {"_Element__element": new_node({}), "_do_init": False, "__tag": vals["tag_or_elem"]}, model=ELEM)


contract("odfdo.element:Element.text.fset", call=_h_text_set, **_EXT)
contract("odfdo.element:Element.from_tag", call=_h_from_tag, **_EXT)
contract("odfdo.element:Element.get_elements", call=lambda en, con, vals, site: __import__("pyvc.engine").engine.ListV(
    __import__("pyvc.lists").lists.LConc([])), trusted=True, sig={},
    note="XPath evaluation (lxml); here: the case where no entry of that name exists yet")
contract("odfdo.xmlpart:XmlPart.get_elements", call=lambda en, con, vals, site: __import__("pyvc.engine").engine.ListV(
    __import__("pyvc.lists").lists.LConc([])), trusted=True, sig={},
    note="XPath evaluation (lxml); here: the case where no entry of that name exists yet")
contract("odfdo.meta:Meta.get_meta_body", call=lambda en, con, vals, site: _h_from_tag(en, con, {"tag_or_elem": "office:meta"}, site), **_EXT)


def _meta_expect(type_name, text):
    def post(a, r, p):
        md = p.locals_.metadata
        t = md.ref.fields.get("__text")
        exp = text(a)
        if isinstance(t, z3.ExprRef) or isinstance(exp, z3.ExprRef):
            from pyvc.lists import lift
            teq = lift(t) == lift(exp)
        else:
            teq = t == exp
        return S.And(md.equals("meta:value-type", type_name), md.equals("meta:name", a.name), teq)
    return post


META_CASES = [
    ("bool", dict(value=Bool), _meta_expect("boolean", lambda a: S.If(a.value, "true", "false"))),
    ("int", dict(value=Int), _meta_expect("float", lambda a: _int_text(a.value))),
    ("float", dict(value=_num(float)), _meta_expect("float", lambda a: STR_OF(a.value.sym))),
    ("Decimal", dict(value=_num(Decimal)), _meta_expect("float", lambda a: STR_OF(a.value.sym))),
    ("datetime", dict(value=Opaque(datetime)), _meta_expect("date", lambda a: ENC_DT(a.value.sym))),
    ("date", dict(value=Opaque(date)), _meta_expect("date", lambda a: ENC_D(a.value.sym))),
    ("str", dict(value=Str), _meta_expect("string", lambda a: a.value)),
]


def _meta_dispatch(a, r, p):
    v = a.value
    for name, sig, post in META_CASES:
        if (name == "bool" and (isinstance(v, z3.ExprRef) and z3.is_bool(v))) or \
           (name == "int" and (isinstance(v, z3.ExprRef) and z3.is_int(v))) or \
           (name == "str" and (isinstance(v, z3.ExprRef) and z3.is_string(v))) or \
           (isinstance(v, OpaqueV) and name == {float: "float", Decimal: "Decimal", datetime: "datetime", date: "date"}.get(v.pytype)):
            return post(a, r, p)
    raise TypeError("no case")


def _meta_obj():
    from odfdo.meta import Meta
    return Model("Meta", elem_maker, cls=Meta)


contract(
    "odfdo.meta:Meta.set_user_defined_metadata",
    sig=[dict(self=_meta_obj(), name=Str, **sig) for _n, sig, _p in META_CASES],
    ensures=[Clause("dispatch", {"C06"}, _meta_dispatch)],
    inline=ATTR_INLINE,
    note="case: no user-defined entry of that name exists yet (the XPath lookup is assumed to return none)",
)
