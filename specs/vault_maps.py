"""Contracts for the position-map kernel of element_cached.py (C01 C02 C07 C10).

A map M over k run-length items is the list of inclusive end positions:
M[i] - M[i-1] = rep_i >= 1 with M[-1] = -1, i.e. strictly increasing and M[0] >= 0.
"""
import z3

from pyvc import lists as L
from pyvc.spec import (Clause, Const, Int, IntList, Inv, LView, NoneT, OneOf, OptInt, S, contract,
                       strictly_increasing)

ALL_MAP = {"C01", "C02", "C07"}


def eff(r):
    """`repeated or 1`"""
    if r is None:
        return 1
    return S.If(r == 0, 1, r)


def before(m, i):
    """M[i-1] with M[-1] = -1"""
    return S.If(i > 0, lambda: m[i - 1], -1)


def _shift(term, delta):
    x = z3.FreshInt("x")
    return L.LMap(term, x, x + delta)


def imo_term(a):
    """insert_map_once as a list term: m[:i] ++ [before+rep] ++ [x+rep for x in m[i:]]"""
    m, i, rep = a.orig_map, a.odf_idx, eff(a.repeated)
    t = m.term
    return L.cat_term(L.cat_term(L.slice_term(t, None, i), L.LConc([before(m, i) + rep])),
                      _shift(L.slice_term(t, i, None), rep))


def emo_term(a):
    """_erase_map_once as a list term: m[:i] ++ [x-rep_i for x in m[i+1:]]"""
    m, i = a.orig_map, a.odf_idx
    t = m.term
    rep = m[i] - before(m, i)
    return L.cat_term(L.slice_term(t, None, i), _shift(L.slice_term(t, L.simp_int(L.zint(i) + 1), None), -rep))


# --------------------------------------------------------------------- insert_map_once
def _imo_runs(a, r, p):
    m, i, rep = a.orig_map, a.odf_idx, eff(a.repeated)
    n = S.len(m)
    return S.And(
        S.len(r) == n + 1,
        S.forall(lambda j: r[j] == m[j], 0, i, pats=lambda j: [r[j]]),
        r[i] == before(m, i) + rep,
        S.forall(lambda j: r[j] == m[j - 1] + rep, i + 1, n + 1, pats=lambda j: [r[j]]),
    )


def _imo_alias(a, r, p):
    m, i = a.orig_map, a.odf_idx
    n = S.len(m)
    same = S.same(r, a.orig_map)
    # appended at the end: the argument itself is returned (mutated); else a fresh list and
    # the argument is left unchanged
    return S.And(
        S.Iff(same, i == n),
        S.Implies(i < n, lambda: S.list_eq(p.orig_map, m)),
    )


contract(
    "odfdo.element_cached:insert_map_once",
    sig=dict(orig_map=IntList, odf_idx=Int, repeated=OptInt),
    requires=lambda a: S.And(strictly_increasing(a.orig_map), a.odf_idx >= 0,
                             S.Or(a.repeated is None, lambda: a.repeated >= 0)),
    raises={IndexError: lambda a: a.odf_idx > S.len(a.orig_map)},
    ensures=[
        Clause("runs", ALL_MAP, _imo_runs),
        Clause("wf", ALL_MAP, lambda a, r, p: strictly_increasing(r)),
        Clause("alias", {"C10", "C02"}, _imo_alias),
        Clause("term", ALL_MAP, lambda a, r, p: S.list_eq(r, LView(imo_term(a)) if isinstance(r, LView) else r)),
    ],
    result=IntList,
    result_alias=lambda a: (a.odf_idx == S.len(a.orig_map), "orig_map"),
    modifies=lambda a: ["orig_map"],
    result_term=imo_term,
)


# --------------------------------------------------------------------- _erase_map_once
def _emo_runs(a, r, p):
    m, i = a.orig_map, a.odf_idx
    n = S.len(m)
    rep = m[i] - before(m, i)
    return S.And(
        S.len(r) == n - 1,
        S.forall(lambda j: r[j] == m[j], 0, i, pats=lambda j: [r[j]]),
        S.forall(lambda j: r[j] == m[j + 1] - rep, i, n - 1, pats=lambda j: [r[j]]),
    )


contract(
    "odfdo.element_cached:_erase_map_once",
    sig=dict(orig_map=IntList, odf_idx=Int),
    requires=lambda a: S.And(strictly_increasing(a.orig_map), a.odf_idx >= 0),
    raises={IndexError: lambda a: a.odf_idx >= S.len(a.orig_map)},
    ensures=[
        Clause("runs", ALL_MAP, _emo_runs),
        Clause("wf", ALL_MAP, lambda a, r, p: strictly_increasing(r)),
        Clause("fresh", {"C10", "C02"}, lambda a, r, p: S.And(
            S.Not(S.same(r, a.orig_map)), S.list_eq(p.orig_map, a.orig_map))),
        Clause("term", ALL_MAP, lambda a, r, p: S.list_eq(r, LView(emo_term(a)) if isinstance(r, LView) else r)),
    ],
    result=IntList,
    result_term=emo_term,
)


# --------------------------------------------------------------------- find_odf_idx
def _find_post(a, r, p):
    m, pos = a.cache_map, a.position
    n = S.len(m)
    if r is None:
        return S.Or(n == 0, lambda: m[n - 1] < pos)
    return S.And(0 <= r, r < n, pos <= m[r], S.Implies(r > 0, lambda: m[r - 1] < pos))


contract(
    "odfdo.element_cached:find_odf_idx",
    sig=dict(cache_map=IntList, position=Int),
    requires=lambda a: strictly_increasing(a.cache_map),
    ensures=[
        Clause("located", ALL_MAP | {"C08", "C19"}, _find_post),
        Clause("pure", {"C10", "C15"}, lambda a, r, p: S.list_eq(p.cache_map, a.cache_map)),
    ],
    result=OptInt,
)
