"""Bounded native contracts for the package layer of jdum/odfdo: C03, C04, C11.

Three contracts, all *bounded stand-ins* (never counted as proved).  One generated case is one
(document source, edit history, packaging, target) tuple; the real `Document` API is driven and the result
is judged by independent readers: `zipfile` / `os.walk` for the package layer, raw `lxml` (C14N, own
manifest reader, own ODF 1.2 section 6.1.2 white-space interpreter) for the XML layer.

  odfdo.document:Document.save#roundtrip   C03  save / reopen loses nothing, in every packaging
  odfdo.document:Document.save#package     C04  every saved zip is a valid ODF package, manifest == content
  odfdo.document:Document.save#neutral     C11  pretty / packaging change layout only; save never edits memory

Known genuine defects (clauses kept as the properties state them; one FINDINGS entry per root cause, at the end):
  C03 edit_visible                  set_part() of an XML part whose tree is cached is ignored by save
  C04 manifest_once                 the same content added twice -> two manifest entries for one part
  C04 manifest_nothing_absent       del_part leaves the manifest entry
  C04 manifest_lists_all            add_file then clone: the clone saves the file without a manifest entry
  C11 paragraph_text (+ flat_paragraph_text)   pretty save adds visible white space in mixed content
  C11 memory_unchanged, pretty_then_plain_same pretty_indent runs on the live trees
  C11 flat_wellformed               flat XML export raises KeyError on './' image hrefs (chart.odt)
Every other label passes on the unchanged tree (quick and thorough).  The ODF zips under tests/samples and the four
templates were all found coherent (manifest == content) by the independent reader, so C04 needs no input exclusion.

Self-test with tools/mutrun.py (quick tier, one textual edit each).  A mutant counts as reported when a label that
passes on the unchanged tree fails, or when a label with a known finding fails on inputs it did not fail on before
(counts: unchanged -> mutated).
kills:
  C03 container.py  Container.save: loop "Load parts else they will be considered deleted" iterates over []
                    -> names 0->240, identity 0->288, reopen 0->432, fixpoint 0->18
  C03 document.py   Document.save plain branch serialises only content.xml (`and path == ODF_CONTENT`)
                    -> xml_infoset 0->144, reopen 0->288, edit_visible 84->252
  C03 container.py  _save_zip: `if data is None: continue` removed -> no_error 0->32 (del_part history);
                    inverted (`is not None`) -> names 0->448, identity, reopen, no_error
  C03 container.py  _save_zip "Everything else" loop skips Thumbnails/* -> names 0->448, identity 0->112, reopen
  C03 container.py  _save_folder: write_bytes(content[:-1]) -> xml_infoset 0->747, binary_identical 0->315, identity, reopen
  C03 container.py  _read_zip (BytesIO source) skips Pictures/* -> reopen 0->44, names 0->20, fixpoint 0->20
  C04 container.py  `writestr("mimetype", mimetype, ZIP_STORED)` -> ZIP_DEFLATED -> mimetype_stored 0->600
  C04 container.py  manifest written before mimetype -> mimetype_first 0->600, no_duplicate_names 0->600
  C04 container.py  `part_names.remove("mimetype")` -> pass -> no_duplicate_names 0->600
  C04 document.py   container_from_template: `manifest.set_media_type("/", mimetype)` dropped -> manifest_root_type 0->200
  C04 document.py   container_from_template: `container.mimetype = mimetype` dropped -> mimetype_value 0->200
  C04 document.py   _add_binary_part: `manifest.add_full_path(path, blob.mime_type)` dropped -> manifest_lists_all 24->384
  C11 container.py  pretty_indent: text:span no longer textual (`tag in TEXT_CONTENT and tag != 'text:span'`)
                    -> paragraph_text 116->138
  C11 container.py  pretty_indent first branch: `if not textual_parent:` guard removed -> paragraph_text 116->186
  C11 container.py  pretty_indent last branch: tail overwritten even when not empty -> paragraph_text 116->194
  C11 container.py  pretty_indent pops text:style-name -> attributes 0->652
  C11 xmlpart.py    XmlPart.serialize indents the live tree on a plain save -> memory_unchanged 46->70 (memory_plain*)
  C11 container.py  _save_folder skips Thumbnails/* -> same_parts 0->234
not killed (equivalent for the property): document.py pretty save does not indent settings.xml - layout only.
"""
from __future__ import annotations

import functools
import io
import itertools
import os
import posixpath
import tempfile
import re
import zipfile

from lxml import etree

from pyvc.native import NativeResult
from pyvc.spec import Clause, Int, Str, contract

# ----------------------------------------------------------------------------------------------- constants
SAMPLES_DIR = "/repo/tests/samples"
TEMPLATE_FILES = {"text": "text.ott", "spreadsheet": "spreadsheet.ots", "presentation": "presentation.otp",
                  "drawing": "drawing.otg"}
# samples used by the quick tier (one per document kind + the ones with embedded objects / notes / frames)
QUICK_SAMPLES = ["example.odt", "frame_image.odp", "simple_table.ods", "base_shapes.odg", "chart.odt", "note.odt",
                 "issue_28_pretty.odt", "span_a.odt"]
QUICK_MAX_BYTES = 300_000

NS = {
    "office": "urn:oasis:names:tc:opendocument:xmlns:office:1.0",
    "text": "urn:oasis:names:tc:opendocument:xmlns:text:1.0",
    "draw": "urn:oasis:names:tc:opendocument:xmlns:drawing:1.0",
    "dr3d": "urn:oasis:names:tc:opendocument:xmlns:dr3d:1.0",
    "svg": "urn:oasis:names:tc:opendocument:xmlns:svg-compatible:1.0",
    "meta": "urn:oasis:names:tc:opendocument:xmlns:meta:1.0",
    "dc": "http://purl.org/dc/elements/1.1/",
    "manifest": "urn:oasis:names:tc:opendocument:xmlns:manifest:1.0",
    "style": "urn:oasis:names:tc:opendocument:xmlns:style:1.0",
    "xlink": "http://www.w3.org/1999/xlink",
    "table": "urn:oasis:names:tc:opendocument:xmlns:table:1.0",
    "chart": "urn:oasis:names:tc:opendocument:xmlns:chart:1.0",
    "form": "urn:oasis:names:tc:opendocument:xmlns:form:1.0",
    "math": "http://www.w3.org/1998/Math/MathML",
    "presentation": "urn:oasis:names:tc:opendocument:xmlns:presentation:1.0",
}


def _q(prefixed):
    p, _, local = prefixed.partition(":")
    return "{%s}%s" % (NS[p], local)


MANIFEST_PATH = "META-INF/manifest.xml"
MARK = "verif edit Zq7"
PNG_BYTES = b"\x89PNG\r\n\x1a\n" + b"verif-png-like-payload" * 8
JPG_BYTES = b"\xff\xd8\xff\xe0" + b"verif-jpg-like-payload" * 8
RAW_COMMENT = b"<!--VERIF-RAW-PART-->"
_WS = " \t\r\n"


def _parser():
    return etree.XMLParser(resolve_entities=False, no_network=True, remove_blank_text=False, huge_tree=True)


# ----------------------------------------------------------------------------------------------- independent readers
def _norm_name(name):
    """Zip member name -> posix relative path (trailing '/' of directory entries kept)."""
    is_dir = name.endswith("/")
    n = posixpath.normpath(name)
    return n + "/" if is_dir else n


def _read_zip(src):
    """src: path or bytes.  Returns (infolist, {name: bytes} for file members, [directory member names])."""
    f = io.BytesIO(src) if isinstance(src, (bytes, bytearray)) else src
    with zipfile.ZipFile(f) as zf:
        infos = zf.infolist()
        files, dirs = {}, []
        for zi in infos:
            n = _norm_name(zi.filename)
            if n.endswith("/"):
                dirs.append(n)
            else:
                files[n] = zf.read(zi)   # for a duplicated name the last one wins, as for every zip reader
    return infos, files, dirs


def _read_folder(path):
    files, dirs = {}, []
    for root, dnames, fnames in os.walk(path):
        rel = os.path.relpath(root, path)
        rel = "" if rel == "." else rel.replace(os.sep, "/") + "/"
        for fn in fnames:
            with open(os.path.join(root, fn), "rb") as fh:
                files[rel + fn] = fh.read()
        if not dnames and not fnames and rel:
            dirs.append(rel)
    return files, dirs


def _read_saved(kind, where):
    """kind: 'zip' (where = path or bytes) / 'folder' (where = directory).  -> (infos|None, files, dirs)."""
    if kind == "folder":
        files, dirs = _read_folder(where)
        return None, files, dirs
    return _read_zip(where)


def _is_xml_name(name):
    return name.endswith((".xml", ".rdf"))


def _strip_generator(root):
    for g in list(root.iter(_q("meta:generator"))):
        par = g.getparent()
        tail = g.tail or ""
        prev = g.getprevious()
        if prev is not None:
            prev.tail = (prev.tail or "") + tail
        else:
            par.text = (par.text or "") + tail
        par.remove(g)


@functools.lru_cache(maxsize=24)
def _canon(data, strip_gen=False):
    """C14N (with comments) of serialized XML; optionally without the meta:generator stamp."""
    root = etree.fromstring(data, _parser())
    if strip_gen:
        _strip_generator(root)
    return etree.tostring(root.getroottree(), method="c14n", with_comments=True)


def _canon_tree(tree):
    return etree.tostring(tree, method="c14n", with_comments=True)


def _same_content(name, exp, got):
    """exp: ('tree', c14n bytes) | ('bytes', data); got: bytes.  -> (ok, 'xml'|'bin', detail)."""
    kind, data = exp
    if kind == "bytes" and data == got:
        return True, "xml" if _is_xml_name(name) else "bin", ""
    if kind == "tree" or _is_xml_name(name):
        strip = posixpath.basename(name) == "meta.xml"
        try:
            e = data if (kind == "tree" and not strip) else _canon(bytes(data), strip)
            g = _canon(bytes(got), strip)
        except etree.XMLSyntaxError as ex:
            return False, "xml", f"{name}: not well-formed ({ex})"
        if e == g:
            return True, "xml", ""
        return False, "xml", f"{name}: C14N differs ({_first_diff(e, g)})"
    return False, "bin", f"{name}: {len(data)} bytes expected, {len(got)} bytes found, not identical"


def _first_diff(a, b):
    n = min(len(a), len(b))
    i = next((k for k in range(n) if a[k] != b[k]), n)
    lo = max(0, i - 40)
    return f"at {i}: expected ...{a[lo:i + 40]!r} got ...{b[lo:i + 40]!r}"


# ----------------------------------------------------------------------------------------------- sources
def _source_list(quick):
    out = ["template:" + t for t in TEMPLATE_FILES]
    names = sorted(os.listdir(SAMPLES_DIR))
    if quick:
        names = [n for n in QUICK_SAMPLES if n in names]
    for n in names:
        p = os.path.join(SAMPLES_DIR, n)
        if not (os.path.isfile(p) and zipfile.is_zipfile(p)):
            continue
        if quick and os.path.getsize(p) > QUICK_MAX_BYTES:
            continue
        try:
            with zipfile.ZipFile(p) as zf:
                if not zf.read("mimetype").startswith(b"application/vnd.oasis.opendocument."):
                    continue
        except Exception:  # noqa
            continue
        out.append("sample:" + n)
    return out


def _source_file(source, td=None):
    import odfdo
    kind, _, name = source.partition(":")
    if kind == "template":
        return os.path.join(os.path.dirname(odfdo.__file__), "templates", TEMPLATE_FILES[name])
    if kind == "sample":
        return os.path.join(SAMPLES_DIR, name)
    if kind == "gen":
        return _make_generated(name, td)
    raise ValueError(source)


def _open_source(source, td=None):
    """-> (Document, info) ; info: file (backing file read independently), files, mimetype (expected)."""
    from odfdo import Document
    kind, _, name = source.partition(":")
    path = _source_file(source, td)
    _infos, files, dirs = _read_zip(path)
    mt = files["mimetype"].decode()
    if kind == "template":
        doc = Document(name)
        mt = mt.replace("-template", "")
    else:
        doc = Document(path)
    return doc, dict(kind=kind, file=path, files=files, dirs=dirs, mimetype=mt)


def _doc_kind(mimetype):
    return mimetype.rsplit(".", 1)[-1].replace("-template", "")


# ----------------------------------------------------------------------------------------------- memory snapshot
def _snapshot(doc):
    """The effective in-memory content of every live part, read from the data structures themselves
    (parsed tree if there is one, else the container bytes, else the not-yet-loaded backing store)."""
    cont = doc.container
    parts = cont._Container__parts
    xmlparts = doc._Document__xmlparts
    backing = {}
    if cont.path is not None:
        p = str(cont.path)
        if os.path.isdir(p):
            backing = _read_folder(p)[0]
        elif os.path.isfile(p) and zipfile.is_zipfile(p):
            backing = _read_zip(p)[1]
    names = set(backing) | {n for n, v in parts.items() if v is not None and not n.endswith("/")}
    names -= {n for n, v in parts.items() if v is None}
    snap = {}
    for n in names:
        xp = xmlparts.get(n)
        tree = getattr(xp, "_XmlPart__tree", None) if xp is not None else None
        if tree is not None:
            snap[n] = ("tree", _canon_tree(tree))
        elif parts.get(n) is not None:
            snap[n] = ("bytes", bytes(parts[n]))
        else:
            snap[n] = ("bytes", backing[n])
    return snap


def _snap_equal(name, a, b):
    """Strict equality of two snapshot entries (modulo the generator stamp for meta.xml)."""
    if a == b:
        return True, ""
    if a[0] == "bytes" and b[0] == "bytes" and not _is_xml_name(name):
        return False, f"{name}: bytes differ"
    strip = posixpath.basename(name) == "meta.xml"
    try:
        ca, cb = _canon(a[1], strip), _canon(b[1], strip)
    except etree.XMLSyntaxError as ex:
        return False, f"{name}: not well-formed ({ex})"
    if ca == cb:
        return True, ""
    return False, f"{name}: {_first_diff(ca, cb)}"


def _touch_all(doc):
    doc.body
    doc.styles.root
    doc.meta.root
    doc.manifest.root
    doc.get_part("settings").root


# =============================================================================================== C03
C03_HISTORIES = ["none", "read_all", "body", "style", "meta", "add_file", "del_part", "setpart_fresh", "setpart_cached",
                 "setpart_read", "object_edit"]
C03_CONFIGS = [("zip", "path"), ("zip", "bytesio"), ("folder", "path"), ("folder", "path-default")]


# edits applied to the reopened document just before the second, in-place save (the target already exists and
# holds the parts of the first save: nothing of it may survive that the document no longer has)
C03_LATE_HISTORIES = ["del_part@2", "add_file@2", "setpart_fresh@2", "setpart_read@2"]


def _c03_gen(con, sigcase, count, seed):
    quick = count <= 200
    for src in _source_list(quick):
        for hist in C03_HISTORIES + C03_LATE_HISTORIES:
            for pack, target in C03_CONFIGS:
                if hist.endswith("@2") and target == "bytesio":
                    continue     # the second save is "in place": it needs a path
                yield dict(source=src, history=hist, packaging=pack, target=target, cycles=2)
    # one-cycle cases: the same alphabet on the four templates (cheap, keeps the 1-cycle shape in scope)
    for src in ["template:" + t for t in TEMPLATE_FILES]:
        for hist in C03_HISTORIES:
            for pack, target in C03_CONFIGS:
                yield dict(source=src, history=hist, packaging=pack, target=target, cycles=1)


def _find_text(data, marker):
    root = etree.fromstring(data, _parser())
    for el in root.iter():
        if not isinstance(el.tag, str):
            continue
        if el.text == marker or marker in el.attrib.values():
            return True
    return False


def _deletable_part(files):
    """A part that Document.del_part accepts: the thumbnail if there is one, else the first non-mandatory file."""
    cands = sorted(n for n in files if n not in ("mimetype", MANIFEST_PATH) and
                   posixpath.basename(n) not in ("content.xml", "styles.xml", "meta.xml", "settings.xml", "manifest.xml"))
    pref = [n for n in cands if n.startswith("Thumbnails/")]
    return (pref or cands or [None])[0]


class _NotInDomain(Exception):
    pass


def _c03_edit(doc, hist, info, td):
    """Apply the edit; returns (added names, check(saved files) -> (ok, detail)); removed names go to info['removed']."""
    from odfdo import DrawPage, Paragraph, Style, Table
    kind = _doc_kind(info["mimetype"])
    if hist == "none":
        return set(), None
    if hist == "read_all":
        _touch_all(doc)
        return set(), None
    if hist == "body":
        if kind == "spreadsheet":
            table = doc.body.get_table(0)
            if table is None:
                table = Table("VerifTable")
                doc.body.append(table)
            table.set_value((0, 0), MARK)
        elif kind in ("presentation", "graphics"):
            doc.body.append(DrawPage("verifpage", name=MARK))
        else:
            doc.body.append(Paragraph(MARK))
            from odfdo import Element
            doc.body.append(Element.from_tag('<text:p>x<text:span>c<text:tab/></text:span>y<text:a xlink:type="simple" '
                                             'xlink:href="#z">d<text:line-break/></text:a>e</text:p>'))
        return set(), lambda files: (_find_text(files["content.xml"], MARK), f"{MARK!r} not found in saved content.xml")
    if hist == "style":
        doc.insert_style(Style("paragraph", name="VerifStyleZq7"))

        def chk(files):
            root = etree.fromstring(files["styles.xml"], _parser())
            ok = any(e.get(_q("style:name")) == "VerifStyleZq7" for e in root.iter(_q("style:style")))
            return ok, "style 'VerifStyleZq7' not found in saved styles.xml"
        return set(), chk
    if hist == "meta":
        doc.meta.title = MARK

        def chk(files):
            root = etree.fromstring(files["meta.xml"], _parser())
            got = [e.text for e in root.iter(_q("dc:title"))]
            return got == [MARK], f"dc:title in saved meta.xml is {got!r}"
        return set(), chk
    if hist == "add_file":
        p = os.path.join(td, "verif_img.png")
        with open(p, "wb") as fh:
            fh.write(PNG_BYTES)
        uri = doc.add_file(p)
        return {uri}, lambda files: (files.get(uri) == PNG_BYTES, f"added file {uri!r} not found byte-identical")
    if hist == "del_part":
        part = _deletable_part(info["files"])
        doc.del_part(part)
        info["removed"] = {part}
        return set(), lambda files: (part not in files, f"deleted part {part!r} is still in the saved package")
    if hist == "object_edit":
        # an edit inside an embedded object (its own content.xml, reached through Document.get_part)
        names = sorted(n for n in info["files"] if re.fullmatch(r"Object \d+/content\.xml", n))
        if not names:
            raise _NotInDomain("no embedded object in this source")
        part = doc.get_part(names[0])
        part.root.append(Paragraph(MARK))
        return set(), lambda files: (_find_text(files[names[0]], MARK), f"{MARK!r} not found in saved {names[0]}")
    if hist in ("setpart_fresh", "setpart_cached", "setpart_read"):
        raw = info["files"]["content.xml"].replace(b"</office:body>", RAW_COMMENT + b"</office:body>")
        assert raw != info["files"]["content.xml"]
        if hist == "setpart_cached":
            doc.body
        doc.set_part("content.xml", raw)
        if hist == "setpart_read":
            doc.get_part("content.xml")       # a reader between set_part and save must see (and keep) the new bytes

        def chk(files):
            ok = _canon(files["content.xml"]) == _canon(raw)
            if not ok and info.get("pretty_cfg"):
                # written pretty-printed: the same document up to ignorable white space (comment kept)
                tmp = NativeResult()
                _compare_projections("content.xml", _project(raw), _project(files["content.xml"]), tmp)
                ok = not tmp.failures
            return ok, "bytes given to set_part('content.xml', ...) are not what the saved content.xml holds"
        return set(), chk
    raise ValueError(hist)


def _c03_call(con, fn, argvals, labels):
    res = NativeResult()
    src, hist, pack, target, cycles = (argvals[k] for k in ("source", "history", "packaging", "target", "cycles"))
    fail = res.failures.append
    notes = []
    # "path-default": the save is called with the library's defaults (a folder is written pretty-printed): XML parts are
    # then compared up to the white space ODF consumers ignore (the layout-neutral projection of C11), not as infosets
    pretty_cfg = target == "path-default"
    pkw = {} if pretty_cfg else {"pretty": False}

    def same(n, exp, got):
        if pretty_cfg and _is_xml_name(n):
            if bytes(exp[1]) == bytes(got):
                return True, "xml", ""          # also the zero-length XML parts of the templates
            tmp = NativeResult()
            try:
                strip = posixpath.basename(n) == "meta.xml"      # the generator stamp is C11's stated exception
                _compare_projections(n, _project(_canon(bytes(exp[1]), strip)), _project(_canon(bytes(got), strip)), tmp)
            except Exception as e:  # noqa
                return False, "xml", f"{n}: {type(e).__name__}: {e}"
            return (not tmp.failures), "xml", (tmp.failures[0][1] if tmp.failures else "")
        return _same_content(n, exp, got)
    with tempfile.TemporaryDirectory(prefix="pyvc_c03_") as td:
        try:
            from odfdo import Document
            doc, info = _open_source(src)
            info["pretty_cfg"] = pretty_cfg
            late = hist.endswith("@2")
            added, check = (set(), None) if late else _c03_edit(doc, hist, info, td)
        except _NotInDomain as e:
            res.in_domain = False
            res.outcome = str(e)
            return res
        except Exception as e:  # noqa
            res.checked = 1
            fail(("ensures:no_error", f"open/edit raised {type(e).__name__}: {e}"))
            return res
        expected_names = ({n for n in info["files"]} | set(added)) - info.get("removed", set())
        first_saved = None
        out_path = os.path.join(td, "out.od" + {"text": "t", "spreadsheet": "s", "presentation": "p"}.get(
            _doc_kind(info["mimetype"]), "g"))
        for cyc in range(1, cycles + 1):
            try:
                if late and cyc == 2:
                    added, check = _c03_edit(doc, hist[:-2], info, td)
                    expected_names = ({n for n in info["files"]} | set(added)) - info.get("removed", set())
                    first_saved = None
                snap = _snapshot(doc)
                if target == "bytesio":
                    buf = io.BytesIO()
                    doc.save(buf, packaging=pack, **pkw)
                    where = buf.getvalue()
                    reopen_arg = buf
                elif cyc == 1:
                    doc.save(out_path, packaging=pack, **pkw)
                    where = out_path + (".folder" if pack == "folder" else "")
                    reopen_arg = where
                else:   # in place: the document was opened from `where`
                    doc.save(packaging=pack, **pkw)
                    reopen_arg = where
                res.checked += 1
                _infos, files, dirs = _read_saved(pack, where)
            except Exception as e:  # noqa
                res.checked += 1
                fail(("ensures:no_error", f"cycle {cyc}: save raised {type(e).__name__}: {e}"))
                return res
            # no part lost or invented
            res.checked += 1
            got_names = set(files)
            if got_names != expected_names or set(snap) != expected_names:
                fail(("ensures:names", f"cycle {cyc}: lost {sorted(expected_names - got_names)} invented "
                      f"{sorted(got_names - expected_names)} (memory had {len(snap)} parts)"))
            if _infos is not None:
                zn = [zi.filename for zi in _infos]
                if len(zn) != len(set(zn)):
                    fail(("ensures:names", f"cycle {cyc}: duplicate zip members {sorted(n for n in set(zn) if zn.count(n) > 1)}"))
            bad_dirs = [d for d in dirs if d not in info["dirs"] and not any(f.startswith(d) for f in files)]
            if bad_dirs:
                fail(("ensures:names", f"cycle {cyc}: invented directory entries {bad_dirs}"))
            # content: XML parts as infosets, the rest byte-identical
            res.checked += 2
            for n in sorted(got_names & set(snap)):
                ok, cat, detail = same(n, snap[n], files[n])
                if not ok:
                    fail(("ensures:xml_infoset" if cat == "xml" else "ensures:binary_identical", f"cycle {cyc}: {detail}"))
            # the edit is what a reader of the file sees
            if check is not None:
                res.checked += 1
                try:
                    ok, detail = check(files)
                except Exception as e:  # noqa
                    ok, detail = False, f"independent reader raised {type(e).__name__}: {e}"
                if not ok:
                    fail(("ensures:edit_visible", f"cycle {cyc}: {detail}"))
            # unmodified open/save is the identity on content
            if hist in ("none", "read_all"):
                res.checked += 1
                for n in sorted(info["files"]):
                    if info["kind"] == "template" and n in ("mimetype", MANIFEST_PATH):
                        continue    # the template -> document retyping is C04's subject
                    if n not in files:
                        fail(("ensures:identity", f"cycle {cyc}: {n} of the source is missing"))
                        continue
                    ok, _cat, detail = same(n, ("bytes", info["files"][n]), files[n])
                    if not ok:
                        fail(("ensures:identity", f"cycle {cyc}: differs from the source: {detail}"))
            # iterating is a fixpoint
            if first_saved is None:
                first_saved = files
            else:
                res.checked += 1
                if set(files) != set(first_saved):
                    fail(("ensures:fixpoint", f"cycle {cyc}: part names changed {sorted(set(files) ^ set(first_saved))}"))
                for n in sorted(set(files) & set(first_saved)):
                    ok, _cat, detail = same(n, ("bytes", first_saved[n]), files[n])
                    if not ok:
                        fail(("ensures:fixpoint", f"cycle {cyc} vs cycle 1: {detail}"))
            # reopen with the library: it must see the same parts
            res.checked += 1
            try:
                doc2 = Document(reopen_arg)
                seen = {n for n in doc2.get_parts() if not n.endswith("/")}
                if seen != expected_names:
                    fail(("ensures:reopen", f"cycle {cyc}: reopened document lists lost {sorted(expected_names - seen)} "
                          f"invented {sorted(seen - expected_names)}"))
                for n in sorted(seen & set(snap)):
                    ok, _cat, detail = same(n, snap[n], doc2.container.get_part(n))
                    if not ok:
                        fail(("ensures:reopen", f"cycle {cyc}: reopened raw part: {detail}"))
                for n in ("content.xml", "styles.xml", "meta.xml", "settings.xml", MANIFEST_PATH):
                    if n in snap:
                        raw_root = doc2.get_part(n).root._Element__element
                        got = etree.tostring(raw_root.getroottree(), encoding="UTF-8")
                        ok, _cat, detail = same(n, snap[n], got)
                        if not ok:
                            fail(("ensures:reopen", f"cycle {cyc}: reopened parsed part: {detail}"))
            except Exception as e:  # noqa
                fail(("ensures:reopen", f"cycle {cyc}: reopening raised {type(e).__name__}: {e}"))
                return res
            # the next cycle continues with a document nobody has read yet (the checks above loaded every part of
            # doc2, which hides defects of lazily loaded parts)
            doc = doc2 if target == "bytesio" else Document(reopen_arg)
            notes.append(f"cycle {cyc}: {len(files)} parts")
    res.outcome = "; ".join(notes)
    return res


_P03 = {"C03"}
contract(
    "odfdo.document:Document.save#roundtrip",
    sig=dict(source=Str, history=Str, packaging=Str, target=Str, cycles=Int),
    ensures=[
        Clause("no_error", _P03, lambda a, r, p: True),
        Clause("names", _P03, lambda a, r, p: True),
        Clause("xml_infoset", _P03, lambda a, r, p: True),
        Clause("binary_identical", _P03, lambda a, r, p: True),
        Clause("edit_visible", _P03, lambda a, r, p: True),
        Clause("identity", _P03, lambda a, r, p: True),
        Clause("fixpoint", _P03, lambda a, r, p: True),
        Clause("reopen", _P03, lambda a, r, p: True),
    ],
    gen=_c03_gen, call_native=_c03_call,
    bounded=dict(
        scope="sources {4 built-in templates} + {8 named samples (quick) / every ODF zip under tests/samples (thorough, 37)} "
              "x histories {none, read_all (parse the 5 XML parts), body (append paragraph / set cell A1 / append draw:page), "
              "style (insert_style common paragraph style), meta (set title), add_file (184-byte PNG-like file), del_part "
              "(thumbnail, else first non-mandatory part), "
              "setpart_fresh, setpart_cached, setpart_read (set_part('content.xml', raw with a comment) before / after reading "
              "body / followed by a read), object_edit (edit inside an embedded object's content.xml), and the late edits "
              "del_part@2, add_file@2, setpart_fresh@2, setpart_read@2 applied to the reopened, still unread document before "
              "the in-place second save} x {(zip,path), (zip,BytesIO), (folder,path)} with pretty=False, and (folder,path) with "
              "the library's default options (pretty-printed: XML parts compared up to ignorable white space) x 2 "
              "save/reopen cycles (checked after each; cycle 2 saves in place for path targets and starts from a document "
              "nobody has read) + the same on the 4 templates with 1 cycle",
        reason="zipfile / filesystem / lxml are outside the executor's fragment; the dict-with-symbolic-keys package "
               "model of DESIGN C03 is not closed"),
)


# =============================================================================================== C04
C04_HISTORIES = [
    "plain", "add_path", "add_path_twice", "add_same_content_two_names", "add_io", "add_io_twice", "add_path_then_io",
    "add_two_different", "add_then_del", "del_existing", "image_frame", "image_frame_twice", "merge_styles",
    "merge_styles_twice", "clone", "add_then_clone", "save_reopen_add", "add_save_reopen_add_same", "add_save_save",
    "del_save_reopen_save", "clone_add_save_original", "add_clone_del_save_clone", "clone_del_save_original",
    "add_del_add_same", "del_clone_save_both",
]
C04_MERGE_FROM = "background.odp"     # has a draw:fill-image in styles.xml, so merge copies a picture + manifest entry


def _c04_gen(con, sigcase, count, seed):
    quick = count <= 200
    for src in _source_list(quick):
        for hist in C04_HISTORIES:
            for target in ("path", "bytesio", "bytesio-pretty"):
                yield dict(source=src, history=hist, target=target)


def _manifest_entries(data):
    root = etree.fromstring(data, _parser())
    fp, mt = _q("manifest:full-path"), _q("manifest:media-type")
    return [(e.get(fp), e.get(mt)) for e in root.iter(_q("manifest:file-entry"))]


def _check_package(zbytes, mimetype, tag, res):
    """All C04 clauses on one saved zip, with zipfile + raw lxml only."""
    fail = res.failures.append
    res.checked += 8
    try:
        with zipfile.ZipFile(io.BytesIO(zbytes)) as zf:
            infos = zf.infolist()
            first = infos[0] if infos else None
            first_data = zf.read(first) if first is not None else b""
            names = [zi.filename for zi in infos]
            man_infos = [zi for zi in infos if zi.filename == MANIFEST_PATH]
            man = zf.read(man_infos[-1]) if man_infos else None
    except Exception as e:  # noqa
        fail(("ensures:zip_readable", f"{tag}: zipfile cannot read the result: {type(e).__name__}: {e}"))
        return
    if first is None or first.filename != "mimetype":
        fail(("ensures:mimetype_first", f"{tag}: first entry is {first.filename if first else None!r}"))
    else:
        mt = mimetype.encode()
        if first.compress_type != zipfile.ZIP_STORED or first.header_offset != 0 or \
                zbytes[30:38] != b"mimetype" or zbytes[38:38 + len(first_data)] != first_data:
            fail(("ensures:mimetype_stored", f"{tag}: compress_type={first.compress_type} header_offset="
                  f"{first.header_offset} bytes[30:60]={zbytes[30:60]!r}"))
        if first_data != mt:
            fail(("ensures:mimetype_value", f"{tag}: mimetype entry {first_data!r} != {mt!r}"))
    dups = sorted({n for n in names if names.count(n) > 1})
    if dups:
        fail(("ensures:no_duplicate_names", f"{tag}: duplicate zip members {dups}"))
    if man is None:
        fail(("ensures:manifest_lists_all", f"{tag}: no {MANIFEST_PATH}"))
        return
    try:
        entries = _manifest_entries(man)
    except etree.XMLSyntaxError as e:
        fail(("ensures:manifest_lists_all", f"{tag}: manifest not well-formed: {e}"))
        return
    files = {n for n in names if not n.endswith("/") and n not in ("mimetype", MANIFEST_PATH)}
    listed = [p for p, _m in entries if p != "/" and not (p or "").endswith("/")]
    missing = sorted(files - set(listed))
    absent = sorted(set(listed) - files)
    multi = sorted({p for p in listed if listed.count(p) > 1})
    if missing:
        fail(("ensures:manifest_lists_all", f"{tag}: in the zip but not in the manifest: {missing}"))
    if absent:
        fail(("ensures:manifest_nothing_absent", f"{tag}: in the manifest but not in the zip: {absent}"))
    if multi:
        fail(("ensures:manifest_once", f"{tag}: listed more than once: {[(p, listed.count(p)) for p in multi]}"))
    roots = [m for p, m in entries if p == "/"]
    if roots != [mimetype]:
        fail(("ensures:manifest_root_type", f"{tag}: '/' entries have media types {roots!r}, document is {mimetype!r}"))


def _c04_call(con, fn, argvals, labels):
    res = NativeResult()
    src, hist, target = argvals["source"], argvals["history"], argvals["target"]
    fail = res.failures.append
    saved = []

    with tempfile.TemporaryDirectory(prefix="pyvc_c04_") as td:
        png = os.path.join(td, "verif_img.png")
        png2 = os.path.join(td, "other_name.png")
        jpg = os.path.join(td, "verif_img2.jpg")
        for p, data in ((png, PNG_BYTES), (png2, PNG_BYTES), (jpg, JPG_BYTES)):
            with open(p, "wb") as fh:
                fh.write(data)
        counter = itertools.count(1)

        def save(doc, tag):
            k = next(counter)
            if target == "path":
                p = os.path.join(td, f"out{k}.odf")
                doc.save(p)
                with open(p, "rb") as fh:
                    data = fh.read()
                handle = p
            else:
                # "bytesio-pretty": every save of the history is pretty-printed (layout only, C11); the package
                # must be as coherent as the plain one
                buf = io.BytesIO()
                doc.save(buf, pretty=(target == "bytesio-pretty"))
                data = buf.getvalue()
                handle = buf
            saved.append((f"save {k} ({tag})", data))
            return handle

        try:
            from odfdo import Document, Frame, Paragraph
            doc, info = _open_source(src)
            # input assumption, checked independently: the source itself is coherent
            probe = NativeResult()
            with open(info["file"], "rb") as fh:
                _check_package(fh.read(), info["files"]["mimetype"].decode(), "source", probe)
            if probe.failures:
                res.in_domain = False
                res.outcome = f"source package is not coherent: {probe.failures[0]}"
                return res
            kind = _doc_kind(info["mimetype"])

            def existing_part():
                return _deletable_part(info["files"])

            def put_frame(d, uri, name):
                frame = Frame.image_frame(uri, name=name, size=("2cm", "2cm"), anchor_type="as-char")
                if kind == "text":
                    para = Paragraph("")
                    para.append(frame)
                    d.body.append(para)
                else:
                    pages = d.body.get_elements("descendant::draw:page")
                    (pages[0] if pages else d.body).append(frame)

            if hist == "plain":
                save(doc, "unmodified")
            elif hist == "add_path":
                doc.add_file(png); save(doc, "add_file(path)")
            elif hist == "add_path_twice":
                doc.add_file(png); doc.add_file(png); save(doc, "add_file(path) x2")
            elif hist == "add_same_content_two_names":
                doc.add_file(png); doc.add_file(png2); save(doc, "add_file(p1); add_file(p2 same content)")
            elif hist == "add_io":
                doc.add_file(io.BytesIO(PNG_BYTES)); save(doc, "add_file(BytesIO)")
            elif hist == "add_io_twice":
                doc.add_file(io.BytesIO(PNG_BYTES)); doc.add_file(io.BytesIO(PNG_BYTES)); save(doc, "add_file(BytesIO) x2")
            elif hist == "add_path_then_io":
                doc.add_file(png); doc.add_file(io.BytesIO(PNG_BYTES)); save(doc, "add_file(path); add_file(BytesIO)")
            elif hist == "add_two_different":
                doc.add_file(png); doc.add_file(jpg); save(doc, "add_file(png); add_file(jpg)")
            elif hist == "add_then_del":
                uri = doc.add_file(png); doc.del_part(uri); save(doc, "add_file; del_part(it)")
            elif hist == "del_existing":
                part = existing_part()
                if part is None:
                    res.in_domain = False
                    return res
                doc.del_part(part); save(doc, f"del_part({part!r})")
            elif hist == "image_frame":
                put_frame(doc, doc.add_file(png), "img1"); save(doc, "image frame")
            elif hist == "image_frame_twice":
                put_frame(doc, doc.add_file(png), "img1"); put_frame(doc, doc.add_file(png), "img2")
                save(doc, "same image in two frames")
            elif hist in ("merge_styles", "merge_styles_twice"):
                try:
                    for _ in range(2 if hist.endswith("twice") else 1):
                        other = Document(os.path.join(SAMPLES_DIR, C04_MERGE_FROM))
                        doc.merge_styles_from(other)
                except (NotImplementedError, ValueError, AttributeError, TypeError) as e:
                    res.in_domain = False      # merging these two documents is refused: not this property's subject
                    res.outcome = f"merge_styles_from raised {type(e).__name__}: {e}"
                    return res
                save(doc, hist)
            elif hist == "clone":
                save(doc.clone, "clone")
            elif hist == "add_then_clone":
                doc.add_file(png); save(doc.clone, "add_file; clone"); save(doc, "add_file (original)")
            elif hist == "clone_add_save_original":
                twin = doc.clone; twin.add_file(png); save(doc, "clone.add_file; save original"); save(twin, "the clone")
            elif hist == "add_clone_del_save_clone":
                uri = doc.add_file(png); twin = doc.clone; doc.del_part(uri)
                save(twin, "add_file; clone; original.del_part; save clone"); save(doc, "the original")
            elif hist == "clone_del_save_original":
                part = existing_part()
                if part is None:
                    res.in_domain = False
                    return res
                twin = doc.clone; twin.del_part(part); save(doc, "clone.del_part; save original"); save(twin, "the clone")
            elif hist == "del_clone_save_both":
                part = existing_part()
                if part is None:
                    res.in_domain = False
                    return res
                doc.del_part(part); twin = doc.clone; save(twin, "del_part; clone; save clone"); save(doc, "the original")
            elif hist == "add_del_add_same":
                uri = doc.add_file(png); doc.del_part(uri); doc.add_file(png); save(doc, "add_file; del_part; add_file(same)")
            elif hist == "save_reopen_add":
                h = save(doc, "unmodified"); d2 = Document(h); d2.add_file(png); save(d2, "reopen; add_file")
            elif hist == "add_save_reopen_add_same":
                doc.add_file(png); h = save(doc, "add_file"); d2 = Document(h); d2.add_file(png)
                save(d2, "reopen; add_file(same)")
            elif hist == "add_save_save":
                doc.add_file(png); save(doc, "add_file"); save(doc, "second save")
            elif hist == "del_save_reopen_save":
                part = existing_part()
                if part is None:
                    res.in_domain = False
                    return res
                doc.del_part(part); h = save(doc, f"del_part({part!r})"); save(Document(h), "reopen")
            else:
                raise ValueError(hist)
            res.checked += 1
        except Exception as e:  # noqa
            res.checked += 1
            fail(("ensures:no_error", f"history raised {type(e).__name__}: {e}"))
        for tag, data in saved:
            _check_package(data, info["mimetype"], tag, res)
    res.outcome = f"{len(saved)} saved zip(s)"
    return res


_P04 = {"C04"}
contract(
    "odfdo.document:Document.save#package",
    sig=dict(source=Str, history=Str, target=Str),
    ensures=[Clause(lab, _P04, lambda a, r, p: True) for lab in (
        "no_error", "zip_readable", "mimetype_first", "mimetype_stored", "mimetype_value", "no_duplicate_names",
        "manifest_lists_all", "manifest_nothing_absent", "manifest_once", "manifest_root_type")],
    gen=_c04_gen, call_native=_c04_call,
    bounded=dict(
        scope="sources {4 built-in templates} + {8 named samples (quick) / all 37 ODF zips of tests/samples (thorough)}, every "
              "source itself checked coherent first, x 25 histories over {new from template, open sample, add_file(path) "
              "once / twice / same content under two file names, add_file(BytesIO) once / twice / after path, two different "
              "files, add then del_part, del_part of an existing part, image frame (same image once / twice), "
              "merge_styles_from(background.odp) once / twice, clone, add_file then clone, save-reopen-add, "
              "add-save-reopen-add same, save twice, del-save-reopen-save, clone then add_file on the clone / del_part on the original or the "
              "clone with both documents saved, add-del-add of the same content} x target {path, BytesIO, BytesIO with every save "
              "pretty-printed}; every zip written along the history is checked",
        reason="zipfile entry list and lxml manifest are outside the executor's fragment; COH(doc) invariant of DESIGN C04 "
               "is not closed"),
)


# =============================================================================================== C11
P_TAG, H_TAG = _q("text:p"), _q("text:h")
S_TAG, TAB_TAG, LB_TAG = _q("text:s"), _q("text:tab"), _q("text:line-break")
BINARY_DATA = _q("office:binary-data")
# children of paragraph content for which the schema does not permit character data: their content is not part
# of the paragraph's text (ODF 1.2 part 1, 6.1.2 step 2); white space directly inside them is ignorable
_NON_CDATA_TAGS = {_q(t) for t in (
    "text:note", "text:ruby", "office:annotation", "office:annotation-end", "office:event-listeners",
    "text:tracked-changes", "text:change", "text:change-start", "text:change-end")}
_NON_CDATA_NS = {NS[k] for k in ("draw", "dr3d", "chart", "form", "table", "math", "presentation")}


def _is_object(el):
    tag = el.tag
    return tag in _NON_CDATA_TAGS or tag.partition("}")[0][1:] in _NON_CDATA_NS or tag in (P_TAG, H_TAG)


def _render_break(stream):
    """Reading 1 (every consumer): elements inside the paragraph are non-space placeholders."""
    out, prev_space = [], True
    for item in stream:
        if isinstance(item, tuple):
            out.append(item)
            prev_space = False
            continue
        for ch in item:
            if ch in _WS:
                if not prev_space:
                    out.append(" ")
                    prev_space = True
            else:
                out.append(ch)
                prev_space = False
    while out and out[-1] == " ":
        out.pop()
    merged = []
    for tok in out:
        if isinstance(tok, str) and merged and isinstance(merged[-1], str):
            merged[-1] += tok
        else:
            merged.append(tok)
    return tuple(merged)


def _render_literal(stream):
    """Reading 2 (the four steps of 6.1.2 read literally): only character data is concatenated, stripped and
    collapsed; elements are invisible to the collapse and are located by the count of non-space characters before."""
    chars, marks, nonspace = [], [], 0
    for item in stream:
        if isinstance(item, tuple):
            marks.append((nonspace,) + item)
        else:
            chars.append(item)
            nonspace += sum(1 for ch in item if ch not in _WS)
    return " ".join("".join(chars).split()), tuple(marks)


def _project(data):
    """-> dict(shape=[(depth, tag)], attrs=[sorted attribute items], paras=[(tag, reading1, reading2)], other=[...])."""
    root = etree.fromstring(data, _parser())
    shape, attrs, paras, other = [], [], [], []

    def note(el, depth):
        if not isinstance(el.tag, str):
            shape.append((depth, "#comment-or-pi"))
            attrs.append(((None, (el.text or "").strip()),))
            return False
        shape.append((depth, el.tag))
        attrs.append(tuple(sorted(el.attrib.items())))
        return True

    def generic(el, depth):
        if not note(el, depth):
            return
        if el.tag in (P_TAG, H_TAG):
            stream = []
            inline(el, depth, stream)
            paras.append((el.tag.rpartition("}")[2], _render_break(stream), _render_literal(stream)))
            return
        pieces = [el.text or ""] + [(c.tail or "") for c in el]
        if el.tag == BINARY_DATA:
            norm = "".join("".join(pieces).split())
        else:
            norm = tuple(" ".join(p.split()) for p in pieces)
            if not any(norm):
                norm = ()
        other.append((el.tag, norm))
        for c in el:
            generic(c, depth + 1)

    def inline(el, depth, stream):
        if el.text:
            stream.append(el.text)
        for c in el:
            if not isinstance(c.tag, str):
                note(c, depth + 1)
            elif c.tag == S_TAG:
                note(c, depth + 1)
                cnt = c.get(_q("text:c"))
                stream.append(("s", int(cnt) if cnt and cnt.isdigit() else 1))
            elif c.tag == TAB_TAG:
                note(c, depth + 1)
                stream.append(("tab",))
            elif c.tag == LB_TAG:
                note(c, depth + 1)
                stream.append(("line-break",))
            elif _is_object(c):
                stream.append(("object", c.tag.rpartition("}")[2]))
                generic(c, depth + 1)
            else:                       # span, link, field ...: character data permitted, part of the paragraph
                note(c, depth + 1)
                inline(c, depth + 1, stream)
            if c.tail:
                stream.append(c.tail)

    generic(root, 0)
    return dict(shape=shape, attrs=attrs, paras=paras, other=other)


def _compare_documents(tag, base, other, res, flat=False):
    """base / other: {name: bytes}.  Evaluates same_parts, structure, attributes, paragraph_text, other_text."""
    fail = res.failures.append
    res.checked += 5
    if set(base) != set(other):
        fail(("ensures:same_parts", f"{tag}: only in plain zip {sorted(set(base) - set(other))}, only in variant "
              f"{sorted(set(other) - set(base))}"))
    for n in sorted(set(base) & set(other)):
        if base[n] == other[n]:
            continue
        if not _is_xml_name(n):
            fail(("ensures:same_parts", f"{tag}: non-XML part {n} differs"))
            continue
        try:
            pa, pb = _project(base[n]), _project(other[n])
        except etree.XMLSyntaxError as e:
            fail(("ensures:structure", f"{tag}: {n} not well-formed: {e}"))
            continue
        _compare_projections(f"{tag}: {n}", pa, pb, res)


def _compare_projections(tag, pa, pb, res):
    fail = res.failures.append
    if pa["shape"] != pb["shape"]:
        i = next((k for k, (x, y) in enumerate(zip(pa["shape"], pb["shape"])) if x != y), min(len(pa["shape"]), len(pb["shape"])))
        fail(("ensures:structure", f"{tag}: element structure differs at node {i}: {pa['shape'][i:i + 2]} vs {pb['shape'][i:i + 2]}"))
        return
    if pa["attrs"] != pb["attrs"]:
        i = next(k for k, (x, y) in enumerate(zip(pa["attrs"], pb["attrs"])) if x != y)
        fail(("ensures:attributes", f"{tag}: attributes of node {i} {pa['shape'][i]} differ: {pa['attrs'][i]} vs {pb['attrs'][i]}"))
    bad = [(k, x, y) for k, (x, y) in enumerate(zip(pa["paras"], pb["paras"])) if x[1] != y[1] and x[2] != y[2]]
    if bad or len(pa["paras"]) != len(pb["paras"]):
        k, x, y = bad[0] if bad else (-1, None, None)
        fail(("ensures:paragraph_text", f"{tag}: {len(bad)} of {len(pa['paras'])} paragraphs/headings read differently; "
              f"first #{k}: {x[1] if x else None!r} -> {y[1] if y else None!r}"))
    if pa["other"] != pb["other"]:
        i = next((k for k, (x, y) in enumerate(zip(pa["other"], pb["other"])) if x != y), -1)
        fail(("ensures:other_text", f"{tag}: character data outside paragraphs differs: {pa['other'][i]!r} vs {pb['other'][i]!r}"))


# ---- generated paragraphs: every adjacency of text / white space / text:s / tab / line-break / span / link / note / frame
_ATOMS = {
    "T": "a",
    "W": " ",
    "S": "<text:s/>",
    "TAB": "<text:tab/>",
    "LB": "<text:line-break/>",
    "SPAN": '<text:span text:style-name="T1">b</text:span>',
    "SPANTAB": '<text:span text:style-name="T1">c<text:tab/></text:span>',
    "LINK": '<text:a xlink:type="simple" xlink:href="#x">d</text:a>',
    "NOTE": '<text:note text:id="n1" text:note-class="footnote"><text:note-citation>1</text:note-citation>'
            '<text:note-body><text:p text:style-name="Footnote">e</text:p></text:note-body></text:note>',
    "FRAME": '<draw:frame draw:name="f1" text:anchor-type="as-char" svg:width="1cm" svg:height="1cm">'
             '<draw:text-box><text:p>f</text:p></draw:text-box></draw:frame>',
}
_ATOM_NAMES = list(_ATOMS)


def _generated_specs(quick):
    """singles, every ordered pair, every pair between two letters (so that the strip of leading / trailing white
    space of the paragraph cannot mask a change); thorough: every ordered triple as well."""
    out = [(a,) for a in _ATOM_NAMES]
    pairs = list(itertools.product(_ATOM_NAMES, repeat=2))
    out += pairs
    out += [("T",) + t + ("T",) for t in pairs]
    if not quick:
        out += list(itertools.product(_ATOM_NAMES, repeat=3))
    return ["gen:" + "+".join(t) for t in out]


def _paragraph_xml(spec):
    inner = "".join(_ATOMS[a] for a in spec.split("+"))
    return f"<text:p>{inner}</text:p>"


def _make_generated(spec, td):
    """Write an .odt whose body is one heading and the generated paragraph, built with zipfile + lxml only."""
    import odfdo
    tpl = os.path.join(os.path.dirname(odfdo.__file__), "templates", TEMPLATE_FILES["text"])
    infos, files, _dirs = _read_zip(tpl)
    root = etree.fromstring(files["content.xml"], _parser())
    body = root.find(_q("office:body")).find(_q("office:text"))
    for ch in list(body):
        body.remove(ch)
    body.text = None
    nsdecl = " ".join(f'xmlns:{k}="{NS[k]}"' for k in ("text", "draw", "svg", "xlink", "office"))
    frag = etree.fromstring(f'<x {nsdecl}><text:h text:outline-level="1">T<text:tab/></text:h>{_paragraph_xml(spec)}</x>')
    for ch in list(frag):
        body.append(ch)
    etree.cleanup_namespaces(root)
    files = dict(files)
    files["content.xml"] = etree.tostring(root.getroottree(), encoding="UTF-8", xml_declaration=True)
    mt = files["mimetype"].decode().replace("-template", "")
    files["mimetype"] = mt.encode()
    man = etree.fromstring(files[MANIFEST_PATH], _parser())
    for e in man.iter(_q("manifest:file-entry")):
        if e.get(_q("manifest:full-path")) == "/":
            e.set(_q("manifest:media-type"), mt)
    files[MANIFEST_PATH] = etree.tostring(man.getroottree(), encoding="UTF-8", xml_declaration=True)
    path = os.path.join(td, "generated.odt")
    with zipfile.ZipFile(path, "w", zipfile.ZIP_DEFLATED) as zf:
        zf.writestr("mimetype", files["mimetype"], zipfile.ZIP_STORED)
        for n, data in files.items():
            if n != "mimetype":
                zf.writestr(n, data)
    return path


C11_VARIANTS_A = ["pretty_zip", "folder_default", "folder_plain", "flat_xml", "pretty_zip_edited", "folder_default_edited"]
C11_VARIANTS_B = ["memory_plain", "memory_plain_parsed", "memory_pretty", "memory_pretty_parsed", "memory_folder",
                  "twice_plain", "pretty_then_plain"]


def _c11_gen(con, sigcase, count, seed):
    quick = count <= 200
    for src in _source_list(quick):
        for v in C11_VARIANTS_A + C11_VARIANTS_B:
            yield dict(source=src, variant=v)
    for src in _generated_specs(quick):
        single = "+" not in src
        for v in ("pretty_zip", "folder_default") + (("memory_pretty", "pretty_then_plain") if single else ()):
            yield dict(source=src, variant=v)


def _save_zip_bytes(doc, pretty):
    buf = io.BytesIO()
    doc.save(buf, pretty=pretty)
    return buf.getvalue()


def _c11_call(con, fn, argvals, labels):
    res = NativeResult()
    src, variant = argvals["source"], argvals["variant"]
    fail = res.failures.append
    with tempfile.TemporaryDirectory(prefix="pyvc_c11_") as td:
        try:
            def fresh():
                return _open_source(src, td)[0]

            if variant.endswith("_edited"):
                # the same comparison on a document edited in memory and not saved yet: a file added (manifest and
                # binary part changed), the title set
                def edited():
                    d = fresh()
                    png = os.path.join(td, "verif_c11.png")
                    with open(png, "wb") as fh:
                        fh.write(PNG_BYTES)
                    d.add_file(png)
                    d.meta.title = MARK
                    return d
                base = _read_zip(_save_zip_bytes(edited(), False))[1]
                if variant == "pretty_zip_edited":
                    other = _read_zip(_save_zip_bytes(edited(), True))[1]
                    _compare_documents("edited in memory: pretty=True vs pretty=False (zip)", base, other, res)
                else:
                    target = os.path.join(td, "out_e.odt")
                    edited().save(target, packaging="folder")
                    other = _read_folder(target + ".folder")[0]
                    _compare_documents("edited in memory: folder (default options) vs plain zip", base, other, res)
                res.outcome = f"{variant}: {len(base)} parts"
                return res
            if variant in C11_VARIANTS_A:
                base = _read_zip(_save_zip_bytes(fresh(), False))[1]
                if variant == "pretty_zip":
                    other = _read_zip(_save_zip_bytes(fresh(), True))[1]
                    _compare_documents("pretty=True vs pretty=False (zip)", base, other, res)
                elif variant in ("folder_default", "folder_plain"):
                    target = os.path.join(td, "out.odt")
                    if variant == "folder_default":
                        fresh().save(target, packaging="folder")
                    else:
                        fresh().save(target, packaging="folder", pretty=False)
                    other = _read_folder(target + ".folder")[0]
                    _compare_documents(f"{variant} vs plain zip", base, other, res)
                else:   # flat XML: well-formed, and it includes the non-empty paragraphs of styles.xml + content.xml
                    res.checked += 2
                    want = []
                    for n in ("meta.xml", "settings.xml", "styles.xml", "content.xml"):
                        if n in base:
                            want += [x for x in _project(base[n])["paras"] if x[1]]
                    for pretty in (False, True):
                        buf = io.BytesIO()
                        try:
                            fresh().save(buf, packaging="xml", pretty=pretty)
                            flat = _project(buf.getvalue())
                        except Exception as e:  # noqa
                            fail(("ensures:flat_wellformed", f"flat XML pretty={pretty}: no well-formed export: "
                                  f"{type(e).__name__}: {e}"))
                            continue
                        got = [x for x in flat["paras"] if x[1]]
                        bad = [(k, x, y) for k, (x, y) in enumerate(zip(want, got)) if x[1] != y[1] and x[2] != y[2]]
                        if len(want) != len(got) or bad:
                            k, x, y = bad[0] if bad else (-1, None, None)
                            fail(("ensures:flat_paragraph_text", f"flat XML pretty={pretty}: {len(want)} non-empty paragraphs "
                                  f"in the zip, {len(got)} in the flat file, {len(bad)} read differently; first #{k}: "
                                  f"{x[1] if x else None!r} -> {y[1] if y else None!r}"))
                res.outcome = f"{variant}: {len(base)} parts"
                return res

            doc = fresh()
            if variant.endswith("_parsed"):
                _touch_all(doc)
            if variant.startswith("memory_"):
                before = _snapshot(doc)
                if variant == "memory_folder":
                    doc.save(os.path.join(td, "out.odt"), packaging="folder")
                else:
                    _save_zip_bytes(doc, "pretty" in variant)
                after = _snapshot(doc)
                res.checked += 1
                if set(before) != set(after):
                    fail(("ensures:memory_unchanged", f"{variant}: live parts changed {sorted(set(before) ^ set(after))}"))
                changed = []
                for n in sorted(set(before) & set(after)):
                    ok, detail = _snap_equal(n, before[n], after[n])
                    if not ok:
                        changed.append(detail)
                if changed:
                    fail(("ensures:memory_unchanged", f"{variant}: {len(changed)} part(s) differ in memory after save: {changed[0]}"))
                res.outcome = f"{variant}: {len(before)} parts, {len(changed)} changed"
            elif variant == "twice_plain":
                one = _read_zip(_save_zip_bytes(doc, False))[1]
                two = _read_zip(_save_zip_bytes(doc, False))[1]
                _strict_same("second plain save vs first", one, two, "save_twice_same", res)
            elif variant == "pretty_then_plain":
                ref = _read_zip(_save_zip_bytes(fresh(), False))[1]
                _save_zip_bytes(doc, True)
                two = _read_zip(_save_zip_bytes(doc, False))[1]
                _strict_same("plain save after a pretty save vs plain save of a fresh copy", ref, two,
                             "pretty_then_plain_same", res)
            else:
                raise ValueError(variant)
        except Exception as e:  # noqa
            res.checked += 1
            fail(("ensures:no_error", f"{variant}: raised {type(e).__name__}: {e}"))
    return res


def _strict_same(tag, a, b, label, res):
    res.checked += 1
    if set(a) != set(b):
        res.failures.append((f"ensures:{label}", f"{tag}: part names differ {sorted(set(a) ^ set(b))}"))
    bad = []
    for n in sorted(set(a) & set(b)):
        ok, _cat, detail = _same_content(n, ("bytes", a[n]), b[n])
        if not ok:
            bad.append(detail)
    if bad:
        res.failures.append((f"ensures:{label}", f"{tag}: {len(bad)} part(s) differ: {bad[0]}"))
    res.outcome = f"{len(a)} parts, {len(bad)} differ"


_P11 = {"C11"}
contract(
    "odfdo.document:Document.save#neutral",
    sig=dict(source=Str, variant=Str),
    ensures=[Clause(lab, _P11, lambda a, r, p: True) for lab in (
        "no_error", "same_parts", "structure", "attributes", "paragraph_text", "other_text", "flat_wellformed",
        "flat_paragraph_text", "memory_unchanged", "save_twice_same", "pretty_then_plain_same")],
    gen=_c11_gen, call_native=_c11_call,
    bounded=dict(
        scope="(i) sources {4 templates} + {8 named samples (quick) / all 37 ODF zips of tests/samples (thorough)} x variants "
              "{pretty_zip, folder_default, folder_plain: each against a plain zip save of a fresh copy; flat_xml (pretty "
              "False/True): well-formed and the same non-empty paragraphs in order; memory_plain, memory_pretty (each also "
              "with the 5 XML parts parsed first), memory_folder; twice_plain; pretty_then_plain}; (ii) generated text "
              "documents (built with zipfile + lxml) holding one heading and one paragraph: every sequence of length 1, every "
              "ordered pair, every ordered pair between two letters (quick: 210) plus every ordered triple (thorough: 1210) over "
              "the 10 atoms {letter, single space, text:s, text:tab, text:line-break, span, span ending with a tab, link, "
              "footnote, as-char frame with text box} x variants {pretty_zip, folder_default} (length 1 also memory_pretty, "
              "pretty_then_plain); a paragraph counts as changed only if it reads differently under both the placeholder and "
              "the literal reading of ODF 1.2 section 6.1.2",
        reason="pretty_indent / serialize work on lxml trees (outside the executor's fragment); the samples sweep is a "
               "bounded replay by design (DESIGN C11)"),
)


# ----------------------------------------------------------------------------------------------- findings
# Confirmed on the unchanged tree (each witness is stand-alone: run with PYTHONPATH=/repo/src, sets REPRODUCED).
# For every entry the candidate fix named in `fix` was applied to a scratch copy with tools/mutrun.py and the
# failing label went to 0 failures with no other label changing, which also cross-checks the oracle.
_T03 = "odfdo.document:Document.save#roundtrip"
_T04 = "odfdo.document:Document.save#package"
_T11 = "odfdo.document:Document.save#neutral"
FINDINGS = [
    dict(property="C03", target=_T03, clause="ensures:edit_visible",
         smallest_input=dict(source="template:text", history="setpart_cached", packaging="zip", target="bytesio", cycles=1),
         what_fails="Document.set_part('content.xml', data) is silently ignored by save() when the content tree has been "
                    "parsed before (doc.body read): Document.set_part only evaluates `self.__xmlparts[path]` under "
                    "suppress(KeyError) instead of dropping the cached part, and save() re-serialises the stale tree over the "
                    "bytes just given.  Without the earlier doc.body the same call is honoured.",
         fix="document.py Document.set_part: replace the no-op `with suppress(KeyError): self.__xmlparts[path]` by "
             "`self.__xmlparts.pop(path, None)` (and reset self.__body for content.xml) - 1 to 3 lines",
         witness='import io, zipfile\nfrom odfdo import Document\ndoc = Document("text")\ndoc.body                                   # the content tree is now cached\nraw = doc.container.get_part("content.xml").replace(b"</office:body>", b"<!--RAW--></office:body>")\ndoc.set_part("content.xml", raw)\nbuf = io.BytesIO(); doc.save(buf)\nsaved = zipfile.ZipFile(io.BytesIO(buf.getvalue())).read("content.xml")\ndoc2 = Document("text")                    # same call without reading body first: honoured\ndoc2.set_part("content.xml", raw)\nbuf2 = io.BytesIO(); doc2.save(buf2)\nsaved2 = zipfile.ZipFile(io.BytesIO(buf2.getvalue())).read("content.xml")\nREPRODUCED = b"<!--RAW-->" not in saved and b"<!--RAW-->" in saved2\n'),
    dict(property="C04", target=_T04, clause="ensures:manifest_once",
         smallest_input=dict(source="template:text", history="add_path_twice", target="bytesio"),
         what_fails="Adding the same content twice (add_file(path) twice, the same bytes under two file names, BytesIO twice, "
                    "the same image in two frames, add-save-reopen-add, merge_styles_from the same document twice) stores "
                    "one part Pictures/<hash> but two manifest:file-entry elements for it: Manifest.add_full_path updates "
                    "the existing entry and then falls through to append another one.",
         fix="manifest.py Manifest.add_full_path: `return` after `self.set_media_type(full_path, media_type)` - 1 line",
         witness='import io, os, tempfile, zipfile\nfrom lxml import etree\nfrom odfdo import Document\nM = "{urn:oasis:names:tc:opendocument:xmlns:manifest:1.0}"\nwith tempfile.TemporaryDirectory() as td:\n    p = os.path.join(td, "img.png")\n    open(p, "wb").write(b"\\x89PNG\\r\\n\\x1a\\n" + b"x" * 32)\n    doc = Document("text")\n    uri1 = doc.add_file(p)\n    uri2 = doc.add_file(p)                 # same file again (e.g. the same image used in two frames)\n    buf = io.BytesIO(); doc.save(buf)\nzf = zipfile.ZipFile(io.BytesIO(buf.getvalue()))\npaths = [e.get(M + "full-path") for e in etree.fromstring(zf.read("META-INF/manifest.xml")).iter(M + "file-entry")]\nREPRODUCED = uri1 == uri2 and paths.count(uri1) == 2 and zf.namelist().count(uri1) == 1\nprint(paths.count(uri1), "manifest entries for", uri1)\n'),
    dict(property="C04", target=_T04, clause="ensures:manifest_nothing_absent",
         smallest_input=dict(source="template:text", history="del_existing", target="bytesio"),
         what_fails="Document.del_part(path) removes the part from the package but leaves its manifest:file-entry, so the "
                    "saved manifest lists a file that is absent (also after reopen and save again).",
         fix="document.py Document.del_part: `with suppress(KeyError): self.manifest.del_full_path(path)` before "
             "`self.container.del_part(path)` - 2 lines",
         witness='import io, zipfile\nfrom lxml import etree\nfrom odfdo import Document\nM = "{urn:oasis:names:tc:opendocument:xmlns:manifest:1.0}"\ndoc = Document("text")\ndoc.del_part("Thumbnails/thumbnail.png")\nbuf = io.BytesIO(); doc.save(buf)\nzf = zipfile.ZipFile(io.BytesIO(buf.getvalue()))\npaths = [e.get(M + "full-path") for e in etree.fromstring(zf.read("META-INF/manifest.xml")).iter(M + "file-entry")]\nREPRODUCED = "Thumbnails/thumbnail.png" not in zf.namelist() and "Thumbnails/thumbnail.png" in paths\n'),
    dict(property="C04", target=_T04, clause="ensures:manifest_lists_all",
         smallest_input=dict(source="template:text", history="add_then_clone", target="bytesio"),
         what_fails="After add_file the clone of the document saves the new Pictures/<hash> part without a manifest entry: "
                    "Document.clone copies the container (which has the new bytes) but starts with an empty XML-part cache, "
                    "so the manifest edit that only lives in the parsed Manifest tree is dropped (the C10 defect 'clone "
                    "drops unsaved edits', seen at the package layer).",
         fix="document.py Document.clone: serialise the cached XML parts into the container before cloning it "
             "(`for path, part in self.__xmlparts.items(): self.container.set_part(path, part.serialize())`) - 2 to 3 lines",
         witness='import io, zipfile\nfrom lxml import etree\nfrom odfdo import Document\nM = "{urn:oasis:names:tc:opendocument:xmlns:manifest:1.0}"\ndoc = Document("text")\nuri = doc.add_file(io.BytesIO(b"\\x89PNG\\r\\n\\x1a\\n" + b"x" * 32))\nbuf = io.BytesIO(); doc.clone.save(buf)    # the clone keeps the new part but not the (parsed, unsaved) manifest edit\nzf = zipfile.ZipFile(io.BytesIO(buf.getvalue()))\npaths = [e.get(M + "full-path") for e in etree.fromstring(zf.read("META-INF/manifest.xml")).iter(M + "file-entry")]\nREPRODUCED = uri in zf.namelist() and uri not in paths\n'),
    dict(property="C11", target=_T11, clause="ensures:paragraph_text",
         smallest_input=dict(source="gen:T+TAB+TAB+T", variant="pretty_zip"),
         what_fails="save(pretty=True) (and the default folder / flat-XML saves, which are pretty) changes the readable text: "
                    "pretty_indent gives every element that is not in TEXT_CONTENT (text:s, text:tab, text:line-break, "
                    "text:note, draw:frame, ...) and sits inside a paragraph with an empty tail the tail '\\n' + indent, which "
                    "is a visible space when another element or text follows: 'a<TAB><TAB>b' is written as 'a<TAB> <TAB>b'; "
                    "DESIGN's 'a<draw:frame/><text:span>b</text:span>' likewise.  Counted only when the paragraph reads "
                    "differently under both readings of 6.1.2: 5 of the 41 sources (chair.odt, dormeur_notes.odt, "
                    "issue_28_pretty.odt, md_fixed.odt, variable.odt), 57 of the 210 generated quick paragraphs.",
         fix="container.py pretty_indent, last branch (non textual element with textual parent): delete the two lines "
             "`if not elem.tail: elem.tail = \"\\n\" + ending_level * TAB` - 2 lines; paragraph_text then has 0 failures in "
             "the thorough tier",
         witness='import io, zipfile\nfrom lxml import etree\nfrom odfdo import Document, Paragraph\nT = "{urn:oasis:names:tc:opendocument:xmlns:text:1.0}"\ndef saved_paragraph(pretty):\n    doc = Document("text")\n    doc.body.clear()\n    doc.body.append(Paragraph("a\\t\\tb"))       # <text:p>a<text:tab/><text:tab/>b</text:p>\n    buf = io.BytesIO(); doc.save(buf, pretty=pretty)\n    root = etree.fromstring(zipfile.ZipFile(io.BytesIO(buf.getvalue())).read("content.xml"))\n    p = [e for e in root.iter(T + "p")][-1]\n    return [p.text] + [(c.tag.rpartition("}")[2], c.tail) for c in p]\nplain, pretty = saved_paragraph(False), saved_paragraph(True)\nprint(plain, pretty)\n# plain:  [\'a\', (\'tab\', None), (\'tab\', \'b\')]       reads  a<TAB><TAB>b\n# pretty: [\'a\', (\'tab\', \'\\n      \'), (\'tab\', \'b\')]  reads  a<TAB> <TAB>b  (white space between two tabs is not collapsed away)\nREPRODUCED = plain[1][1] is None and pretty[1][1] is not None and pretty[1][1].strip() == "" and pretty[1][1] != ""\n'),
    dict(property="C11", target=_T11, clause="ensures:memory_unchanged",
         also=["ensures:pretty_then_plain_same"],
         smallest_input=dict(source="template:text", variant="memory_pretty"),
         what_fails="A pretty save (pretty=True, or packaging='folder' with the default pretty) edits the in-memory document: "
                    "XmlPart.custom_pretty_tree runs pretty_indent on the live root, and Document.save parses the four "
                    "standard parts to do so.  All 5 XML parts change (white space), a later plain save writes the indented "
                    "trees, and with the previous finding the live paragraph text itself changes ('a\\t\\tb' becomes "
                    "'a\\t\\n        \\tb').  Plain saves leave memory unchanged (memory_plain*, twice_plain pass).",
         fix="xmlpart.py XmlPart.custom_pretty_tree: `root = deepcopy(tree.getroot())` - 1 line (deepcopy is already "
             "imported); memory_unchanged and pretty_then_plain_same then have 0 failures",
         witness='import io, zipfile\nfrom odfdo import Document, Paragraph\ndef fresh():\n    doc = Document("text"); doc.body.clear(); doc.body.append(Paragraph("a\\t\\tb")); return doc\ndef plain_content(doc):\n    buf = io.BytesIO(); doc.save(buf, pretty=False)\n    return zipfile.ZipFile(io.BytesIO(buf.getvalue())).read("content.xml")\ndoc = fresh()\nbefore = doc.body.serialize()\ndoc.save(io.BytesIO(), pretty=True)            # must only write; it indents the live trees\nafter = doc.body.serialize()\ntext_changed = doc.body.get_paragraph(position=0).inner_text != "a\\t\\tb"\nlater_plain_differs = plain_content(doc) != plain_content(fresh())\nprint(repr(doc.body.get_paragraph(position=0).inner_text))\nREPRODUCED = before != after and text_changed and later_plain_differs\n'),
    dict(property="C11", target=_T11, clause="ensures:flat_wellformed",
         smallest_input=dict(source="sample:chart.odt", variant="flat_xml"),
         what_fails="Flat XML export raises KeyError for a document whose draw:image href starts with './' (embedded object "
                    "replacement image, as LibreOffice writes it): Container._encoded_image looks the href up verbatim in the "
                    "parts dict.  No file is produced.",
         fix="container.py Container._encoded_image: normalise the href as Document.get_part does and use .get "
             "(`content = self.__parts.get(path.lstrip('./'))`) - 1 to 2 lines",
         witness='import io\nfrom odfdo import Document\ndoc = Document("/repo/tests/samples/chart.odt")   # draw:image xlink:href="./ObjectReplacements/Object 1"\ntry:\n    doc.save(io.BytesIO(), packaging="xml")\n    REPRODUCED = False\nexcept KeyError as e:\n    print("KeyError", e)\n    REPRODUCED = True\n'),
]
