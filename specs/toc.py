"""Heading numbering (C20): TOC._header_numbering and scripts.headers.header_numbering carry the SAME
contract ("the same outline is what the heading-listing tools report").

Spec (from the property statement + LibreOffice outline numbering): for a heading of level L with
counters c (missing = absent):
   numbers = [c_1 or 1, ..., c_{L-1} or 1, (c_L or 0) + 1]; afterwards counters 1..L-1 hold those values,
   c_L is incremented, the contiguous block of counters L+1, L+2, ... is cleared, everything else is
   unchanged; the text is the numbers joined with '.' plus a final '.'."""
import z3

from pyvc.dictmodel import IntDictView, intdict_maker
from pyvc.spec import Clause, Int, Inv, LView, Model, S, contract, qforall

P = {"C20"}


def _old_or(a_d, k, default):
    return a_d.get(k, default)


def _dict_after_prefix(a, d, upto):
    """counters 1..upto-1 are set (old value or 1); every other key is untouched"""
    o = a.level_indexes
    i = z3.FreshInt("k")
    return qforall([i], z3.And(
        z3.Implies(z3.And(1 <= i, i < upto), z3.And(d.has(i), d.val(i) == o.get(i, 1))),
        z3.Implies(z3.Or(i < 1, i >= upto), z3.And(d.has(i) == o.has(i), d.val(i) == o.val(i)))),
        [d.has(i), d.val(i)])


def _inv0(a, v):
    d, nums, k = v.level_indexes, v.numbers, v.k_
    o = a.level_indexes
    return z3.And(
        S.len(nums) == k,
        S.forall(lambda j: nums[j] == o.get(j + 1, 1), 0, k, pats=lambda j: [nums[j]]),
        _dict_after_prefix(a, d, k + 1),
        d.finite(), d.lo <= o.lo, d.hi >= o.hi, z3.Implies(k >= 1, z3.And(d.lo <= 1, d.hi >= k)),
    )


def _dict_in_loop1(a, d, idx):
    o = a.level_indexes
    lvl = a.level
    i = z3.FreshInt("k")
    return qforall([i], z3.And(
        z3.Implies(z3.And(1 <= i, i < lvl), z3.And(d.has(i), d.val(i) == o.get(i, 1))),
        z3.Implies(i == lvl, z3.And(d.has(i), d.val(i) == o.get(lvl, 0) + 1)),
        z3.Implies(z3.And(lvl < i, i < idx), z3.Not(d.has(i))),
        z3.Implies(z3.Or(i < 1, i >= idx), z3.And(d.has(i) == o.has(i), d.val(i) == o.val(i)))),
        [d.has(i), d.val(i)])


def _inv1(a, v):
    d = v.level_indexes
    o = a.level_indexes
    return z3.And(v.idx >= a.level + 1, _dict_in_loop1(a, d, v.idx), d.finite(),
                  S.forall(lambda j: o.has(j), a.level + 1, v.idx, pats=lambda j: [o.has(j)]),
                  _numbers_spec(a, v.numbers))


def _numbers_spec(a, nums):
    o = a.level_indexes
    lvl = a.level
    return z3.And(
        S.len(nums) == lvl,
        S.forall(lambda j: nums[j] == o.get(j + 1, 1), 0, lvl - 1, pats=lambda j: [nums[j]]),
        nums[lvl - 1] == o.get(lvl, 0) + 1)


def expected_native(counters: dict, level: int):
    c = dict(counters)
    numbers = []
    for i in range(1, level):
        c.setdefault(i, 1)
        numbers.append(c[i])
    c[level] = c.get(level, 0) + 1
    numbers.append(c[level])
    i = level + 1
    while i in c:
        del c[i]
        i += 1
    return c, ".".join(str(n) for n in numbers) + "."


def _post_numbers(a, r, p):
    if isinstance(a.level_indexes, IntDictView):
        return _numbers_spec(a, p.locals_.numbers)
    return r == expected_native(a.level_indexes, a.level)[1]


def _post_dict(a, r, p):
    if isinstance(a.level_indexes, IntDictView):
        d, o, lvl = p.level_indexes, a.level_indexes, a.level
        # the cleared block is the maximal contiguous run of old counters above the level; its end e is
        # the final value of the function's local `idx` (ghost witness)
        e = p.locals_.idx
        return z3.And(e > lvl, z3.Not(o.has(e)), S.forall(lambda j: o.has(j), lvl + 1, e, pats=lambda j: [o.has(j)]),
                      _dict_in_loop1(a, d, e))
    return p.level_indexes == expected_native(a.level_indexes, a.level)[0]


def _post_format(a, r, p):
    """the text is join('.', str(numbers)) + '.'"""
    if isinstance(a.level_indexes, IntDictView):
        js = p.ghost_.get("joins", [])
        if len(js) != 1 or js[0]["sep"] != ".":
            return False
        return r == z3.Concat(js[0]["result"], z3.StringVal("."))
    return True


def _gen(con, sigcase, count, seed):
    import itertools
    import random
    rnd = random.Random(seed)
    # ODF outline levels run from 1 to 10: counters and requested levels up to the last one
    dicts = [{}, {1: 1}, {1: 2, 2: 3}, {1: 1, 2: 1, 3: 4}, {2: 5}, {1: 1, 3: 2}, {1: 3, 2: 1, 3: 1, 4: 2}, {4: 7},
             {k: k for k in range(1, 11)}, {9: 2, 10: 3}, {10: 5}, {1: 1, 9: 4, 10: 2}, {8: 1, 9: 1, 10: 1}]
    for d in dicts:
        for level in range(1, 11):
            yield {"level_indexes": dict(d), "level": level}
    for _ in range(count):
        d = {k: rnd.randint(1, 9) for k in rnd.sample(range(1, 11), rnd.randint(0, 6))}
        yield {"level_indexes": d, "level": rnd.randint(1, 10)}


class _HdrArgs:
    """view of (header, level_indexes, depth) exposing .level like the TOC variant"""

    def __init__(self, a):
        self.level_indexes = a.level_indexes
        self.level = a.header.attrs["text:outline-level"]
        self.depth = a.depth


def _wrap_hdr(fn):
    return lambda a, *rest: fn(_HdrArgs(a), *rest)


class _HdrView:
    def __init__(self, obj):
        self.ref = obj
        self.attrs = dict(obj.fields["__attrs"])


class _HdrModel:
    def view(self, en, obj):
        return _HdrView(obj)


def _hdr_maker(en, name, **kw):
    from odfdo.header import Header
    from pyvc.engine import ObjV
    from pyvc.xmlmodel import BaseModel
    m = type("HdrModel", (BaseModel,), {"view": lambda self, en, obj: _HdrView(obj)})()
    return ObjV(Header, {"__attrs": {"text:outline-level": z3.Int(name + ".level")}}, model=m)


def _h_get_attribute_integer(en, con, vals, site):
    from pyvc.attrmodel import ABSENT
    cur = vals["self"].fields["__attrs"].get(vals["name"])
    if cur is None or cur is ABSENT:
        return None
    return cur


contract("odfdo.element:Element.get_attribute_integer", call=_h_get_attribute_integer, trusted=True, sig={},
         note="thin wrapper over lxml attrib + int(): attribute-map model")


def _gen_hdr(con, sigcase, count, seed):
    from odfdo.header import Header
    for case in _gen(con, sigcase, count, seed):
        for depth in (case["level"], case["level"] + 2, 10):
            yield {"header": Header(case["level"], "t"), "level_indexes": case["level_indexes"], "depth": depth}


def _nat_level(a):
    h = a.header
    return h.attrs["text:outline-level"] if hasattr(h, "attrs") else int(h.get_attribute_integer("text:outline-level"))


contract(
    "odfdo.scripts.headers:header_numbering",
    sig=dict(header=Model("Header", _hdr_maker), level_indexes=Model("IntDict", intdict_maker), depth=Int),
    requires=lambda a: S.And(_nat_level(a) >= 1, _nat_level(a) <= a.depth,
                             (a.level_indexes.finite() if isinstance(a.level_indexes, IntDictView) else True),
                             (a.level_indexes.lo >= 1 if isinstance(a.level_indexes, IntDictView) else all(
                                 k >= 1 for k in a.level_indexes))),
    ensures=[Clause("numbers", P, lambda a, r, p: _post_numbers(_HdrArgs(a), r, p) if isinstance(
                 a.level_indexes, IntDictView) else r == expected_native(a.level_indexes, _nat_level(a))[1]),
             Clause("counters", P, lambda a, r, p: _post_dict(_HdrArgs(a), r, p) if isinstance(
                 a.level_indexes, IntDictView) else p.level_indexes == expected_native(a.level_indexes, _nat_level(a))[0]),
             Clause("format", P, lambda a, r, p: _post_format(_HdrArgs(a), r, p) if isinstance(
                 a.level_indexes, IntDictView) else True)],
    loops={0: Inv(_wrap_hdr(_inv0), modifies=["numbers", "level_indexes", "idx"]),
           1: Inv(_wrap_hdr(_inv1), modifies=["level_indexes", "idx"],
                  decreases=lambda a, v: z3.If(v.level_indexes.hi >= v.idx, v.level_indexes.hi - v.idx + 1, 0) + 1)},
    gen=_gen_hdr,
    note="same clauses as TOC._header_numbering: the TOC and the heading-listing tool number alike",
)


for _target in ("odfdo.toc:TOC._header_numbering",):
    contract(
        _target,
        sig=dict(level_indexes=Model("IntDict", intdict_maker), level=Int),
        requires=lambda a: S.And(a.level >= 1, (a.level_indexes.finite() if isinstance(a.level_indexes, IntDictView) else True),
                                 (a.level_indexes.lo >= 1 if isinstance(a.level_indexes, IntDictView) else all(
                                     k >= 1 for k in a.level_indexes))),
        ensures=[Clause("numbers", P, _post_numbers), Clause("counters", P, _post_dict), Clause("format", P, _post_format)],
        loops={0: Inv(_inv0, modifies=["numbers", "level_indexes", "idx"]),
               1: Inv(_inv1, modifies=["level_indexes", "idx"],
                      decreases=lambda a, v: z3.If(v.level_indexes.hi >= v.idx, v.level_indexes.hi - v.idx + 1, 0) + 1)},
        gen=_gen,
    )
