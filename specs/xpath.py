"""make_xpath_query: the text pasted into an XPath predicate must be a well-formed XPath 1.0 literal
denoting exactly the identifier (C14).

XPath 1.0 Literal ::= '"' [^"]* '"' | "'" [^']* "'"  — there is no escape mechanism, so a value
containing both quote kinds needs concat(...).
"""
import z3

from pyvc.spec import Clause, Const, Int, NoneT, OneOf, S, Str, contract

ID_KWARGS = {
    "table_name": "table:name", "style_name": "style:name", "display_name": "style:display-name",
    "text_name": "text:name", "text_id": "text:id", "draw_name": "draw:name", "draw_id": "draw:id",
    "office_name": "office:name", "change_id": "text:change-id", "office_title": "office:title",
    "note_class": "text:note-class", "text_style": "text:style-name", "draw_style": "draw:style-name",
    "table_style": "table:style-name", "page_layout": "style:page-layout-name",
    "master_page": "draw:master-page-name", "parent_style": "style:parent-style-name",
    "presentation_class": "presentation:class", "draw_text_style": "draw:text-style-name",
}


def literal_for(lit, v):
    """lit is a well-formed XPath literal whose value is exactly v (plain forms; concat forms are
    accepted natively by evaluating them)"""
    if isinstance(lit, z3.ExprRef) or isinstance(v, z3.ExprRef):
        from pyvc.lists import lift
        lit, v = lift(lit), lift(v)
        dq, sq = z3.StringVal('"'), z3.StringVal("'")
        return z3.Or(z3.And(lit == z3.Concat(dq, v, dq), z3.Not(z3.Contains(v, dq))),
                     z3.And(lit == z3.Concat(sq, v, sq), z3.Not(z3.Contains(v, sq))))
    from lxml import etree
    try:
        return etree.XPath(lit)(etree.Element("x")) == v
    except etree.XPathError:
        return False


def _post(kw, attr):
    def post(a, r, p):
        v = a[kw]
        q = a.query_string
        if isinstance(r, z3.ExprRef) or isinstance(v, z3.ExprRef):
            from pyvc.lists import lift
            r, v, q = lift(r), lift(v), lift(q)
            head = z3.Concat(q, z3.StringVal(f"[@{attr}="))
            n = z3.Length(r) - z3.Length(head) - 1
            lit = z3.SubString(r, z3.Length(head), n)
            return z3.If(z3.Length(v) == 0, r == q,
                         z3.And(z3.PrefixOf(head, r), z3.SuffixOf(z3.StringVal("]"), r), literal_for(lit, v)))
        if v == "":
            return r == q
        head = f"{q}[@{attr}="
        return r.startswith(head) and r.endswith("]") and literal_for(r[len(head):-1], v)
    return post


_POOL = ["", "a", "a b", 'a"b', "a'b", "'", '"', "\"'", "é]", "x&y", "]", "[1]", '" or "1"="1', "it's \"x\""]


def _has_dq(a):
    return S.contains(a[_kw_of(a)], '"')


def _has_sq(a):
    return S.contains(a[_kw_of(a)], "'")


def _kw_of(a):
    for kw in list(ID_KWARGS) + ["value"]:
        if kw in a.__dict__ and a.__dict__[kw] is not None:
            return kw
    raise KeyError("no identifier keyword")


_CASES = {
    "plain": lambda a: S.Not(_has_dq(a)),
    "dquote-only": lambda a: S.And(_has_dq(a), S.Not(_has_sq(a))),
    "both-quotes": lambda a: S.And(_has_dq(a), _has_sq(a)),
}
_BOUNDED = {"both-quotes": dict(
    scope="identifiers of the pool containing both quote kinds, evaluated with lxml's XPath engine",
    reason="concat(...) form built with str.split / join over a symbolic number of parts: outside the "
           "executor's string fragment")}

contract(
    "odfdo.utils.xpath_query:xpath_literal",
    sig=dict(value=Str.of(pool=_POOL)),
    cases=_CASES, bounded_cases=_BOUNDED,
    ensures=[Clause("literal", {"C14"}, lambda a, r, p: literal_for(r, a.value))],
    result=Str,
)

contract(
    "odfdo.utils.xpath_query:make_xpath_query",
    sig=[dict(query_string=Str.of(pool=["descendant::x", "a/b"]), **{kw: Str.of(pool=_POOL)}) for kw in ID_KWARGS],
    cases=_CASES, bounded_cases=_BOUNDED,
    inline={"odfdo.utils.xpath_query:xpath_literal"},
    ensures=[Clause("literal", {"C14"}, lambda a, r, p: _dispatch_post(a, r, p))],
    result=Str,
    note="one signature case per identifier keyword; the other keywords keep their default None",
)


def _dispatch_post(a, r, p):
    kw = _kw_of(a)
    return _post(kw, ID_KWARGS[kw])(a, r, p)
