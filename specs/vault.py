"""Vault layer: set / insert / delete of a run-length item in a Row (cells) or Table (rows, columns).

Contracts on the three generic functions of element_cached.py, checked against the abstract XML
model of pyvc.xmlmodel.  The thin lxml wrappers they call are assumed contracts (trusted=True,
`call=` hooks implementing the model operation).
"""
import z3

import specs.vault_maps  # noqa: F401  (callee contracts)

from pyvc import lists as L
from pyvc.engine import ListV, ObjV, PathEnd, PyRaise, Unsupported
from pyvc.lists import LConc, lift, simp_int, zint
from pyvc.spec import Bool, Clause, Const, Int, Inv, Model, NoneT, OneOf, S, contract
from pyvc.xmlmodel import (KIND_OF_MAP, MAP_OF_KIND, VaultView, WrapView, before, cache_reset, detached,
                           exists_before, fits, inv_vault, is_fresh, item_classes, item_maker, make_idx,
                           make_wrapper, pointwise, vault_maker, vlen, xstate)
from pyvc.xmlnative import concretize_vault, gen_vault

P_VAULT = {"C01", "C02", "C07"}


# ------------------------------------------------------------------ assumed contracts of the lxml wrappers
def _kind_of_scheme(scheme):
    import odfdo.row as R
    import odfdo.table as T
    if scheme is R._xpath_cell_idx or scheme is R._xpath_cell:
        return "cells"
    if scheme is T._xpath_row_idx or scheme is T._xpath_row:
        return "rows"
    if scheme is T._xpath_column_idx or scheme is T._xpath_column:
        return "cols"
    raise Unsupported("unknown vault scheme")


def _kind_of_wrapper(w):
    for kind, cls in item_classes().items():
        if issubclass(w.cls, cls):
            return kind
    raise Unsupported(f"not an item wrapper: {w.cls.__name__}")


def _items(vault, kind):
    t = vault.fields.get("__items_" + kind)
    if t is None:
        raise Unsupported(f"vault has no {kind}")
    return t


def _raw_offset(vault, kind):
    """raw child index of the first item of `kind` (layout: columns then rows; a row holds only cells)"""
    if kind == "rows" and "__items_cols" in vault.fields:
        return _items(vault, "cols").length()
    return 0


def h_get_element_idx2(en, con, vals, site):
    vault, scheme, idx = vals["self"], vals["xpath_instance"], vals["idx"]
    kind = _kind_of_scheme(scheme)
    t = _items(vault, kind)
    k = t.length()
    if not en.decide(z3.And(zint(idx) >= 0, zint(idx) < zint(k))):
        return None
    return make_wrapper(en, item_classes()[kind], lift(t.sel(idx)), x=None, y=None)


def _child_pos(en, vault, w, what):
    """position of the wrapper's node in its vault sequence: obligation 'is a child', then a witness"""
    kind = _kind_of_wrapper(w)
    t = _items(vault, kind)
    k = zint(t.length())
    node = w.fields["node"]
    i = z3.FreshInt("i")
    en.oblige(f"{en.c.target}[{en.case_label}]/xml:{what}-of-child/path:{en.path_id()}",
              z3.Exists([i], z3.And(0 <= i, i < k, lift(t.sel(i)) == node)), en.c.props, "xml-pre")
    pos = en.fresh("pos", "int")
    en.pc.append(z3.And(pos >= 0, pos < k, lift(t.sel(pos)) == node))
    return kind, t, pos


def h_index(en, con, vals, site):
    vault, child = vals["self"], vals["child"]
    kind, t, pos = _child_pos(en, vault, child, "index")
    return simp_int(zint(_raw_offset(vault, kind)) + pos)


def h_delete(en, con, vals, site):
    vault, child = vals["self"], vals["child"]
    if child is None:
        raise Unsupported("Element.delete() of self")
    kind, t, pos = _child_pos(en, vault, child, "delete")
    vault.fields["__items_" + kind] = L.cat_term(L.slice_term(t, None, pos), L.slice_term(t, simp_int(pos + 1), None))
    return None


def h_insert(en, con, vals, site):
    vault, element, position = vals["self"], vals["element"], vals["position"]
    if position is None or vals.get("start"):
        raise Unsupported("Element.insert without numeric position")
    kind = _kind_of_wrapper(element)
    t = _items(vault, kind)
    k = zint(t.length())
    pos = simp_int(zint(position) - zint(_raw_offset(vault, kind)))
    en.oblige(f"{en.c.target}[{en.case_label}]/xml:insert-position/path:{en.path_id()}",
              z3.And(zint(pos) >= 0, zint(pos) <= k), en.c.props, "xml-pre")
    node = element.fields["node"]
    i = z3.FreshInt("i")
    en.oblige(f"{en.c.target}[{en.case_label}]/xml:insert-detached/path:{en.path_id()}",
              z3.ForAll([i], z3.Implies(z3.And(0 <= i, i < k), lift(t.sel(i)) != node)), en.c.props, "xml-pre")
    vault.fields["__items_" + kind] = L.cat_term(L.cat_term(L.slice_term(t, None, pos), LConc([node])),
                                                 L.slice_term(t, pos, None))
    return None


def h_append(en, con, vals, site):
    vault, element = vals["self"], vals["str_or_element"]
    if not isinstance(element, ObjV):
        raise Unsupported("append of text")
    if not any(k.startswith("__items_") for k in vault.fields):
        return None      # attribute-model element (typed-value specs): children are not modelled
    kind = _kind_of_wrapper(element)
    t = _items(vault, kind)
    node = element.fields["node"]
    i = z3.FreshInt("i")
    en.oblige(f"{en.c.target}[{en.case_label}]/xml:append-detached/path:{en.path_id()}",
              z3.ForAll([i], z3.Implies(z3.And(0 <= i, i < zint(t.length())), lift(t.sel(i)) != node)),
              en.c.props, "xml-pre")
    if kind == "cols" and "__items_rows" in vault.fields:
        # appending a column declaration after the rows would break "columns precede rows"
        en.oblige(f"{en.c.target}[{en.case_label}]/xml:append-column-before-rows/path:{en.path_id()}",
                  zint(_items(vault, "rows").length()) == 0, en.c.props, "xml-pre")
    vault.fields["__items_" + kind] = L.cat_term(t, LConc([node]))
    return None


def h_clone_item(en, con, vals, site):
    w = vals["self"]
    st = xstate(en)
    n = st.fresh_node()
    st.copy_ghost(n, w.fields["node"])
    f = {k: v for k, v in w.fields.items() if k in ("x", "y")}
    new = make_wrapper(en, w.cls, n, **f)
    for mname in ("_rmap", "_tmap", "_cmap"):
        m = w.fields.get(mname)
        if isinstance(m, ListV):
            new.fields[mname] = ListV(m.term)
    return new


def h_set_repeated(en, con, vals, site):
    w, r = vals["self"], vals["repeated"]
    st = xstate(en)
    if r is None:
        val = z3.IntVal(1)
    else:
        val = z3.If(zint(r) >= 2, zint(r), z3.IntVal(1))
    st.rep = z3.Store(st.rep, w.fields["node"], val)
    return None


def h_get_repeated(en, con, vals, site):
    w = vals["self"]
    st = xstate(en)
    from pyvc.engine import OptIntV
    r = z3.Select(st.rep, w.fields["node"])
    return OptIntV(r == 1, r)


_EXT = dict(trusted=True, sig={}, note="lxml-backed Element wrapper: abstract XML model operation")
contract("odfdo.element:Element._get_element_idx2", call=h_get_element_idx2, **_EXT)
contract("odfdo.element:Element.index", call=h_index, **_EXT)
contract("odfdo.element:Element.delete", call=h_delete, **_EXT)
contract("odfdo.element:Element.insert", call=h_insert, **_EXT)
contract("odfdo.element:Element.__append", call=h_append, **_EXT)
for _cls in ("odfdo.cell:Cell", "odfdo.row:Row", "odfdo.table:Column"):
    contract(_cls + ".clone", call=h_clone_item, **_EXT)
    contract(_cls + "._set_repeated", call=h_set_repeated, **_EXT)
    contract(_cls + ".repeated", call=h_get_repeated, **_EXT)


# ------------------------------------------------------------------ the three vault functions
def _vault_sig(kind):
    import odfdo.row as R
    import odfdo.table as T
    ic = item_classes()
    if kind == "cells":
        return dict(vault=Model("RowVault", vault_maker, cls=R.Row, kinds=("cells",)),
                    vault_scheme=Const(R._xpath_cell_idx), vault_map_name=Const("_rmap"),
                    item=Model("CellItem", item_maker, cls=ic["cells"]))
    if kind == "rows":
        return dict(vault=Model("TableVault", vault_maker, cls=T.Table, kinds=("rows", "cols")),
                    vault_scheme=Const(T._xpath_row_idx), vault_map_name=Const("_tmap"),
                    item=Model("RowItem", item_maker, cls=ic["rows"]))
    return dict(vault=Model("TableVault", vault_maker, cls=T.Table, kinds=("rows", "cols")),
                vault_scheme=Const(T._xpath_column_idx), vault_map_name=Const("_cmap"),
                item=Model("ColItem", item_maker, cls=ic["cols"]))


def _kind(a):
    return KIND_OF_MAP[a.vault_map_name]


def _eff(item):
    """repeat carried by the item (>= 1)"""
    return item.rep


def _req_common(a, need_item=True):
    kind = _kind(a)
    c = [inv_vault(a.vault, kind), 0 <= a.position, a.position < vlen(a.vault, kind)]
    if need_item:
        c += [detached(a.vault, kind, a.item), exists_before(a.item)]
    return S.And(*c)


def _set_view(a, r, p):
    kind = _kind(a)
    rep = _eff(a.item)
    new_pl = a.item.pl
    return pointwise(a.vault, p.vault, kind,
                     lambda pos, old, len0: S.If(S.And(a.position <= pos, pos < a.position + rep), new_pl, old))


def _set_len(a, r, p):
    kind = _kind(a)
    l0 = vlen(a.vault, kind)
    end = a.position + _eff(a.item)
    return vlen(p.vault, kind) == S.If(end > l0, end, l0)


def _cache_reset(a, r, p):
    return cache_reset(p.vault, a.vault_map_name)


def _fits(a):
    return fits(a.vault, a.vault_map_name, a.position, _eff(a.item))


if True:
    contract(
        "odfdo.element_cached:set_item_in_vault",
        sig=[dict(position=Int, **_vault_sig(_k), clone=Bool) for _k in ("cells", "rows", "cols")],
        requires=lambda a: _req_common(a),
        cases={"fits": _fits, "overlap": lambda a: S.Not(_fits(a))},
        concretize=concretize_vault, gen=gen_vault,
        ensures=[
            Clause("inv", {"C01", "C02", "C07"}, lambda a, r, p: inv_vault(p.vault, _kind(a))),
            Clause("view", {"C01", "C02"}, _set_view),
            Clause("len", {"C01", "C07"}, _set_len),
            Clause("cache-reset", {"C02"}, _cache_reset),
        ],
        unroll=3,
    )


def _ins_view(a, r, p):
    kind = _kind(a)
    rep = _eff(a.item)
    new_pl = a.item.pl
    return pointwise(a.vault, p.vault, kind,
                     lambda pos, old, len0: S.If(S.And(a.position <= pos, pos < a.position + rep), new_pl, old),
                     src=lambda pos: S.If(pos < a.position, pos, pos - rep))


def _item_untouched(a, r, p):
    return S.And(p.item.rep == a.item.rep, p.item.pl == a.item.pl)


contract(
    "odfdo.element_cached:insert_item_in_vault",
    sig=[dict(position=Int, **_vault_sig(_k)) for _k in ("cells", "rows", "cols")],
    requires=lambda a: _req_common(a),
    ensures=[
        Clause("inv", {"C01", "C02", "C07"}, lambda a, r, p: inv_vault(p.vault, _kind(a))),
        Clause("view", {"C01", "C02"}, _ins_view),
        Clause("len", {"C01", "C07"}, lambda a, r, p: vlen(p.vault, _kind(a)) == vlen(a.vault, _kind(a)) + _eff(a.item)),
        Clause("cache-reset", {"C02"}, _cache_reset),
        Clause("arg-untouched", {"C08", "C10"}, _item_untouched),
        Clause("result", {"C08"}, lambda a, r, p: S.And(r.pl == a.item.pl, r.rep == a.item.rep,
                                                          is_fresh(r, a.vault, a.item))),
    ],
    concretize=concretize_vault, gen=gen_vault,
)


def _del_view(a, r, p):
    kind = _kind(a)
    return pointwise(a.vault, p.vault, kind, lambda pos, old, len0: old,
                     src=lambda pos: S.If(pos < a.position, pos, pos + 1))


contract(
    "odfdo.element_cached:delete_item_in_vault",
    sig=[{k: v for k, v in dict(position=Int, **_vault_sig(_k)).items() if k != "item"} for _k in ("cells", "rows", "cols")],
    requires=lambda a: _req_common(a, need_item=False),
    ensures=[
        Clause("inv", {"C01", "C02", "C07"}, lambda a, r, p: inv_vault(p.vault, _kind(a))),
        Clause("view", {"C01", "C02"}, _del_view),
        Clause("len", {"C01", "C07"}, lambda a, r, p: vlen(p.vault, _kind(a)) == vlen(a.vault, _kind(a)) - 1),
        Clause("cache-reset", {"C02"}, _cache_reset),
    ],
    concretize=concretize_vault, gen=gen_vault,
)


# ------------------------------------------------------------------ exact abstract operations
# Each vault function is also proved to produce *exactly* the state of an abstract operation on the
# run-length sequence (clause "exact"), up to the identity of the nodes it creates.  Callers are then
# verified against that abstract operation (modular use through `call=`), which keeps their VCs ground.
from pyvc.lists import LCat, LMap, LSlice, cat_term, slice_term  # noqa: E402

FRESH_ITEM, FRESH_CUR = -1, -2      # markers in the expected node sequence: clone of item / of the split run


def _opt(cond, x):
    """[x] if cond else []  as a list term"""
    return LSlice(LConc([x]), 0, simp_int(z3.If(cond, 1, 0)))


def _shift(term, delta):
    x = z3.FreshInt("x")
    return LMap(term, x, x + delta)


class Expected:
    """expected post-state of a vault kind: node markers, repeats, contents, map (all list terms)"""

    def __init__(self, nodes, reps, pls, m):
        self.nodes, self.reps, self.pls, self.m = nodes, reps, pls, m


def _run_of(a):
    """(i, start) of the run containing a.position — as Skolem-free terms we cannot name i; the
    callers below receive i from a `located` witness"""
    raise NotImplementedError


def abs_set(v, mname, i, position, item_node, item_rep, item_pl, clone):
    """set (case fits) at run i: split into [before b][item r][after a]"""
    kind = KIND_OF_MAP[mname]
    seq, m = v.seq(kind).term, v.map(mname).term
    cur = lift(seq.sel(i))
    start = before(v.map(mname), i) + 1
    b = position - start
    a = lift(m.sel(i)) - (position + item_rep - 1)
    new_marker = z3.If(clone, z3.IntVal(FRESH_ITEM), item_node) if isinstance(clone, z3.ExprRef) else (
        z3.IntVal(FRESH_ITEM) if clone else item_node)
    nodes = cat_term(cat_term(cat_term(cat_term(slice_term(seq, None, i), _opt(b >= 1, cur)), LConc([new_marker])),
                              _opt(a >= 1, z3.IntVal(FRESH_CUR))), slice_term(seq, simp_int(i + 1), None))
    cur_rep, cur_pl = v.rep_of(cur), v.pl_of(cur)
    head_n = slice_term(seq, None, i)
    tail_n = slice_term(seq, simp_int(i + 1), None)
    x = z3.FreshInt("x")
    reps = cat_term(cat_term(cat_term(cat_term(LMap(head_n, x, z3.Select(v.rep_arr, x)), _opt(b >= 1, b)),
                                      LConc([item_rep])), _opt(a >= 1, a)), LMap(tail_n, x, z3.Select(v.rep_arr, x)))
    y = z3.FreshInt("y")
    pls = cat_term(cat_term(cat_term(cat_term(LMap(head_n, y, z3.Select(v.pl_arr, y)), _opt(b >= 1, cur_pl)),
                                     LConc([item_pl])), _opt(a >= 1, cur_pl)), LMap(tail_n, y, z3.Select(v.pl_arr, y)))
    mm = cat_term(cat_term(cat_term(cat_term(slice_term(m, None, i), _opt(b >= 1, position - 1)),
                                    LConc([position + item_rep - 1])), _opt(a >= 1, lift(m.sel(i)))),
                  slice_term(m, simp_int(i + 1), None))
    return Expected(nodes, reps, pls, mm)


def abs_insert(v, mname, i, position, item_rep, item_pl):
    kind = KIND_OF_MAP[mname]
    seq, m = v.seq(kind).term, v.map(mname).term
    cur = lift(seq.sel(i))
    start = before(v.map(mname), i) + 1
    b = position - start
    cur_rep, cur_pl = v.rep_of(cur), v.pl_of(cur)
    head_n, tail_n = slice_term(seq, None, i), slice_term(seq, simp_int(i + 1), None)
    x, y = z3.FreshInt("x"), z3.FreshInt("y")
    split = b >= 1
    nodes = cat_term(cat_term(cat_term(cat_term(head_n, _opt(split, cur)), LConc([z3.IntVal(FRESH_ITEM)])),
                              LConc([z3.If(split, z3.IntVal(FRESH_CUR), cur)])), tail_n)
    reps = cat_term(cat_term(cat_term(cat_term(LMap(head_n, x, z3.Select(v.rep_arr, x)), _opt(split, b)),
                                      LConc([item_rep])), LConc([z3.If(split, cur_rep - b, cur_rep)])),
                    LMap(tail_n, x, z3.Select(v.rep_arr, x)))
    pls = cat_term(cat_term(cat_term(cat_term(LMap(head_n, y, z3.Select(v.pl_arr, y)), _opt(split, cur_pl)),
                                     LConc([item_pl])), LConc([cur_pl])), LMap(tail_n, y, z3.Select(v.pl_arr, y)))
    mm = cat_term(cat_term(cat_term(cat_term(slice_term(m, None, i), _opt(split, position - 1)),
                                    LConc([position + item_rep - 1])), LConc([lift(m.sel(i)) + item_rep])),
                  _shift(slice_term(m, simp_int(i + 1), None), item_rep))
    return Expected(nodes, reps, pls, mm)


def abs_delete(v, mname, i):
    kind = KIND_OF_MAP[mname]
    seq, m = v.seq(kind).term, v.map(mname).term
    cur = lift(seq.sel(i))
    cur_rep, cur_pl = v.rep_of(cur), v.pl_of(cur)
    keep = cur_rep >= 2
    head_n, tail_n = slice_term(seq, None, i), slice_term(seq, simp_int(i + 1), None)
    x, y = z3.FreshInt("x"), z3.FreshInt("y")
    nodes = cat_term(cat_term(head_n, _opt(keep, cur)), tail_n)
    reps = cat_term(cat_term(LMap(head_n, x, z3.Select(v.rep_arr, x)), _opt(keep, cur_rep - 1)),
                    LMap(tail_n, x, z3.Select(v.rep_arr, x)))
    pls = cat_term(cat_term(LMap(head_n, y, z3.Select(v.pl_arr, y)), _opt(keep, cur_pl)),
                   LMap(tail_n, y, z3.Select(v.pl_arr, y)))
    mm = cat_term(cat_term(slice_term(m, None, i), _opt(keep, lift(m.sel(i)) - 1)),
                  _shift(slice_term(m, simp_int(i + 1), None), -1))
    return Expected(nodes, reps, pls, mm)


def exact_state(vnew, vold, mname, exp: Expected, i_wit):
    """the post-state equals the expected abstract state up to the identity of created nodes"""
    from pyvc.spec import LView as LV
    kind = KIND_OF_MAP[mname]
    s1, m1 = vnew.seq(kind), vnew.map(mname)
    en_, er, ep, em = LV(exp.nodes), LV(exp.reps), LV(exp.pls), LV(exp.m)
    j = z3.FreshInt("j")
    sj, ej = s1[j], en_[j]
    body = z3.And(
        vnew.rep_of(sj) == er[j], vnew.pl_of(sj) == ep[j], m1[j] == em[j],
        z3.Implies(ej >= 0, sj == ej), z3.Implies(ej < 0, sj >= vold.N0))
    return z3.And(lift(s1.n) == lift(en_.n), lift(m1.n) == lift(en_.n),
                  z3.ForAll([j], z3.Implies(z3.And(0 <= j, j < zint(en_.n)), body)))


def _located(m, i, position):
    return z3.And(0 <= i, i < zint(m.n), position <= m[i], z3.Implies(i > 0, m[i - 1] < position))


def _exact_clause(build):
    """forall i. located(M, i, position) => post-state == abstract op at run i   (native: skipped, the
    view-level clauses are the native oracle)"""
    def clause(a, r, p):
        if not isinstance(a.vault, VaultView):
            return True
        mname = a.vault_map_name
        i = z3.FreshInt("irun")
        exp = build(a, i)
        return z3.ForAll([i], z3.Implies(_located(a.vault.map(mname), i, a.position),
                                         exact_state(p.vault, a.vault, mname, exp, i)))
    return clause


_exact_set = _exact_clause(lambda a, i: abs_set(a.vault, a.vault_map_name, i, a.position, a.item.node, a.item.rep,
                                                a.item.pl, a.clone))
_exact_ins = _exact_clause(lambda a, i: abs_insert(a.vault, a.vault_map_name, i, a.position, a.item.rep, a.item.pl))
_exact_del = _exact_clause(lambda a, i: abs_delete(a.vault, a.vault_map_name, i))

from pyvc.spec import REGISTRY as _REG  # noqa: E402

_REG["odfdo.element_cached:set_item_in_vault"].ensures.append(Clause("exact", P_VAULT | {"C08", "C10"}, _exact_set))
_REG["odfdo.element_cached:insert_item_in_vault"].ensures.append(Clause("exact", P_VAULT | {"C08", "C10"}, _exact_ins))
_REG["odfdo.element_cached:delete_item_in_vault"].ensures.append(Clause("exact", P_VAULT | {"C08", "C10"}, _exact_del))
for _t in ("set_item_in_vault", "insert_item_in_vault", "delete_item_in_vault"):
    _c = _REG["odfdo.element_cached:" + _t]
    _c.props |= P_VAULT | {"C08", "C10"}


# ------------------------------------------------------------------ modular use: the abstract operations as call hooks
def _subst_markers(nodes_term, n_item, n_cur):
    x = z3.FreshInt("x")
    return LMap(nodes_term, x, z3.If(x == FRESH_ITEM, n_item, z3.If(x == FRESH_CUR, n_cur, x)))


def _hook_common(en, con, vals, site, need_item=True):
    pre = en.views(vals)
    base = f"{en.c.target}[{en.case_label}]/call:{site}"
    en.oblige(f"{base}/pre/path:{en.path_id()}", con.requires(pre), en.c.props | con.props, "callee-pre",
              {"callee": con.target})
    mname = vals["vault_map_name"]
    kind = KIND_OF_MAP[mname]
    v = pre.vault
    i = en.fresh("irun", "int")
    # the run containing `position` exists (INV: strictly increasing map whose last entry >= position)
    en.pc.append(_located(v.map(mname), i, zint(vals["position"])))
    return pre, mname, kind, v, i


# callers that see the vault operations through their contracts: the post-state sequences are named by fresh
# arrays (defined pointwise by the exact abstract operation) and the callee's proved clauses are assumed on them
MODULAR_POSTS = set()
_ASSUMED = ("inv", "view", "len")


def _install(en, vault, mname, kind, exp, n_item, n_cur):
    nodes = _subst_markers(exp.nodes, n_item, n_cur)
    m = exp.m
    if en.c.target in MODULAR_POSTS:
        n = en.fresh(mname + ".k2", "int")
        a_s, a_m = en.fresh(kind + ".seq2", "arr"), en.fresh(mname + ".arr2", "arr")
        j = z3.FreshInt("j")
        en.pc.append(n == zint(nodes.length()))
        en.pc.append(n == zint(m.length()))
        en.pc.append(z3.ForAll([j], z3.Implies(z3.And(0 <= j, j < n), z3.Select(a_s, j) == lift(nodes.sel(j))),
                               patterns=[z3.Select(a_s, j)]))
        en.pc.append(z3.ForAll([j], z3.Implies(z3.And(0 <= j, j < n), z3.Select(a_m, j) == lift(m.sel(j))),
                               patterns=[z3.Select(a_m, j)]))
        nodes, m = L.LLeaf(a_s, n, kind), L.LLeaf(a_m, n, mname)
    vault.fields["__items_" + kind] = nodes
    vault.fields[mname] = ListV(m)
    vault.fields["_indexes"][mname] = {}


def _assume_posts(en, con, pre, vals):
    """the callee's proved postconditions on the state just installed (modular callers only)"""
    if en.c.target not in MODULAR_POSTS:
        return
    post = en.views(vals)
    for cl in con.ensures:
        if cl.label in _ASSUMED:
            f = cl.fn(pre, None, post)
            if isinstance(f, z3.ExprRef):
                en.pc.append(f)


def hook_set_item(en, con, vals, site):
    pre, mname, kind, v, i = _hook_common(en, con, vals, site)
    base = f"{en.c.target}[{en.case_label}]/call:{site}"
    en.oblige(f"{base}/case-fits/path:{en.path_id()}", con.cases["fits"](pre), en.c.props | con.props, "callee-pre",
              {"callee": con.target, "note": "the modular contract covers the `fits` case only (overlap: known finding)"})
    st = xstate(en)
    item, vault, clone, position = vals["item"], vals["vault"], vals["clone"], zint(vals["position"])
    exp = abs_set(v, mname, i, position, pre.item.node, pre.item.rep, pre.item.pl, clone)
    cur = lift(v.seq(kind).term.sel(i))
    start = before(v.map(mname), i) + 1
    b = position - start
    a = lift(v.map(mname).term.sel(i)) - (position + pre.item.rep - 1)
    n_new, n_cur = st.fresh_node(), st.fresh_node()
    cur_pl, cur_rep = z3.Select(st.pl, cur), z3.Select(st.rep, cur)
    st.copy_ghost(n_new, pre.item.node)
    st.copy_ghost(n_cur, cur)
    st.rep = z3.Store(st.rep, cur, z3.If(b >= 1, b, cur_rep))
    st.rep = z3.Store(st.rep, n_cur, z3.If(a >= 1, a, 1))
    _install(en, vault, mname, kind, exp, n_new, n_cur)
    _assume_posts(en, con, pre, vals)
    if isinstance(clone, z3.ExprRef):
        if en.decide(clone):
            return make_wrapper(en, item.cls, n_new, x=item.fields.get("x"), y=item.fields.get("y"))
        return item
    return make_wrapper(en, item.cls, n_new, x=item.fields.get("x"), y=item.fields.get("y")) if clone else item


def hook_insert_item(en, con, vals, site):
    pre, mname, kind, v, i = _hook_common(en, con, vals, site)
    st = xstate(en)
    item, vault, position = vals["item"], vals["vault"], zint(vals["position"])
    exp = abs_insert(v, mname, i, position, pre.item.rep, pre.item.pl)
    cur = lift(v.seq(kind).term.sel(i))
    start = before(v.map(mname), i) + 1
    b = position - start
    n_new, n_cur = st.fresh_node(), st.fresh_node()
    cur_pl, cur_rep = z3.Select(st.pl, cur), z3.Select(st.rep, cur)
    st.copy_ghost(n_new, pre.item.node)
    st.copy_ghost(n_cur, cur)
    st.rep = z3.Store(st.rep, cur, z3.If(b >= 1, b, cur_rep))
    st.rep = z3.Store(st.rep, n_cur, z3.If(b >= 1, cur_rep - b, 1))
    _install(en, vault, mname, kind, exp, n_new, n_cur)
    _assume_posts(en, con, pre, vals)
    return make_wrapper(en, item.cls, n_new, x=item.fields.get("x"), y=item.fields.get("y"))


def hook_delete_item(en, con, vals, site):
    vals = dict(vals)
    pre, mname, kind, v, i = _hook_common(en, con, vals, site, need_item=False)
    st = xstate(en)
    vault = vals["vault"]
    exp = abs_delete(v, mname, i)
    cur = lift(v.seq(kind).term.sel(i))
    cur_rep = z3.Select(st.rep, cur)
    st.rep = z3.Store(st.rep, cur, z3.If(cur_rep >= 2, cur_rep - 1, cur_rep))
    _install(en, vault, mname, kind, exp, z3.IntVal(-1), z3.IntVal(-2))
    _assume_posts(en, con, pre, vals)
    return None


_REG["odfdo.element_cached:set_item_in_vault"].call = hook_set_item
_REG["odfdo.element_cached:insert_item_in_vault"].call = hook_insert_item
_REG["odfdo.element_cached:delete_item_in_vault"].call = hook_delete_item
