"""Text-node scans (C09, C16): the offset arithmetic of Element._insert_find_text and the match counting
of Element.replace(pattern) over the document-order list of text nodes T_0..T_{n-1}.

Ghost: `texts_` is the list of text-node strings the XPath returns (lxml, assumed document order).
Spec function PS(f, T, k) = sum_{j<k} f(T_j)  (prefix sums; definitional axiom, primitive recursion)."""
import re

import z3

from pyvc.engine import HookFn, ListV, ObjV, Unsupported
from pyvc.lists import lift, zint
from pyvc.spec import Axiom, Clause, Const, Int, Inv, LView, Model, NoneT, S, Str, StrList, contract
from pyvc.xmlmodel import BaseModel

ARR = z3.Array("texts_.arr", z3.IntSort(), z3.StringSort())
PSLEN = z3.Function("PS.len", z3.ArraySort(z3.IntSort(), z3.StringSort()), z3.IntSort(), z3.IntSort())
_a = z3.Array("a_", z3.IntSort(), z3.StringSort())
_k = z3.Int("k_")
AX_PSLEN = Axiom("PS.len-def", z3.ForAll([_a, _k], z3.And(
    PSLEN(_a, 0) == 0,
    z3.Implies(_k > 0, PSLEN(_a, _k) == PSLEN(_a, _k - 1) + z3.Length(z3.Select(_a, _k - 1)))),
    patterns=[PSLEN(_a, _k)]), note="prefix sums of the text-node lengths")


from pyvc.spec import Lemma, mpat  # noqa: E402

_i, _j = z3.Int("i_"), z3.Int("j_")


def _mono_proof():
    a, i, j = z3.Array("a!m", z3.IntSort(), z3.StringSort()), z3.Int("i!m"), z3.Int("j!m")
    return [("base", [AX_PSLEN.formula, i >= 0], PSLEN(a, i) <= PSLEN(a, i)),
            ("step", [AX_PSLEN.formula, 0 <= i, i <= j, PSLEN(a, i) <= PSLEN(a, j)], PSLEN(a, i) <= PSLEN(a, j + 1))]


_pi, _pj = PSLEN(_a, _i), PSLEN(_a, _j)
LEM_MONO = Lemma("PS.len-monotone", {"C09", "C16"}, _mono_proof,
                 statement=z3.ForAll([_a, _i, _j], z3.Implies(z3.And(0 <= _i, _i <= _j), _pi <= _pj),
                                     patterns=[mpat(_pi, _pj)]),
                 note="prefix sums of lengths are monotone (induction on j, base and step written out)")


def pslen(texts, k):
    if isinstance(texts, LView):
        return PSLEN(texts.term.arr, zint(k))
    return sum(len(t) for t in texts[:k])


XPATH_TEXTS = HookFn(lambda en, current: en.args["texts_"], "xpath_text -> texts_")


def _find_post(a, r, p):
    T, pos_arg = a.texts_, a.position
    if isinstance(T, LView):
        k = p.locals_.k_0
        pos, text = r
        return z3.And(0 <= k, k < zint(T.n), text == T[k], pos == pos_arg - pslen(T, k),
                      0 <= pos, pos <= z3.Length(T[k]), z3.Implies(k > 0, pslen(T, k) < pos_arg))
    pos, text = r
    # native oracle: the first text node whose end reaches the position
    count = 0
    for t in T:
        if len(t) + count >= pos_arg:
            return text == t and pos == pos_arg - count and 0 <= pos <= len(t)
        count += len(t)
    return False


def _gen_find(con, sigcase, count, seed):
    import itertools
    pools = [[], ["ab"], ["", "ab"], ["a", "", "bc"], ["abc", "d"], ["", ""], ["x", "yz", "w"]]
    for texts in pools:
        for position in range(0, sum(len(t) for t in texts) + 3):
            yield {"texts_": list(texts), "position": position}


def _call_find(con, fn, argvals, labels):
    from odfdo.element import Element
    from pyvc.native import NativeResult
    res = NativeResult()
    texts, position = argvals["texts_"], argvals["position"]
    e = Element.from_tag("text:p")
    total = sum(len(t) for t in texts)
    res.checked = 1
    try:
        out = e._insert_find_text(None, None, None, None, position, lambda cur: list(texts))
    except ValueError:
        res.outcome = "ValueError"
        if not (position > total or not texts):
            res.failures.append(("raises:ValueError", "raised although the position is inside the text"))
        return res
    res.outcome = repr(out)
    if position > total or not texts:
        res.failures.append(("must-raise:ValueError", f"returned {out!r} for a position beyond the text"))
        return res
    from pyvc.spec import Args
    if not _find_post(Args({"texts_": texts, "position": position}), out, None):
        res.failures.append(("ensures:split", f"{out!r} for texts {texts!r} position {position}"))
    return res


contract(
    "odfdo.element:Element._insert_find_text",
    sig=dict(self=NoneT, current=NoneT, element=NoneT, before=NoneT, after=NoneT, position=Int,
             xpath_text=Const(XPATH_TEXTS), texts_=StrList),
    requires=lambda a: a.position >= 0,
    raises={ValueError: lambda a: S.Or(S.len(a.texts_) == 0, pslen(a.texts_, S.len(a.texts_)) < a.position)},
    ensures=[Clause("split", {"C09"}, _find_post)],
    loops={0: Inv(lambda a, v: z3.And(v.count == pslen(a.texts_, v.k_), z3.Or(v.k_ == 0, v.count < a.position)),
                  # ground instances: PS(k+1) = PS(k) + len(T_k), and PS(k+1) <= PS(n)
                  hints=lambda a, v: [(AX_PSLEN, (a.texts_.term.arr, zint(v.k_) + 1)),
                                      (LEM_MONO, (a.texts_.term.arr, zint(v.k_) + 1, zint(S.len(a.texts_))))])},
    uses=[AX_PSLEN, LEM_MONO],
    gen=_gen_find, call_native=_call_find,
    note="the character offset is split into (text node, offset inside it): count + pos = position, "
         "0 <= pos <= len(text), every earlier node ends before the position",
)


# ------------------------------------------------------------------ Element.replace(pattern) — counting (C16)
NM = z3.Function("re.count", z3.StringSort(), z3.StringSort(), z3.IntSort())   # non-overlapping matches of pattern in text
PSN = z3.Function("PS.matches", z3.StringSort(), z3.ArraySort(z3.IntSort(), z3.StringSort()), z3.IntSort(), z3.IntSort())
_p = z3.String("p_")
AX_PSN = Axiom("PS.matches-def", z3.ForAll([_p, _a, _k], z3.And(
    PSN(_p, _a, 0) == 0,
    z3.Implies(_k > 0, PSN(_p, _a, _k) == PSN(_p, _a, _k - 1) + NM(_p, z3.Select(_a, _k - 1)))),
    patterns=[PSN(_p, _a, _k)]), note="prefix sums of the per-node match counts")


class _Regex:
    pass


def _h_compile(en, pattern, *a):
    from pyvc.engine import ObjV
    return ObjV(_Regex, {"pattern": pattern}, model=_RX)


class _RegexModel(BaseModel):
    methods = {"findall", "subn"}

    def call_method(self, en, obj, name, args, kwargs):
        if name == "findall":
            from pyvc import lists as L
            n = NM(lift(obj.fields["pattern"]), lift(args[0]))
            en.pc.append(n >= 0)
            en.assumption_notes.add("re.findall: a list whose length is the number of non-overlapping matches (abstract)")
            return ListV(L.LLeaf(en.fresh("matches", "arr"), n, "matches"))
        raise Unsupported(f"regex.{name}")


_RX = _RegexModel()

from pyvc import builtins_model as _BM  # noqa: E402

_BM._MODELS[re.compile] = _h_compile

contract("odfdo.element:Element.xpath", trusted=True, sig={}, note="descendant::text() in document order (lxml)",
         call=lambda en, con, vals, site: en.args["texts_"])


def _elem_plain(en, name, **kw):
    from odfdo.element import Element
    return ObjV(Element, {}, model=BaseModel())


def _count_native(texts, pattern):
    return sum(len(re.findall(pattern, t)) for t in texts)


def _gen_count(con, sigcase, count, seed):
    for xml, pats in (("<text:p>ab<text:span>cab</text:span>b a<text:s/>ab</text:p>", ["a", "ab", "[ab]", "b+", "a|c", "^a", "b$"]),
                      ("<text:p><text:span>aa</text:span>aa</text:p>", ["a", "aa", "a+"])):
        for pat in pats:
            yield {"xml": xml, "pattern": pat}


def _call_count(con, fn, argvals, labels):
    from lxml import etree
    from odfdo.element import Element
    from pyvc.native import NativeResult
    res = NativeResult()
    res.checked = 2
    e = Element.from_tag(argvals["xml"])
    before = e.serialize()
    runs = [str(t) for t in e._Element__element.xpath("descendant::text()")]
    got = e.replace(argvals["pattern"])
    res.outcome = f"count {got}"
    if got != _count_native(runs, argvals["pattern"]):
        res.failures.append(("ensures:count", f"{got} != {_count_native(runs, argvals['pattern'])} for {argvals}"))
    if e.serialize() != before:
        res.failures.append(("ensures:count", "counting modified the element"))
    return res


contract(
    "odfdo.element:Element.replace",
    sig=dict(self=Model("Element", _elem_plain), pattern=Str, new=NoneT, formatted=Const(False), texts_=StrList),
    ensures=[Clause("count", {"C16", "C15"}, lambda a, r, p: r == PSN(lift(a.pattern), a.texts_.term.arr, zint(S.len(a.texts_)))
                    if isinstance(a.texts_, LView) else True)],
    loops={0: Inv(lambda a, v: v.count == PSN(lift(a.pattern), a.texts_.term.arr, zint(v.k_)),
                  modifies=["count", "text"])},
    uses=[AX_PSN],
    gen=_gen_count, call_native=_call_count,
    note="count-only form (new=None): the result is the sum over the individual text runs of the number of "
         "matches; no write operation is on that path (re assumed)",
)


# ------------------------------------------------------------------ the odfdo-replace command (C16): same law as Element.replace
def _gen_script(con, sigcase, count, seed):
    for pattern in ("report", "a", "[0-9]+", "Second|bold", "^Second", "^bold", "report$", "^Third paragraph$", "^ in", r"\s+",
                    "zzz", "e.", "(?i)THIRD"):
        for replacement in ("X", ""):
            yield {"pattern": pattern, "replacement": replacement}


def _call_script(con, fn, argvals, labels):
    import os
    import tempfile
    import zipfile
    from lxml import etree
    from odfdo import Document, Header, Paragraph, Span
    from odfdo.scripts.replace import search_replace
    from pyvc.native import NativeResult
    res = NativeResult()
    res.checked = 1
    pattern, replacement = argvals["pattern"], argvals["replacement"]
    doc = Document("text")
    body = doc.body
    body.clear()
    body.append(Header(1, "First report"))
    p = Paragraph("Second paragraph with ")
    p.append(Span("bold"))
    p.children[-1]._Element__element.tail = " in it, 12 and 345"
    body.append(p)
    body.append(Paragraph("Third paragraph"))
    body.append(Paragraph("the last report"))
    TEXT = "urn:oasis:names:tc:opendocument:xmlns:office:1.0"

    def runs(zpath):
        with zipfile.ZipFile(zpath) as zf:
            root = etree.fromstring(zf.read("content.xml"))
        b = root.find(f".//{{{TEXT}}}body")
        return [t for t in b.xpath(".//text()")]
    with tempfile.TemporaryDirectory(prefix="c16s_") as td:
        src, dst = os.path.join(td, "in.odt"), os.path.join(td, "out.odt")
        doc.save(src)
        before = [str(t) for t in runs(src)]
        try:
            search_replace(pattern, replacement, src, dst)
        except Exception as e:  # noqa
            res.failures.append(("ensures:script-replace", f"search_replace({pattern!r}, {replacement!r}) raised {e!r}"))
            return res
        after = [str(t) for t in runs(dst)]
    cre = re.compile(pattern)
    expected = [cre.sub(replacement, t) for t in before]
    expected = [t for t in expected if t != ""]          # an emptied run is no text node any more
    res.outcome = repr(after)[:200]
    if after != expected:
        res.failures.append(("ensures:script-replace", f"odfdo-replace {pattern!r} -> {replacement!r}: text runs {after!r}; the "
                                                       f"pattern applied to each run gives {expected!r}"))
    return res


contract(
    "odfdo.scripts.replace:search_replace",
    sig=dict(pattern=Str, replacement=Str),
    ensures=[Clause("script-replace", {"C16"}, lambda a, r, p: True)],
    gen=_gen_script, call_native=_call_script,
    bounded=dict(scope="13 patterns (literal, class, alternation, anchored at either end, white space, no match, flag) x "
                       "replacements {'X', ''} on a 4-paragraph document with a span and a tail, through files; the text runs "
                       "of the result are read with raw lxml and compared with re.sub on each original run",
                 reason="command-line glue over Document.save / Element.replace (the counting kernel of replace is proved)"),
)
