"""Sidecar contracts for jdum/odfdo.  MODULES lists every spec module (import order matters
only for readability; contracts register themselves in pyvc.spec.REGISTRY)."""
MODULES = [
    "specs.vault_maps",
    "specs.coords",
    "specs.datatypes",
    "specs.vault",
    "specs.xpath",
    "specs.typed",
    "specs.row",
    "specs.table_rows",
    "specs.toc",
    "specs.attrs",
    "specs.purity",
    "specs.package",
    "specs.textscan",
    "specs.styles",
    "specs.b_text",
    "specs.b_package",
    "specs.b_values",
    "specs.b_elements",
    "specs.b_tables",
    "specs.b_clone",
]
