"""Sidecar contracts for jdum/odfdo.  MODULES lists every spec module (import order matters
only for readability; contracts register themselves in pyvc.spec.REGISTRY)."""
MODULES = [
    "specs.vault_maps",
    "specs.coords",
    "specs.datatypes",
    "specs.vault",
    "specs.xpath",
    "specs.typed",
]
