"""Bounded native contracts for C12 (element classes round-trip), C13 (styles) and C14 (identifiers are found again).

Bounded stand-ins (DESIGN 2.9): evaluated natively on the real odfdo over the finite scopes stated in each
contract's ``bounded["scope"]``; never counted as proved.  All oracles use raw lxml (``obj._Element__element``),
C14N and tables written here from the property statements / ODF rules -- never the odfdo API under check.

Contracts
---------
C12  odfdo.element:Element.from_tag[registry]        registry enumerated at check time + pinned tag->class table +
                                                     classes declaring a registered _tag: dispatch, reparse
     odfdo.element:Element[access paths]             one synthetic tree with every registered tag at depth 2 and 3:
                                                     children, get_elements, xpath, get_element, parent, clone
     odfdo.element:Element.__init__[registered classes]  type-directed constructor arguments: exposes[<Class>],
                                                     exposes_str_type, exposes_scalar_type, serial_xml, reparse_*
C13  odfdo.document:Document.insert_style[sequences] operation sequences over 8 documents: container (dispatch table
                                                     _expected_place), unique[<family>], lookup[<family>], auto_name,
                                                     frame, reload, page_break, delete_all, table_displayed, merge_*
     odfdo.document:Document.merge_styles_from       49 document pairs: union (theirs win / ours kept), source unchanged
C14  odfdo.utils.xpath_query:make_xpath_query[lookups by name or id]
                                                     32 lookup entry points x identifiers over {a, space, ", ', &, <,
                                                     ], [, e-acute, =}: found_plain / found_apos / found_dquote

Normalisations accepted by the C12 constructor contract (documented behaviour, kept in small tables below):
'' / None = not given; False <-> attribute absent; repeated=1 / Spacer(number=1) <-> absent (ODF defaults); a falsy
argument may read back as the value of the call without it; date -> datetime at midnight; Style arguments apply to
their family only (_STYLE_BY_FAMILY); Cell(currency=) needs cell_type='currency' and a value; VarSet(display=) is an
on/off switch; Reference(ref_format=), NamedRange(usage=, crange=), Cell(cell_type=) are drawn from their documented
enumerations; colour parameters get '' and '#FF0000'; homonyms of the generic Element accessors (text, parent, tail)
are not "the argument's property".  C14: identifiers the setter rejects (ValueError/TypeError) or normalises (Table
strips blanks) are outside the domain; get_section takes no name, so it is not an identifier lookup.

Findings on the unchanged tree: see FINDINGS at the end (18 entries, every witness sets REPRODUCED = True).

Self-test (tools/mutrun.py, quick tier; every one changes the set of failing clause labels):
kills: C12 registry      - bookmark.py `_tag = "text:bookmark"` -> "text:bookmark-x" (class under a wrong tag): pinned
                         - element.py `if tag not in _class_registry` -> `if True` (last registration wins): pinned
                           (style:tab-stop -> TabStopStyle), own_tag finding disappears
                         - cell.py register "table:covered-table-cell" -> "table:table-row": pinned
       C12 access paths  - element.py parent `Element.from_tag(parent)` -> `Element(tag_or_elem=parent)`: path_parent
                         - element.py from_tag_for_clone `klass = _class_registry.get(tag, cls)` -> `cls`:
                           path_get_elements
                         - element.py children `Element.from_tag(e)` -> `Element(tag_or_elem=e)`: path_children, path_clone
       C12 constructors  - element.py setter `value = Boolean.encode(value)` -> `str(value)`: exposes[VarDate],
                           exposes[VarCreationDate], ... (bool arguments)
                         - section.py `self.name = name` -> `self.style = name`: exposes[Section]
                         - element.py serialize result `.replace('="x"', '="y"')`: serial_xml, reparse_c14n, reparse_props
                         - element.py from_tag `klass = _class_registry.get(elem.tag, cls)` -> `cls`: reparse_class,
                           dispatch, reparse, all path_* clauses
       C13 sequences     - document.py `elif automatic is True and default is False` -> `automatic is False`:
                           no_raise_automatic
                         - document.py `max_index + 1` -> `max_index`: auto_name, unique[paragraph|text|...]
                         - document.py `style_container.delete(existing)` -> `pass`: unique[*], frame
                         - document.py default insert without `style.tag = "style:default-style"`: container, frame
                         - document.py font-face `if default:` -> `if not default:`: container
                         - document.py delete_styles keeps no default styles (`if False`): delete_all, frame
                         - document.py add_page_break_style fo:break-after -> fo:break-before: page_break
                         - document.py set_table_displayed `Boolean.encode(not displayed)`: table_displayed
                         - document.py save without `container.set_part(path, part.serialize())`: reload
       C13 merge         - document.py merge_styles_from `duplicate.delete()` -> `pass`: merge_union_theirs, unique[*]
                         - document.py merge_styles_from styles part -> self.content: no_raise_other
       C14               - utils/xpath_query.py quote characters swapped ([@q='v']): found_apos
                         - utils/xpath_query.py closing quote dropped: found_plain, found_apos
                         - utils/xpath_query.py `[@q]` for non-True values: found_plain, found_apos
                         - element.py get_references predicate `[@text:ref-name]`: found_plain
                         - element.py get_named_range without the name predicate: found_plain
                         - element.py get_reference_mark second branch without predicate: found_plain
                         - manifest.py get_media_type `starts-with(...)` instead of `=`: found_plain
missed: none of the 28 tried.  Not label-visible by construction: changes that only alter HOW OFTEN an already known
        clause fails (e.g. dropping '//office:automatic-styles' from CONTEXT_MAPPING['paragraph'] removes part of the
        no_raise_common finding) and the order in which Document.get_style consults content.xml / styles.xml when the
        same family+name exists in both (the lookup clause is only evaluated for unambiguous names).
"""
from __future__ import annotations

import inspect as _inspect
import io as _io
import itertools as _it
import random as _random
import re as _re
from datetime import date as _date, datetime as _datetime, timedelta as _timedelta

from pyvc.native import NativeResult
from pyvc.spec import Clause, Opaque, Str, contract

FINDINGS: list = []


# ===================================================================== helpers (raw lxml only)
def _raw(obj):
    """The lxml node behind an odfdo Element (name-mangled private attribute)."""
    return obj._Element__element


def _c14n(node) -> bytes:
    from lxml import etree
    return etree.tostring(node, method="c14n", exclusive=True, with_tail=False)


def _ns():
    from odfdo.element import ODF_NAMESPACES
    return ODF_NAMESPACES


_LX = {}


def _lx(qname: str) -> str:
    """prefix:name -> {uri}name, computed here (not with odfdo._get_lxml_tag)."""
    try:
        return _LX[qname]
    except KeyError:
        prefix, local = qname.split(":", 1)
        _LX[qname] = "{%s}%s" % (_ns()[prefix], local)
        return _LX[qname]


_PX = {}


def _prefixed(lxml_tag: str) -> str:
    try:
        return _PX[lxml_tag]
    except KeyError:
        uri, local = lxml_tag[1:].split("}", 1)
        for p, u in _ns().items():
            if u == uri:
                _PX[lxml_tag] = f"{p}:{local}"
                return _PX[lxml_tag]
        raise KeyError(uri) from None


def _registry():
    import odfdo  # noqa: F401  (all registrations happen on package import)
    from odfdo.element import _class_registry
    return _class_registry


def _all_subclasses(c):
    seen = []
    todo = [c]
    while todo:
        k = todo.pop()
        for s in k.__subclasses__():
            if s not in seen:
                seen.append(s)
                todo.append(s)
    return seen


# ===================================================================== C12 (a)  registry and from_tag
# Pinned table: ODF element name -> name of the odfdo class that must handle it ("first registrant" of
# DESIGN C12 (i)).  Written from the ODF element each class documents in its docstring; tags the library
# registers later and that are not listed here are still enumerated (round-trip clauses apply to them).
PINNED = {
    "office:body": "Body", "office:chart": "Chart", "office:database": "Database", "office:drawing": "Drawing",
    "office:image": "Image", "office:presentation": "Presentation", "office:spreadsheet": "Spreadsheet",
    "office:text": "Text",
    "text:bookmark": "Bookmark", "text:bookmark-start": "BookmarkStart", "text:bookmark-end": "BookmarkEnd",
    "table:table-cell": "Cell", "table:covered-table-cell": "Cell",
    "draw:image": "DrawImage", "draw:fill-image": "DrawFillImage", "style:background-image": "BackgroundImage",
    "text:list-level-style-bullet": "Style", "text:list-level-style-image": "Style",
    "text:list-level-style-number": "Style", "number:number-style": "Style", "style:tab-stop": "Style",
    "number:date-style": "Style", "number:percentage-style": "Style", "style:footer-style": "Style",
    "style:master-page": "Style", "style:presentation-page-layout": "Style", "style:header-style": "Style",
    "style:default-style": "Style", "style:font-face": "Style", "text:outline-style": "Style",
    "draw:marker": "Style", "number:currency-style": "Style", "style:style": "Style",
    "style:page-layout": "Style", "number:boolean-style": "Style", "number:time-style": "Style",
    "text:list-style": "Style",
    "meta:auto-reload": "MetaAutoReload", "meta:hyperlink-behaviour": "MetaHyperlinkBehaviour",
    "meta:template": "MetaTemplate",
    "text:s": "Spacer", "text:tab": "Tab", "text:line-break": "LineBreak", "text:p-odfdo-notodf": "ParagraphBase",
    "text:a": "Link", "text:note": "Note", "office:annotation": "Annotation",
    "office:annotation-end": "AnnotationEnd",
    "text:reference-ref": "Reference", "text:reference-mark": "ReferenceMark",
    "text:reference-mark-start": "ReferenceMarkStart", "text:reference-mark-end": "ReferenceMarkEnd",
    "text:span": "Span", "text:p": "Paragraph", "draw:frame": "Frame", "draw:text-box": "DrawTextBox",
    "table:table-row": "Row", "table:table-column": "Column", "table:table-row-group": "RowGroup",
    "table:table": "Table", "table:named-range": "NamedRange",
    "draw:line": "LineShape", "draw:rect": "RectangleShape", "draw:ellipse": "EllipseShape",
    "draw:connector": "ConnectorShape", "draw:g": "DrawGroup",
    "anim:par": "AnimPar", "anim:seq": "AnimSeq", "anim:transitionFilter": "AnimTransFilter",
    "draw:page": "DrawPage", "text:h": "Header", "table:table-header-rows": "HeaderRows",
    "text:list-item": "ListItem", "text:list": "List", "text:section": "Section",
    "text:index-title": "IndexTitle", "text:index-title-template": "IndexTitleTemplate",
    "text:table-of-content-entry-template": "TocEntryTemplate", "text:table-of-content": "TOC",
    "office:change-info": "ChangeInfo", "text:insertion": "TextInsertion", "text:deletion": "TextDeletion",
    "text:format-change": "TextFormatChange", "text:changed-region": "TextChangedRegion",
    "text:tracked-changes": "TrackedChanges", "text:change": "TextChange", "text:change-end": "TextChangeEnd",
    "text:change-start": "TextChangeStart",
    "text:variable-decls": "VarDecls", "text:variable-decl": "VarDecl", "text:variable-set": "VarSet",
    "text:variable-get": "VarGet", "text:user-field-decls": "UserFieldDecls",
    "text:user-field-decl": "UserFieldDecl", "text:user-field-get": "UserFieldGet",
    "text:user-field-input": "UserFieldInput", "text:user-defined": "UserDefined",
    "text:page-number": "VarPageNumber", "text:page-count": "VarPageCount", "text:date": "VarDate",
    "text:time": "VarTime", "text:chapter": "VarChapter", "text:file-name": "VarFileName",
    "text:initial-creator": "VarInitialCreator", "text:creation-date": "VarCreationDate",
    "text:creation-time": "VarCreationTime", "text:description": "VarDescription", "text:title": "VarTitle",
    "text:subject": "VarSubject", "text:keywords": "VarKeywords",
}


def _gen_registry(con, sigcase, count, seed):
    from odfdo.element import Element
    reg = _registry()
    seen = set()
    for tag in list(reg):
        q = _prefixed(tag)
        seen.add(q)
        yield {"tag": q, "owner": ""}
    for q in PINNED:                       # pinned tags that have disappeared from the registry
        if q not in seen:
            yield {"tag": q, "owner": ""}
    # every Element subclass that declares a tag of its own which is a registered tag
    for k in _all_subclasses(Element):
        t = k.__dict__.get("_tag")
        if t and ":" in t and _lx(t) in reg:
            yield {"tag": t, "owner": f"{k.__module__}.{k.__name__}"}


def _call_registry(con, fn, argvals, labels):
    from lxml import etree
    from odfdo.element import Element
    res = NativeResult()
    reg = _registry()
    q, owner = argvals["tag"], argvals["owner"]
    tag = _lx(q)
    if owner:
        # a class that declares `_tag = q` and q is registered: it must be the class q dispatches to
        res.checked = 1
        k = reg[tag]
        res.outcome = f"{q} -> {k.__module__}.{k.__name__}"
        if f"{k.__module__}.{k.__name__}" != owner:
            res.failures.append(("ensures:own_tag", f"{owner} declares _tag={q!r} but {q} is handled by "
                                                    f"{k.__module__}.{k.__name__}: instances do not come back as "
                                                    f"{owner.rsplit('.', 1)[1]}"))
        return res
    res.checked = 4
    k = reg.get(tag)
    if q in PINNED and (k is None or k.__name__ != PINNED[q]):
        res.failures.append(("ensures:pinned", f"{q} must be handled by {PINNED[q]}, registry has "
                                               f"{k.__name__ if k else None}"))
    if k is None:
        return res
    try:
        e = Element.from_tag(q)
        e_cls = k.from_tag(q)
        raw_new = etree.fromstring(f'<x:{q.split(":")[1]} xmlns:x="{_ns()[q.split(":")[0]]}"/>')
        e_raw = Element.from_tag(raw_new)
    except Exception as ex:  # noqa
        res.failures.append(("ensures:dispatch", f"from_tag({q!r}) raised {ex!r}"))
        return res
    res.outcome = f"{q} -> {type(e).__name__}"
    for how, obj in (("Element.from_tag(str)", e), ("K.from_tag(str)", e_cls), ("Element.from_tag(lxml)", e_raw)):
        if type(obj) is not k:
            res.failures.append(("ensures:dispatch", f"{how} of {q} is {type(obj).__name__}, registered "
                                                     f"{k.__name__}"))
        if _raw(obj).tag != tag:
            res.failures.append(("ensures:dispatch", f"{how} of {q} wraps a node with tag {_raw(obj).tag}"))
    if _raw(e_raw) is not raw_new:
        res.failures.append(("ensures:dispatch", "from_tag(lxml node) wraps another node"))
    try:
        text = e.serialize()
        e2 = Element.from_tag(text)
    except Exception as ex:  # noqa
        res.failures.append(("ensures:reparse", f"serialize/from_tag raised {ex!r}"))
        return res
    if type(e2) is not k:
        res.failures.append(("ensures:reparse", f"from_tag({text!r}) is {type(e2).__name__}, expected {k.__name__}"))
    if _c14n(_raw(e2)) != _c14n(_raw(e)):
        res.failures.append(("ensures:reparse", f"C14N differs after reparse of {text!r}"))
    return res


contract(
    "odfdo.element:Element.from_tag[registry]",
    sig=dict(tag=Str, owner=Str),
    ensures=[Clause("pinned", {"C12"}, lambda a, r, p: True),
             Clause("own_tag", {"C12"}, lambda a, r, p: True),
             Clause("dispatch", {"C12"}, lambda a, r, p: True),
             Clause("reparse", {"C12"}, lambda a, r, p: True)],
    gen=_gen_registry, call_native=_call_registry,
    bounded=dict(scope="every (tag, class) of the real odfdo.element._class_registry enumerated at check time "
                       "(110 tags / 89 classes today) plus the 110 pinned tag->class pairs plus every Element "
                       "subclass declaring a registered _tag: from_tag(str), K.from_tag(str), from_tag(lxml node), "
                       "serialize -> from_tag",
                 reason="ground enumeration of a table filled at import time; the dispatch is one dict lookup"),
)


# ===================================================================== C12 (b)  all access paths
_TREE = {}


def _synthetic_tree():
    """office:document-content / office:scripts / A_i (tag t_i) / B_i (tag t_(i+1)): every registered tag occurs
    at depth 2 (as A) and at depth 3 under a registered parent (as B).  Built with raw lxml only."""
    if _TREE:
        return _TREE
    from lxml import etree
    from odfdo.element import Element
    reg = _registry()
    tags = list(reg)
    root = Element.from_tag("office:document-content")
    rroot = _raw(root)
    holder = etree.SubElement(rroot, _lx("office:scripts"))
    idattr = _lx("text:id")
    a_nodes, b_nodes = [], []
    for i, t in enumerate(tags):
        a = etree.SubElement(holder, t)
        a.set(idattr, f"a{i}")
        b = etree.SubElement(a, tags[(i + 1) % len(tags)])
        b.set(idattr, f"b{i}")
        a_nodes.append(a)
        b_nodes.append(b)
    _TREE.update(root=root, holder=holder, tags=tags, a=a_nodes, b=b_nodes)
    _TREE["all_get_elements"] = root.get_elements("descendant::*")
    _TREE["all_xpath"] = root.xpath("descendant::*")
    _TREE["holder_children"] = Element(tag_or_elem=holder).children
    return _TREE


def _gen_paths(con, sigcase, count, seed):
    for i, t in enumerate(list(_registry())):
        yield {"index": i, "tag": _prefixed(t)}


def _call_paths(con, fn, argvals, labels):
    from odfdo.element import Element
    res = NativeResult()
    reg = _registry()
    tr = _synthetic_tree()
    i = argvals["index"]
    n = len(tr["tags"])
    t = tr["tags"][i]
    k = reg[t]
    a, b_prev, b = tr["a"][i], tr["b"][(i - 1) % n], tr["b"][i]
    k_next = reg[b.tag]
    root = tr["root"]
    res.checked = 6
    res.outcome = f"{argvals['tag']} -> {k.__name__}"

    def bad(label, what):
        res.failures.append((f"ensures:{label}", f"{argvals['tag']}: {what}"))

    def guarded(label, f):
        try:
            return f()
        except Exception as ex:  # noqa
            bad(label, f"raised {ex!r}")
            return None

    # children
    hc = tr["holder_children"]
    if len(hc) != n or _raw(hc[i]) is not a or type(hc[i]) is not k:
        bad("path_children", f"holder.children[{i}] is {type(hc[i]).__name__ if len(hc) > i else None}, "
                             f"registered {k.__name__}")
    wa = k(tag_or_elem=a)
    ch = guarded("path_children", lambda: wa.children)
    if ch is not None and (len(ch) != 1 or _raw(ch[0]) is not b or type(ch[0]) is not k_next):
        bad("path_children", f"child of depth-2 node is {[type(c).__name__ for c in ch]}, registered {k_next.__name__}")
    # get_elements / xpath over the whole tree
    for label, lst in (("path_get_elements", tr["all_get_elements"]), ("path_xpath", tr["all_xpath"])):
        got = [x for x in lst if _raw(x) is a or _raw(x) is b_prev]
        if len(got) != 2 or any(type(x) is not k for x in got):
            bad(label, f"descendant::* gives {[type(x).__name__ for x in got]}, registered {k.__name__} twice")
    q = f'descendant::*[@text:id="a{i}"]'
    got = guarded("path_get_elements", lambda: root.get_elements(q))
    if got is not None and (len(got) != 1 or _raw(got[0]) is not a or type(got[0]) is not k):
        bad("path_get_elements", f"{q} gives {[type(x).__name__ for x in got]}")
    got = guarded("path_xpath", lambda: root.xpath(q))
    if got is not None and (len(got) != 1 or _raw(got[0]) is not a or type(got[0]) is not k):
        bad("path_xpath", f"{q} gives {[type(x).__name__ for x in got]}")
    # get_element (depth 3 and depth 2)
    for node, ident in ((b_prev, f"b{(i - 1) % n}"), (a, f"a{i}")):
        q1 = f'descendant::*[@text:id="{ident}"]'
        got = guarded("path_get_element", lambda: root.get_element(q1))
        if got is None or _raw(got) is not node or type(got) is not k:
            bad("path_get_element", f"{q1} gives {type(got).__name__}, registered {k.__name__}")
    # parent (of the depth-3 child of A_i)
    wb = k_next(tag_or_elem=b)
    par = guarded("path_parent", lambda: wb.parent)
    if par is None or _raw(par) is not a or type(par) is not k:
        bad("path_parent", f"parent of the depth-3 node is {type(par).__name__}, registered {k.__name__}")
    # clone
    cl = guarded("path_clone", lambda: wa.clone)
    if cl is not None:
        if type(cl) is not k or _raw(cl) is a or _c14n(_raw(cl)) != _c14n(a):
            bad("path_clone", f"clone is {type(cl).__name__} (same node: {_raw(cl) is a})")
        cc = guarded("path_clone", lambda: cl.children)
        if cc is not None and (len(cc) != 1 or type(cc[0]) is not k_next):
            bad("path_clone", f"child of the clone is {[type(c).__name__ for c in cc]}, registered {k_next.__name__}")
    return res


contract(
    "odfdo.element:Element[access paths]",
    sig=dict(index=Opaque(int), tag=Str),
    ensures=[Clause(lab, {"C12"}, lambda a, r, p: True) for lab in
             ("path_children", "path_get_elements", "path_xpath", "path_get_element", "path_parent", "path_clone")],
    gen=_gen_paths, call_native=_call_paths,
    bounded=dict(scope="one synthetic tree office:document-content/office:scripts/A_i/B_i built with raw lxml in which "
                       "every tag of the real registry occurs at depth 2 and at depth 3 under a registered parent; "
                       "access paths children, get_elements, xpath, get_element, parent, clone; expected class = "
                       "registry entry of the raw node's tag, identity of the wrapped lxml node checked",
                 reason="ground enumeration over the registry; XPath evaluation is lxml's"),
)


# ===================================================================== C12 (c)  constructors expose their arguments
_D = _datetime(2024, 1, 2, 3, 4, 5)
_TD = _timedelta(hours=1, seconds=3)
_POOL_STR = ["", "x", "a b", "#FF0000", "true"]
_POOL_COLOR = ["", "#FF0000"]
_POOL_INT = [0, 1, 3]
_POOL_BOOL = [True, False]
_POOL_ANY = [None, "", "x", "a b", 0, 1, 3, True, False, "#FF0000", _date(2024, 1, 2), _D]
# Style takes its element name from `family`; its other arguments are tried on top of these.
_BASES = {"Style": [{"family": f} for f in ("paragraph", "text", "table-cell", "table-row", "table-column",
                                            "graphic", "master-page", "page-layout", "list", "number")]
                   + [{"family": "font-face", "font_name": "x"}]}
# Arguments documented as meaningful only together with another argument (signature comments / docstrings).
_STYLE_COMMON = {"family", "name", "display_name", "parent_style"}
_STYLE_BY_FAMILY = {"paragraph": {"master_page"}, "master-page": {"page_layout", "next_style"}}
_STYLE_NOT_FOR = {"font-face": {"name"}}      # a font-face style is named by its font_name (Style.set_font)
# (class, parameter) -> (condition on the call, keyword arguments that enable it; tried by the generator)
_CONDITIONAL = {("Cell", "currency"): (lambda kw: kw.get("cell_type") == "currency" and kw.get("value") is not None,
                                       {"value": 1, "cell_type": "currency"}),
                ("Cell", "value"): (lambda kw: kw.get("cell_type") is None, {}),    # type deduced from the value
                ("Table", "protection_key"): (lambda kw: kw.get("protected") is True, {"protected": True})}
# Parameters whose documented domain is an enumeration / a coordinate syntax rather than any str.
# text:reference-format values of ODF 1.2 (19.854), written out here independently of the library's own list
_DOMAIN = {("Reference", "ref_format"): ["", "page", "chapter", "direction", "text", "category-and-value", "caption", "value",
                                         "number", "number-all-superior", "number-no-superior"],
           ("NamedRange", "crange"): ["A1", "B2:C3"],
           ("NamedRange", "usage"): ["print-range", "filter", "repeat-row"],
           ("Cell", "cell_type"): ["boolean", "currency", "date", "float", "percentage", "string", "time"]}
# Documented conversions of an argument (cell range text -> zero-based (x, y, z, t)).
_CONVERTED = {("NamedRange", "crange"): {"A1": (0, 0, 0, 0), "B2:C3": (1, 1, 2, 2)}}
# Arguments documented as on/off switches whose property is the ODF attribute (VarSet display: shown or "none").
_SWITCH = {("VarSet", "display"): lambda arg, prop: (prop != "none") == bool(arg)}
# ODF attribute defaults: an argument equal to the default may be stored as "attribute absent" (property None).
_ODF_DEFAULT = {"repeated": 1, "number": 1}
# A falsy argument may be replaced by the documented minimum (Table prefill: at least 1 x 1 when a size is given).
_FALSY_MEANS = {("Table", "width"): 1, ("Table", "height"): 1}


_ELEM = "@Element:Paragraph"


def _materialise(kw):
    from odfdo import Paragraph
    return {n: (Paragraph("body text") if isinstance(v, str) and v == _ELEM else v) for n, v in kw.items()}


def _value_pool(pname, ann, default, cls=""):
    ann = _re.sub(r"\[[^\]]*\]", "", str(ann))          # list[str] / Iterable[...] are not str parameters
    vals = []
    if (cls, pname) in _DOMAIN:
        return ([None] if "None" in ann else []) + list(_DOMAIN[(cls, pname)])
    if "None" in ann or default is None:
        vals.append(None)
    if "Any" in ann:
        return list(_POOL_ANY)
    if _re.search(r"\bstr\b", ann):
        vals += _POOL_COLOR if "color" in pname.lower() else _POOL_STR
    if _re.search(r"\bint\b", ann):
        vals += _POOL_INT
    if _re.search(r"\bbool\b", ann):
        vals += _POOL_BOOL
    if _re.search(r"\bdatetime\b", ann):
        vals.append(_D)
    if _re.search(r"\bdate\b", ann):
        vals.append(_date(2024, 1, 2))
    if _re.search(r"\btimedelta\b", ann):
        vals.append(_TD)
    if _re.search(r"\btuple\b", ann) and pname in ("position", "size", "p1", "p2"):
        vals.append(("1cm", "2cm"))
    if _re.search(r"\bElement\b", ann) and _re.search(r"\bstr\b", ann):
        # a "text or element" content parameter (a fresh text:p per call); parameters typed Element alone expect
        # one particular class (AnnotationEnd(annotation=<Annotation>)) and are left to their own defaults
        vals.append(_ELEM)
    return vals


def _ctor_params(k):
    try:
        sig = _inspect.signature(k.__init__)
    except (TypeError, ValueError):
        return []
    out = []
    for name, p in sig.parameters.items():
        if name == "self" or p.kind in (p.VAR_KEYWORD, p.VAR_POSITIONAL):
            continue
        out.append((name, p.annotation, p.default))
    return out


def _ctor_classes():
    out = []
    for k in _registry().values():
        if k not in out:
            out.append(k)
    return out


def _required_base(k, params):
    """Smallest keyword set the constructor accepts: {} or, for classes with mandatory arguments, the first
    accepted combination of at most 3 non-empty values found by the same type-directed pools ({} if nothing is
    accepted: the `constructs` clause then reports it)."""
    def accepted(kw):
        try:
            k(**kw)
            return True
        except (TypeError, ValueError):
            return False
        except Exception:  # noqa  reported by the evaluation itself
            return True
    if accepted({}):
        return {}
    cands = []
    for n, ann, d in params:
        vs = [v for v in _value_pool(n, ann, d, k.__name__) if v not in (None, "", 0, False)]
        if vs:
            cands.append((n, vs[:2]))
    for size in (1, 2, 3):
        for combo in _it.combinations(cands, size):
            for vals in _it.product(*[vs for _n, vs in combo]):
                kw = {n: v for (n, _vs), v in zip(combo, vals)}
                if accepted(kw):
                    return kw
    return {}


def _gen_ctor(con, sigcase, count, seed):
    rnd = _random.Random(seed)
    thorough = count > 200
    for k in _ctor_classes():
        cname = f"{k.__module__}.{k.__name__}"
        params = _ctor_params(k)
        bases = _BASES.get(k.__name__) or [_required_base(k, params)]
        for base in bases:
            yield {"cls": cname, "kwargs": dict(base), "base": True}
            pools = {n: _value_pool(n, ann, d, k.__name__) for n, ann, d in params}
            for n, _ann, _d in params:
                if n in base:
                    continue
                for v in pools[n]:
                    yield {"cls": cname, "kwargs": {**base, n: v}, "base": False}
                    if (k.__name__, n) in _CONDITIONAL:
                        yield {"cls": cname, "kwargs": {**base, **_CONDITIONAL[(k.__name__, n)][1], n: v},
                               "base": False}
            # an element-valued argument together with each other argument (setters that rebuild the children
            # must not lose what the other arguments wrote)
            for ne in [n for n in pools if _ELEM in pools[n] and n not in base]:
                for n, _ann, _d in params:
                    if n == ne or n in base:
                        continue
                    for v in pools[n]:
                        if v is not None:
                            yield {"cls": cname, "kwargs": {**base, ne: _ELEM, n: v}, "base": False}
            names = [n for n, _a, _d in params if n not in base and pools[n]]
            pairs = list(_it.combinations(names, 2))
            rnd.shuffle(pairs)
            if not thorough:
                pairs = pairs[:8 if len(bases) == 1 else 2]
            for n1, n2 in pairs:
                combos = list(_it.product(pools[n1], pools[n2]))
                rnd.shuffle(combos)
                for v1, v2 in combos[: (6 if thorough else 2)]:
                    yield {"cls": cname, "kwargs": {**base, n1: v1, n2: v2}, "base": False}


def _resolve(cname):
    import importlib
    mod, name = cname.rsplit(".", 1)
    return getattr(importlib.import_module(mod), name)


_MISSING = object()


def _own_property(k, name):
    """`name` is a property / attribute the class (or a base other than Element itself) defines: the generic
    XML accessors of Element (text, tail, parent, tag, ...) are homonyms, not the argument's property."""
    from odfdo.element import Element
    for c in k.__mro__:
        if c is Element or c is object:
            continue            # mixins (PosMix, SizeMix, ...) come after Element in the MRO of several classes
        if name in c.__dict__:
            return True
    return False


def _plain(v):
    from odfdo.element import Element
    if isinstance(v, Element):
        return ("Element", _c14n(_raw(v)))
    if isinstance(v, Exception):
        return ("raised", type(v).__name__)
    return v


def _read_props(inst, names):
    out = {}
    for n in names:
        if not _own_property(type(inst), n) and n not in getattr(inst, "__dict__", {}):
            continue
        try:
            v = getattr(inst, n)
        except AttributeError:
            continue
        except Exception as ex:  # noqa  a getter that raises is reported by the caller
            out[n] = ex
            continue
        if callable(v):
            continue
        out[n] = v
    return out


def _duration(td):
    secs = int(td.total_seconds())
    sign = "-" if secs < 0 else ""
    secs = abs(secs)
    return "%sPT%02dH%02dM%02dS" % (sign, secs // 3600, secs // 60 % 60, secs % 60)


def _same_info(pname, arg, prop):
    """The property carries the information of the argument (its Python type aside)."""
    if isinstance(arg, bool) or isinstance(prop, bool):
        enc = {True: "true", False: "false"}
        if arg is False and prop is None:       # absent boolean attribute = false
            return True
        return enc.get(arg, arg) == enc.get(prop, prop) if isinstance(arg, (bool, str)) else False
    if prop == arg:
        return True
    if arg == "" and prop is None:              # empty = not given
        return True
    if prop is None and _ODF_DEFAULT.get(pname, _MISSING) == arg:
        return True
    if isinstance(arg, _datetime):
        return prop == arg.isoformat()
    if isinstance(arg, _date):
        return prop == _datetime(arg.year, arg.month, arg.day) or prop == arg.isoformat()
    if isinstance(arg, _timedelta):
        return prop == _duration(arg)
    if isinstance(arg, int):
        return prop == str(arg)
    return False


# one `exposes` clause per class (so that a known defect of one constructor does not hide another class)
_EXPOSE_CLASSES = sorted(set(PINNED.values()))


def _call_ctor(con, fn, argvals, labels):
    from lxml import etree
    from odfdo.element import Element
    res = NativeResult()
    k = _resolve(argvals["cls"])
    kw = argvals["kwargs"]
    short = k.__name__
    call = f"{short}({', '.join(f'{n}={v!r}' for n, v in kw.items())})"
    try:
        inst = k(**_materialise(kw))
    except (TypeError, ValueError) as ex:
        if argvals["base"]:
            res.checked = 1
            res.failures.append(("ensures:constructs", f"no accepted construction found: {call} rejected with {ex!r}"))
            return res
        res.in_domain = False           # a rejection: outside the constructor's domain
        return res
    except Exception as ex:  # noqa
        res.checked = 1
        res.outcome = f"raised {ex!r}"
        res.failures.append(("ensures:constructs", f"{call} raised {ex!r} (neither TypeError nor ValueError)"))
        return res
    res.checked = 8
    names = [n for n, _a, _d in _ctor_params(k)]
    props = _read_props(inst, names)
    res.outcome = f"{call} -> {props!r}"[:300]
    fam = kw.get("family") if short == "Style" else None
    exposes = f"ensures:exposes[{short if short in _EXPOSE_CLASSES else 'other'}]"
    for n, arg in kw.items():
        if n not in props or arg is None:
            continue
        if short == "Style" and (n not in _STYLE_COMMON | _STYLE_BY_FAMILY.get(fam, set())
                                 or n in _STYLE_NOT_FOR.get(fam, set())):
            continue
        if (short, n) in _CONDITIONAL and not _CONDITIONAL[(short, n)][0](kw):
            continue
        got = props[n]
        if isinstance(got, Exception):
            res.failures.append((exposes, f"{call}.{n} raised {got!r}"))
            continue
        if (short, n) in _SWITCH:
            if not _SWITCH[(short, n)](arg, got):
                res.failures.append((exposes, f"{call}.{n} == {got!r}, argument was {arg!r}"))
            continue
        if (short, n) in _CONVERTED and _CONVERTED[(short, n)].get(arg, _MISSING) == got:
            continue
        if not _same_info(n, arg, got):
            if arg in ("", 0, False):
                # a falsy argument may mean "not given": then the property is that of the call without it
                try:
                    without = _read_props(k(**_materialise({a: b for a, b in kw.items() if a != n})), [n]).get(n, _MISSING)
                except Exception:  # noqa
                    without = _MISSING
                if _plain(without) == _plain(got) or _FALSY_MEANS.get((short, n), _MISSING) == got:
                    continue
            res.failures.append((exposes, f"{call}.{n} == {got!r}, argument was {arg!r}"))
            continue
        if got is None:
            continue
        if isinstance(arg, str) and not isinstance(got, str):
            res.failures.append(("ensures:exposes_str_type", f"{call}.{n} == {got!r} ({type(got).__name__}), "
                                                             f"argument was the str {arg!r}"))
        elif isinstance(arg, (int, _datetime, _timedelta)) and not isinstance(arg, bool) \
                and isinstance(got, str):
            res.failures.append(("ensures:exposes_scalar_type", f"{call}.{n} == {got!r} (str), argument was "
                                                                f"{arg!r} ({type(arg).__name__})"))
    # the serialisation is namespaced XML that an independent parser reads as the same infoset
    try:
        text = inst.serialize()
    except Exception as ex:  # noqa
        res.failures.append(("ensures:serial_xml", f"{call}.serialize() raised {ex!r}"))
        return res
    try:
        frag = etree.fromstring("<r %s>%s</r>" % (" ".join(f'xmlns:{p}="{u}"' for p, u in _ns().items()), text))
        if len(frag) != 1 or frag[0].tag != _raw(inst).tag:
            res.failures.append(("ensures:serial_xml", f"{call} serialises to {text[:80]!r}: not one element of "
                                                       f"its own tag"))
        elif _c14n(frag[0]) != _c14n(_raw(inst)):
            res.failures.append(("ensures:serial_xml", f"{call}: an independent parse of the serialisation "
                                                       f"differs from the element"))
    except etree.XMLSyntaxError as ex:
        res.failures.append(("ensures:serial_xml", f"{call} serialises to {text[:120]!r} which lxml refuses: {ex}"))
        return res
    try:
        back = Element.from_tag(text)
    except Exception as ex:  # noqa
        res.failures.append(("ensures:reparse_class", f"{call}: from_tag(serialize()) raised {ex!r}"))
        return res
    if type(back) is not type(inst):
        res.failures.append(("ensures:reparse_class", f"{call} comes back as {type(back).__name__}"))
    if _c14n(_raw(back)) != _c14n(_raw(inst)):
        res.failures.append(("ensures:reparse_c14n", f"{call}: C14N differs after serialize -> from_tag"))
    if type(back) is type(inst):
        props2 = _read_props(back, [n for n in names if n in getattr(type(inst), "__dict__", {}) or
                                    _own_property(type(inst), n)])
        diff = {n: (props[n], props2.get(n, _MISSING)) for n in props
                if n in props2 and _plain(props2[n]) != _plain(props[n])}
        if diff:
            res.failures.append(("ensures:reparse_props", f"{call}: properties before/after reparse {diff!r}"))
    return res


contract(
    "odfdo.element:Element.__init__[registered classes]",
    sig=dict(cls=Str, kwargs=Opaque(dict), base=Opaque(bool)),
    ensures=[Clause(lab, {"C12"}, lambda a, r, p: True) for lab in
             ["constructs", "exposes_str_type", "exposes_scalar_type", "serial_xml", "reparse_class",
              "reparse_c14n", "reparse_props"] + [f"exposes[{c}]" for c in _EXPOSE_CLASSES + ["other"]]],
    gen=_gen_ctor, call_native=_call_ctor,
    bounded=dict(scope="every class of the real registry: minimal accepted call; each keyword parameter alone over the "
                       "values its annotation admits from {None, '', 'x', 'a b', '#FF0000', 'true', 0, 1, 3, True, "
                       "False, date, datetime, timedelta, ('1cm','2cm'), a text:p element}; an element-valued argument "
                       "together with every other argument (colour parameters: '', '#FF0000'); 8 "
                       "parameter pairs x 2 value pairs per class (quick) / all pairs x 6 (thorough); Style on top of "
                       "11 families; TypeError/ValueError = rejected (not counted)",
                 reason="constructors that build children (frames, lists, notes, TOC, tracked changes) are outside "
                        "the executor's subset; the simple ones are enumerated as well"),
)


# ===================================================================== C13  styles
_SAMPLES = "/repo/tests/samples/"
_C13_DOCS = ["text", "spreadsheet", "presentation", "drawing", "text+table",
             _SAMPLES + "lpod_styles.odt", _SAMPLES + "simple_table.ods", _SAMPLES + "example.odp"]
_PARTS = ("content.xml", "styles.xml")
_CONTAINERS = ("office:styles", "office:automatic-styles", "office:master-styles", "office:font-face-decls")
_STD_FAMILIES = ("paragraph", "text", "table-cell", "graphic")


def _open_doc(src):
    from odfdo import Document
    if src == "text+table":             # the text template with one table that has no style of its own
        from odfdo import Table
        doc = Document("text")
        doc.body.append(Table("T1", width=2, height=2))
        return doc
    return Document(src)


def _attr(node, qname):
    return node.get(_lx(qname))


def _containers(doc):
    """(part, container qname) -> raw lxml node (or None), found with plain lxml child steps."""
    out = {}
    for part in _PARTS:
        root = _raw(doc.get_part(part).root)
        for c in _CONTAINERS:
            found = [ch for ch in root if ch.tag == _lx(c)]
            out[(part, c)] = found[0] if found else None
            if len(found) > 1:
                raise AssertionError(f"{part} has {len(found)} {c}")
    return out


def _is_style_node(ch):
    return isinstance(ch.tag, str) and (_attr(ch, "style:name") is not None or ch.tag == _lx("style:default-style"))


def _key(ch):
    return (_prefixed(ch.tag), _attr(ch, "style:family"), _attr(ch, "style:name"))


def _snapshot(doc):
    """(part, container) -> list of (key, c14n, node) of its style children, in document order."""
    snap = {}
    for where, cont in _containers(doc).items():
        snap[where] = [] if cont is None else [(_key(ch), _c14n(ch), ch) for ch in cont if _is_style_node(ch)]
    return snap


def _dups(snap):
    out = set()
    for where, lst in snap.items():
        seen = set()
        for k, _c, _n in lst:
            if k in seen:
                out.add((where, k))
            seen.add(k)
    return out


def _family_of(key):
    tag, fam, _name = key
    if tag in ("style:style", "style:default-style"):
        return fam
    return {"style:master-page": "master-page", "style:page-layout": "page-layout",
            "style:font-face": "font-face", "text:list-style": "list"}.get(tag, tag)


# The dispatch table, written from the ODF rules (DESIGN C13): where insert_style must put a style.
def _expected_place(family, kind):
    if family == "master-page":
        return ("styles.xml", "office:master-styles"), "style:master-page"
    if family == "page-layout":
        return ("styles.xml", "office:automatic-styles"), "style:page-layout"
    if family == "font-face":
        return (("styles.xml" if kind == "default" else "content.xml"), "office:font-face-decls"), "style:font-face"
    if kind == "common":
        return ("styles.xml", "office:styles"), "style:style"
    if kind == "automatic":
        return ("content.xml", "office:automatic-styles"), "style:style"
    if kind == "default":
        return ("styles.xml", "office:styles"), "style:default-style"
    raise ValueError(kind)


def _doc_ops(src):
    """The operation alphabet for one document: generic inserts plus inserts that reuse names the document
    already has in each container."""
    ops = []
    for fam in _STD_FAMILIES:
        ops += [("ins", fam, "A", "common"), ("ins", fam, "A", "automatic"), ("ins", fam, None, "automatic"),
                ("ins", fam, "odfdo_auto_3", "automatic"), ("ins", fam, "A", "default")]
    ops += [("ins", "paragraph", "odfdo_auto_1", "common"),
            ("ins", "master-page", "M", "common"), ("ins", "page-layout", "PL", "common"),
            ("ins", "font-face", "F", "common"), ("ins", "font-face", "F", "default"),
            ("pagebreak",), ("delete",), ("merge", "text")]
    doc = _open_doc(src)
    snap = _snapshot(doc)
    body = _raw(doc.body)
    if any(ch.tag == _lx("table:table") for ch in body):
        ops += [("displayed", False), ("displayed", True)]

    def first(where, tag, fams=None):
        for k, _c, _n in snap[where]:
            if k[0] == tag and k[2] and (fams is None or k[1] in fams):
                return k
        return None
    std = ("paragraph", "text", "table-cell", "graphic", "table", "table-row", "table-column", "presentation",
           "drawing-page", "section")
    for where in (("styles.xml", "office:automatic-styles"), ("styles.xml", "office:styles"),
                  ("content.xml", "office:automatic-styles")):
        k = first(where, "style:style", std)
        if k:
            ops += [("ins", k[1], k[2], "common"), ("ins", k[1], k[2], "automatic")]
    k = first(("styles.xml", "office:master-styles"), "style:master-page")
    if k:
        ops.append(("ins", "master-page", k[2], "common"))
    k = first(("styles.xml", "office:automatic-styles"), "style:page-layout")
    if k:
        ops.append(("ins", "page-layout", k[2], "common"))
    k = first(("content.xml", "office:font-face-decls"), "style:font-face")
    if k:
        ops += [("ins", "font-face", k[2], "common"), ("ins", "font-face", k[2], "default")]
    out = []
    for o in ops:
        if o not in out:
            out.append(o)
    return out


def _gen_style_seq(con, sigcase, count, seed):
    rnd = _random.Random(seed)
    thorough = count > 200
    for src in _C13_DOCS:
        ops = _doc_ops(src)
        for o in ops:
            yield {"doc": src, "ops": (o,)}
        for o in ops:                       # the same insertion twice must replace, not duplicate
            if o[0] == "ins":
                yield {"doc": src, "ops": (o, o)}
        for o in ops:                       # insertion into a document whose named styles are gone
            if o[0] == "ins" and o[3] == "common":
                yield {"doc": src, "ops": (("delete",), o)}
        if src == "text" or (thorough and src in ("spreadsheet", _SAMPLES + "lpod_styles.odt")):
            for o1 in ops:
                for o2 in ops:
                    yield {"doc": src, "ops": (o1, o2)}
        n_random = 600 if thorough else 80
        for _ in range(n_random):
            n = rnd.choice((2, 3, 3, 4, 4) if thorough else (2, 3, 3))
            yield {"doc": src, "ops": tuple(rnd.choice(ops) for _ in range(n))}


def _build_style(fam, name, step):
    from odfdo import Style
    mark = f"step{step}"
    if fam == "font-face":
        return Style("font-face", font_name=name, font_family=mark)
    if fam == "master-page":
        return Style("master-page", name=name, display_name=mark)
    if fam == "page-layout":
        return Style("page-layout", name=name, display_name=mark)
    if name is None:
        return Style(fam, display_name=mark)
    return Style(fam, name=name, display_name=mark)


def _count_named(snap, fam, name, tags):
    """How many style nodes of the whole document carry this family and name (any container)."""
    n = 0
    for lst in snap.values():
        for k, _c, _nd in lst:
            if k[0] in tags and _family_of(k) == fam and k[2] == name:
                n += 1
    return n


_FAM_LABELS = ["paragraph", "text", "table-cell", "graphic", "table", "table-row", "table-column", "presentation",
               "drawing-page", "section", "master-page", "page-layout", "font-face", "other"]


def _fl(label, family):
    """per-family clause label, e.g. lookup[paragraph]"""
    return f"{label}[{family if family in _FAM_LABELS else 'other'}]"


def _call_style_seq(con, fn, argvals, labels):
    res = NativeResult()
    doc = _open_doc(argvals["doc"])
    live = []          # (family, name, kind, node) of styles inserted by this sequence
    res.outcome = ""

    def bad(step, label, what):
        res.failures.append((f"ensures:{label}", f"step {step} {argvals['ops'][step]!r}: {what}"))

    before = _snapshot(doc)
    for step, op in enumerate(argvals["ops"]):
        dups_before = _dups(before)
        try:
            stop, after = _style_step(doc, op, step, before, live, res, bad)
        except Exception as ex:  # noqa   (oracle trouble must not pass silently)
            bad(step, "no_raise_other", f"checking raised {ex!r}")
            break
        if after is None:
            after = _snapshot(doc)
        before = after
        res.checked += 1
        new_dups = _dups(after) - dups_before
        if new_dups:
            for fam_d in sorted({_family_of(k) or "other" for _w, k in new_dups}):
                bad(step, _fl("unique", fam_d), f"two children share (tag, family, name): "
                                                f"{sorted(new_dups, key=repr)[:3]}")
        if stop:
            break
    # ---- save to a BytesIO, reload, look the surviving inserted styles up again
    final = before
    alive = [(f, n, kd, nd) for f, n, kd, nd in live
             if any(nd is x for lst in final.values() for _k, _c, x in lst)]
    if alive and not res.failures:
        res.checked += 1
        try:
            buf = _io.BytesIO()
            doc.save(buf)
            buf.seek(0)
            doc2 = _open_doc(buf)
            snap2 = _snapshot(doc2)
        except Exception as ex:  # noqa
            bad(len(argvals["ops"]) - 1, "reload", f"save/reload raised {ex!r}")
            return res
        for fam, name, kind, node in alive:
            where, tag = _expected_place(fam, kind)
            key = _key(node)
            twins = [c for k, c, _n in snap2[where] if k == key]
            if twins != [_c14n(node)]:
                bad(len(argvals["ops"]) - 1, "reload", f"{key} is {len(twins)} times in {where} after reload"
                                                       f"{'' if not twins else ' (content differs)'}")
                continue
            if _count_named(snap2, fam, key[2], (tag,)) == 1:
                try:
                    got = doc2.get_style(fam, key[2]) if kind != "default" or fam == "font-face" \
                        else doc2.get_style(fam)
                except Exception as ex:  # noqa
                    bad(len(argvals["ops"]) - 1, "reload", f"get_style({fam!r}, {key[2]!r}) raised {ex!r}")
                    continue
                if got is None or _c14n(_raw(got)) != _c14n(node):
                    bad(len(argvals["ops"]) - 1, "reload", f"get_style({fam!r}, {key[2]!r}) after reload gives "
                                                           f"{None if got is None else _key(_raw(got))}")
    return res


def _style_step(doc, op, step, before, live, res, bad):
    """Apply one operation and check its own postcondition; returns (stop, snapshot after or None)."""
    kind = op[0]
    if kind == "ins":
        _op, fam, name, how = op
        style = _build_style(fam, name, step)
        node = _raw(style)
        fam_names = {k[2] for lst in before.values() for k, _c, _n in lst if _family_of(k) == fam and k[2]}
        fam_auto_names = {k[2] for w, lst in before.items() for k, _c, _n in lst
                          if _family_of(k) == fam and k[2] and w[1] == "office:automatic-styles"}
        res.checked += 5
        try:
            ret = doc.insert_style(style, automatic=(how == "automatic"), default=(how == "default"))
        except Exception as ex:  # noqa
            bad(step, "no_raise_" + how, f"insert_style raised {ex!r}")
            return True, None
        where, tag = _expected_place(fam, how)
        conts = _containers(doc)
        after = _snapshot(doc)
        res.outcome += f"{ret!r} "
        if node.getparent() is None or node.getparent() is not conts[where]:
            par = node.getparent()
            at = [w for w, c in conts.items() if c is par]
            bad(step, "container", f"the style is in {at or (par.tag if par is not None else None)}, "
                                   f"must be a child of {where}")
            return True, None
        if _prefixed(node.tag) != tag:
            bad(step, "container", f"the style element is {_prefixed(node.tag)}, must be {tag}")
        key = _key(node)
        if how == "default" and fam != "font-face" and key[2] is not None:
            bad(step, "container", f"a default style keeps its style:name {key[2]!r}")
        # returned name
        if how != "default" or fam == "font-face":
            if ret != key[2] or not ret:
                bad(step, _fl("lookup", fam), f"returned name {ret!r}, the style is named {key[2]!r}")
            if name is not None and key[2] != name:
                bad(step, _fl("lookup", fam), f"inserted under the name {name!r} but named {key[2]!r}")
        # generated automatic name is fresh
        if name is None and how == "automatic":
            if key[2] in fam_names:
                bad(step, "auto_name" if key[2] in fam_auto_names else "auto_name_common",
                    f"generated name {key[2]!r} already names "
                    f"{'an automatic' if key[2] in fam_auto_names else 'a common'} {fam} style of the document")
        # frame: the container lost at most the style of the same key, everything else is untouched
        for w in before:
            was = [(k, c) for k, c, _n in before[w]]
            now = [(k, c) for k, c, _n in after[w]]
            if w == where:
                exp = [(k, c) for k, c in was if k != key] + [(key, _c14n(node))]
            else:
                exp = was
            if now != exp:
                gone = [k for k, c in was if (k, c) not in now]
                extra = [k for k, c in now if (k, c) not in exp]
                bad(step, "frame" if w != where or extra != [key] else _fl("unique", fam),
                    f"{w}: removed {gone[:3]}, unexpected {extra[:3]}")
        # lookup by the returned name (only meaningful when the name is unambiguous in the document)
        if _count_named(after, fam, key[2], (tag,)) == 1:
            try:
                got = doc.get_style(fam, key[2]) if how != "default" or fam == "font-face" else doc.get_style(fam)
            except Exception as ex:  # noqa
                bad(step, _fl("lookup", fam), f"get_style({fam!r}, {key[2]!r}) raised {ex!r}")
                got = False
            if got is not False and (got is None or _raw(got) is not node):
                bad(step, _fl("lookup", fam), f"get_style({fam!r}, {key[2]!r}) gives "
                                    f"{None if got is None else _key(_raw(got))}, not the inserted node")
        live.append((fam, key[2], how, node))
        return False, after
    if kind == "pagebreak":
        res.checked += 1
        try:
            doc.add_page_break_style()
        except Exception as ex:  # noqa
            bad(step, "no_raise_other", f"add_page_break_style raised {ex!r}")
            return True, None
        after = _snapshot(doc)
        hits = [n for k, _c, n in after[("styles.xml", "office:styles")]
                if k == ("style:style", "paragraph", "odfdopagebreak")]
        ok = len(hits) == 1 and any(ch.tag == _lx("style:paragraph-properties") and _attr(ch, "fo:break-after") == "page"
                                    for ch in hits[0])
        if not ok and _count_named(before, "paragraph", "odfdopagebreak", ("style:style",)) == 0:
            bad(step, "page_break", f"{len(hits)} common paragraph style(s) odfdopagebreak with fo:break-after=page")
        return False, after
    if kind == "delete":
        res.checked += 2
        named_before = sum(1 for lst in before.values() for k, _c, _n in lst if k[2] is not None)
        defaults_before = [(w, k, c) for w, lst in before.items() for k, c, _n in lst if k[2] is None]
        try:
            ret = doc.delete_styles()
        except Exception as ex:  # noqa
            bad(step, "no_raise_other", f"delete_styles raised {ex!r}")
            return True, None
        after = _snapshot(doc)
        left = [(w, k) for w, lst in after.items() for k, _c, _n in lst if k[2] is not None]
        defaults_after = [(w, k, c) for w, lst in after.items() for k, c, _n in lst if k[2] is None]
        if left or ret != named_before:
            bad(step, "delete_all", f"returned {ret}, {named_before} named styles before, left {left[:3]}")
        if defaults_after != defaults_before:
            bad(step, "frame", "delete_styles changed the default styles")
        return False, after
    if kind == "displayed":
        flag = op[1]
        res.checked += 1
        table0 = [ch for ch in _raw(doc.body) if ch.tag == _lx("table:table")][0]
        has_style = any(k == ("style:style", "table", _attr(table0, "table:style-name"))
                        for lst in before.values() for k, _c, _n in lst)
        tlabel = "table_displayed" if has_style else "table_displayed_unstyled"   # no (real) table style before
        try:
            doc.set_table_displayed(0, flag)
        except Exception as ex:  # noqa
            bad(step, "no_raise_other", f"set_table_displayed raised {ex!r}")
            return True, None
        after = _snapshot(doc)
        table = [ch for ch in _raw(doc.body) if ch.tag == _lx("table:table")][0]
        sname = _attr(table, "table:style-name")
        hits = [n for k, _c, n in after[("content.xml", "office:automatic-styles")]
                if k == ("style:style", "table", sname)]
        shown = [_attr(ch, "table:display") for n in hits for ch in n if ch.tag == _lx("style:table-properties")]
        if len(hits) != 1 or shown != ["true" if flag else "false"]:
            bad(step, tlabel, f"table style {sname!r}: {len(hits)} automatic table style(s), "
                                         f"table:display {shown}")
        was = [(w, k, c) for w, lst in before.items() for k, c, _n in lst]
        now = [(w, k, c) for w, lst in after.items() for k, c, _n in lst]
        if [x for x in was if x not in now]:
            bad(step, "frame", f"set_table_displayed removed/changed {[x[:2] for x in was if x not in now][:3]}")
        return False, after
    if kind == "merge":
        other = _open_doc(op[1])
        from odfdo import Style
        try:
            other.insert_style(Style("paragraph", name="A", display_name="from-other"))
        except Exception as ex:  # noqa
            bad(step, "no_raise_other", f"set-up insert_style on the other document raised {ex!r}")
            return True, None
        res.checked += 1
        fails = _merge_check(doc, other, before)
        for lab, what in fails:
            if lab != "merge_source_unchanged":        # that clause belongs to the merge contract below
                bad(step, lab, what)
        return any(lab == "no_raise_other" for lab, _w in fails), None
    raise ValueError(op)


def _all_parts(doc):
    out = {}
    for p in doc.get_parts():
        try:
            data = doc.get_part(p)
        except Exception:  # noqa
            continue
        if hasattr(data, "serialize"):
            data = data.serialize()
        out[p] = data
    return out


def _merge_check(dst, src, dst_before):
    """merge_styles_from: result = union, the other document's definitions win, the other document unchanged."""
    fails = []
    src_before = _snapshot(src)
    src_parts = {p: _raw(src.get_part(p).root) for p in _PARTS}
    src_ser = {p: _c14n(r) for p, r in src_parts.items()}
    try:
        dst.merge_styles_from(src)
    except Exception as ex:  # noqa
        return [("no_raise_other", f"merge_styles_from raised {ex!r}")]
    after = _snapshot(dst)
    src_keys = {(w, k) for w, lst in src_before.items() for k, _c, _n in lst}
    for w, lst in src_before.items():
        for k, c, _n in lst:
            got = [c2 for k2, c2, _n2 in after[w] if k2 == k]
            if got != [c]:
                fails.append(("merge_union_theirs", f"{k} of the other document is {len(got)} times in {w} of the result"
                                             f"{'' if not got else ' (definition differs)'}"))
                break
    for w, lst in dst_before.items():
        for k, c, _n in lst:
            if (w, k) in src_keys:
                continue
            got = [c2 for k2, c2, _n2 in after[w] if k2 == k]
            if got != [c]:
                fails.append(("merge_union_ours", f"own style {k} is {len(got)} times in {w} after the merge"))
                break
    changed = [p for p in _PARTS if _c14n(_raw(src.get_part(p).root)) != src_ser[p]
               or _raw(src.get_part(p).root) is not src_parts[p]]
    if changed:
        n0 = sum(len(v) for v in src_before.values())
        n1 = sum(len(v) for v in _snapshot(src).values())
        fails.append(("merge_source_unchanged", f"the other document changed in {changed}: {n0} styles before, "
                                                f"{n1} after merge_styles_from"))
    return fails


contract(
    "odfdo.document:Document.insert_style[sequences]",
    sig=dict(doc=Str, ops=Opaque(tuple)),
    ensures=[Clause(lab, {"C13"}, lambda a, r, p: True) for lab in
             ["no_raise_common", "no_raise_automatic", "no_raise_default", "no_raise_other", "container", "auto_name",
              "auto_name_common", "frame", "reload", "page_break", "delete_all", "table_displayed",
              "table_displayed_unstyled", "merge_union_theirs", "merge_union_ours"]
             + [_fl("lookup", f) for f in _FAM_LABELS] + [_fl("unique", f) for f in _FAM_LABELS]],
    gen=_gen_style_seq, call_native=_call_style_seq,
    bounded=dict(scope="documents: the 4 templates (text, spreadsheet, presentation, drawing), the text "
                       "template + an unstyled table, samples lpod_styles.odt, simple_table.ods, example.odp; operations: insert_style over families "
                       "{paragraph, text, table-cell, graphic} x {'A' common, 'A' automatic, unnamed automatic, "
                       "'odfdo_auto_3' automatic, default}, common paragraph 'odfdo_auto_1', master-page, page-layout, "
                       "font-face (content / styles), the same with names already present in each container of the "
                       "document, add_page_break_style, delete_styles, set_table_displayed(0, bool), "
                       "merge_styles_from(text template + 1 style); all sequences of length 1, every insertion twice, every common insertion after "
                       "delete_styles, all sequences of length 2 over the text template, 80 random sequences of length 2-3 per document (thorough: all of length 2 also over "
                       "the spreadsheet template and lpod_styles.odt, 600 random of length 2-4); raw-lxml snapshot of the 8 containers after every step, save to "
                       "BytesIO + reload at the end",
                 reason="histories over a document; XPath lookups are assumed in the proof plan"),
)


def _gen_merge(con, sigcase, count, seed):
    docs = [d for d in _C13_DOCS if d != "text+table"]
    for dst in docs:
        for src in docs:
            yield {"dst": dst, "src": src, "extra": False}
            yield {"dst": dst, "src": src, "extra": True}


def _call_merge(con, fn, argvals, labels):
    from odfdo import Style
    res = NativeResult()
    res.checked = 4
    dst, src = _open_doc(argvals["dst"]), _open_doc(argvals["src"])
    if argvals["extra"]:        # both sides define paragraph 'A' (different content) and an automatic style
        try:
            dst.insert_style(Style("paragraph", name="A", display_name="mine"))
            src.insert_style(Style("paragraph", name="A", display_name="theirs"))
            src.insert_style(Style("text", name="T1", display_name="theirs"), automatic=True)
            dst.insert_style(Style("text", name="T0", display_name="mine"), automatic=True)
        except Exception as ex:  # noqa
            res.failures.append(("ensures:no_raise_other", f"set-up insert_style raised {ex!r}"))
            return res
    before = _snapshot(dst)
    dups_before = _dups(before)
    for lab, what in _merge_check(dst, src, before):
        res.failures.append((f"ensures:{lab}", what))
    new_dups = _dups(_snapshot(dst)) - dups_before
    if new_dups:
        for fam_d in sorted({_family_of(k) or "other" for _w, k in new_dups}):
            res.failures.append((f"ensures:{_fl('unique', fam_d)}", f"after the merge two children share (tag, family, "
                                                                     f"name): {sorted(new_dups, key=repr)[:3]}"))
    res.outcome = f"{sum(len(v) for v in before.values())} -> {sum(len(v) for v in _snapshot(dst).values())} styles"
    return res


contract(
    "odfdo.document:Document.merge_styles_from",
    sig=dict(dst=Str, src=Str, extra=Opaque(bool)),
    ensures=[Clause(lab, {"C13"}, lambda a, r, p: True) for lab in
             ["no_raise_other", "merge_union_theirs", "merge_union_ours", "merge_source_unchanged"]
             + [_fl("unique", f) for f in _FAM_LABELS]],
    gen=_gen_merge, call_native=_call_merge,
    bounded=dict(scope="all 49 ordered pairs (destination, other) of the 4 templates and 3 samples, as loaded and with a "
                       "conflicting common style 'A' plus one automatic style added on each side; raw-lxml snapshot of "
                       "the 8 containers of both documents before/after, C14N of the other document's parts",
                 reason="frame condition over two documents; bounded replay"),
)


# ===================================================================== C14  identifiers are found again
_C14_ALPHABET = ["a", " ", '"', "'", "&", "<", "]", "[", "é", "="]
_C14_EXTRA = ['zz" or "1"="1', "zz' or '1'='1", 'a"]|//*[@x="', 'say "hi"', "it's", '"\'', "x&amp;y", "a<b>c",
              # identifiers that look like pieces of the queries built around them (tag / attribute name fragments)
              "chapter-start", "x-end", "-start", "mark-start-2", "start", "a-decl", "text:name", "@text:name", "//", "*",
              "..", "name", "reference-mark", "x|y", "a and b", "1", "0", "true", "last()"]


def _plain_container(kind):
    from odfdo.element import Element
    return Element.from_tag({"text": "office:text", "spreadsheet": "office:spreadsheet",
                             "drawing": "office:drawing"}[kind])


def _c14_entries():
    """name -> (container kind, attribute holding the identifier, maker(ident) -> element,
                store(container, element), [(lookup label, lookup(container, ident) -> element | list | None)])
    Every lookup entry point of odfdo that takes a name or an id (Element / Body / Table / Document / Manifest)."""
    import odfdo
    from odfdo import (Annotation, AnnotationEnd, Bookmark, BookmarkEnd, BookmarkStart, ConnectorShape, DrawGroup,
                       DrawPage, EllipseShape, Frame, LineShape, Link, NamedRange, Note, RectangleShape,
                       Reference, ReferenceMark, ReferenceMarkEnd, ReferenceMarkStart, Table, UserDefined,
                       UserFieldDecl, VarDecl, VarSet)
    from odfdo.tracked_changes import TextChange, TextChangedRegion, TextChangeEnd, TextChangeStart, TrackedChanges

    def app(c, e):
        _raw(c).append(_raw(e))          # stored with raw lxml: the store side is not what is being checked

    def annot(i):
        a = Annotation("note")
        a.name = i
        return a

    def with_id(cls):
        def make(i):
            e = cls()
            e.set_id(i)
            return e
        return make

    def region(i):
        r = TextChangedRegion()
        r.set_id(i)
        return r

    def store_region(c, e):
        tc = [ch for ch in _raw(c) if ch.tag == _lx("text:tracked-changes")]
        if not tc:
            t = TrackedChanges()
            app(c, t)
            tc = [_raw(t)]
        tc[0].append(_raw(e))

    def store_nr(c, e):
        c.append_named_range(e)

    E = {}
    E["table"] = ("spreadsheet", "table:name", lambda i: Table(i), app,
                  [("get_table", lambda c, i: c.get_table(name=i))])
    E["bookmark"] = ("text", "text:name", lambda i: Bookmark(i), app,
                     [("get_bookmark", lambda c, i: c.get_bookmark(name=i))])
    E["bookmark_start"] = ("text", "text:name", lambda i: BookmarkStart(i), app,
                           [("get_bookmark_start", lambda c, i: c.get_bookmark_start(name=i))])
    E["bookmark_end"] = ("text", "text:name", lambda i: BookmarkEnd(i), app,
                         [("get_bookmark_end", lambda c, i: c.get_bookmark_end(name=i))])
    E["reference_mark"] = ("text", "text:name", lambda i: ReferenceMark(i), app,
                           [("get_reference_mark_single", lambda c, i: c.get_reference_mark_single(name=i)),
                            ("get_reference_mark", lambda c, i: c.get_reference_mark(name=i))])
    E["reference_mark_start"] = ("text", "text:name", lambda i: ReferenceMarkStart(i), app,
                                 [("get_reference_mark_start", lambda c, i: c.get_reference_mark_start(name=i)),
                                  ("get_reference_mark", lambda c, i: c.get_reference_mark(name=i))])
    E["reference_mark_end"] = ("text", "text:name", lambda i: ReferenceMarkEnd(i), app,
                               [("get_reference_mark_end", lambda c, i: c.get_reference_mark_end(name=i))])
    E["reference"] = ("text", "text:ref-name", lambda i: Reference(i), app,
                      [("get_references", lambda c, i: c.get_references(name=i))])
    E["frame"] = ("text", "draw:name", lambda i: Frame(name=i), app,
                  [("get_frame", lambda c, i: c.get_frame(name=i))])
    E["image"] = ("text", "draw:name", lambda i: Frame.image_frame("Pictures/x.png", name=i), app,
                  [("get_image", lambda c, i: (lambda im: None if im is None else im.parent)(c.get_image(name=i)))])
    E["draw_page"] = ("drawing", "draw:name", lambda i: DrawPage("id", name=i), app,
                      [("get_draw_page", lambda c, i: c.get_draw_page(name=i))])
    E["draw_group"] = ("drawing", "draw:name", lambda i: DrawGroup(name=i), app,
                       [("get_draw_group", lambda c, i: c.get_draw_group(name=i))])
    for nm, cls, meth in (("draw_line", LineShape, "get_draw_line"), ("draw_rectangle", RectangleShape,
                          "get_draw_rectangle"), ("draw_ellipse", EllipseShape, "get_draw_ellipse"),
                          ("draw_connector", ConnectorShape, "get_draw_connector")):
        E[nm] = ("drawing", "draw:id", (lambda cls: lambda i: cls(draw_id=i))(cls), app,
                 [(meth, (lambda meth: lambda c, i: getattr(c, meth)(id=i))(meth))])
    E["variable_decl"] = ("text", "text:name", lambda i: VarDecl(i, "float"), app,
                          [("get_variable_decl", lambda c, i: c.get_variable_decl(i))])
    E["variable_set"] = ("text", "text:name", lambda i: VarSet(i, value=1), app,
                         [("get_variable_set", lambda c, i: c.get_variable_set(i)),
                          ("get_variable_sets", lambda c, i: c.get_variable_sets(i))])
    E["user_field_decl"] = ("text", "text:name", lambda i: UserFieldDecl(i, value=1), app,
                            [("get_user_field_decl", lambda c, i: c.get_user_field_decl(i))])
    E["user_defined"] = ("text", "text:name", lambda i: UserDefined(i, value=1), app,
                         [("get_user_defined", lambda c, i: c.get_user_defined(i))])
    E["named_range"] = ("spreadsheet", "table:name", lambda i: NamedRange(i, "A1", "t"), store_nr,
                        [("get_named_range", lambda c, i: c.get_named_range(i))])
    E["note"] = ("text", "text:id", lambda i: Note(note_id=i, citation="1", body="b"), app,
                 [("get_note", lambda c, i: c.get_note(note_id=i))])
    E["annotation"] = ("text", "office:name", annot, app,
                       [("get_annotation", lambda c, i: c.get_annotation(name=i))])
    E["annotation_end"] = ("text", "office:name", lambda i: AnnotationEnd(name=i), app,
                           [("get_annotation_end", lambda c, i: c.get_annotation_end(name=i))])
    E["link"] = ("text", "office:name", lambda i: Link("http://x", name=i), app,
                 [("get_link", lambda c, i: c.get_link(name=i)),
                  ("get_links", lambda c, i: c.get_links(name=i))])
    E["text_change"] = ("text", "text:change-id", with_id(TextChange), app,
                        [("get_text_change_deletion", lambda c, i: c.get_text_change_deletion(idx=i)),
                         ("get_text_change", lambda c, i: c.get_text_change(idx=i))])
    E["text_change_start"] = ("text", "text:change-id", with_id(TextChangeStart), app,
                              [("get_text_change_start", lambda c, i: c.get_text_change_start(idx=i)),
                               ("get_text_change", lambda c, i: c.get_text_change(idx=i))])
    E["text_change_end"] = ("text", "text:change-id", with_id(TextChangeEnd), app,
                            [("get_text_change_end", lambda c, i: c.get_text_change_end(idx=i))])
    E["changed_region"] = ("text", "text:id", region, store_region,
                           [("get_changed_region", lambda c, i: c.get_tracked_changes().get_changed_region(text_id=i))])
    del odfdo
    return E


def _c14_idents(maxlen):
    for n in range(1, maxlen + 1):
        for tup in _it.product(_C14_ALPHABET, repeat=n):
            yield "".join(tup)
    yield from _C14_EXTRA


def _gen_ident(con, sigcase, count, seed):
    maxlen = 4 if count > 200 else 3
    entries = list(_c14_entries()) + ["style_common", "style_automatic", "manifest"]
    for e in entries:
        heavy = e in ("style_common", "style_automatic", "manifest")
        for ident in _c14_idents(min(maxlen, 3) if heavy else maxlen):
            yield {"entry": e, "ident": ident}


def _ident_class(ident):
    if '"' in ident:
        return "dquote"
    if "'" in ident:
        return "apos"
    return "plain"


def _c14_partners(ident):
    near = ident + "a"
    plain = "b" if ident == "a" else "a"
    return near, plain


def _call_ident(con, fn, argvals, labels):
    res = NativeResult()
    entry, ident = argvals["entry"], argvals["ident"]
    label = "found_" + _ident_class(ident)
    near, plain = _c14_partners(ident)

    def bad(what):
        res.failures.append((f"ensures:{label}", f"{entry}: {what}"))

    if entry in ("style_common", "style_automatic"):
        from odfdo import Document, Style
        doc = Document("text")
        auto = entry == "style_automatic"
        stored = []
        for i in (near, ident, plain):
            st = Style("paragraph", name=i)
            try:
                doc.insert_style(st, automatic=auto)
            except (ValueError, TypeError):
                if i == ident:
                    res.in_domain = False
                    return res
                continue
            except Exception as ex:  # noqa
                res.checked = 1
                bad(f"insert_style of a style named {i!r} raised {ex!r}")
                return res
            if _attr(_raw(st), "style:name") != i:
                if i == ident:
                    res.in_domain = False
                    return res
                continue
            stored.append((i, _raw(st)))
        lookups = [("get_style", lambda c, i: doc.get_style("paragraph", i))]
        container = doc
    elif entry == "manifest":
        from odfdo import Document
        doc = Document("text")
        man = doc.get_part("META-INF/manifest.xml")
        stored = []
        for n, i in enumerate((near, ident, plain)):
            from lxml import etree
            mns = "{urn:oasis:names:tc:opendocument:xmlns:manifest:1.0}"
            node = etree.SubElement(_raw(man.root), mns + "file-entry")      # stored with raw lxml
            node.set(mns + "full-path", i)
            node.set(mns + "media-type", f"type/{n}")
            stored.append((i, node))
        # the media type is the observable: compare it with the attribute of the raw entry
        res.checked = len(stored)
        for i, node in stored:
            try:
                got = man.get_media_type(i)
            except Exception as ex:  # noqa
                if i == ident:
                    bad(f"get_media_type({i!r}) raised {type(ex).__name__}: {ex}")
                continue
            want = node.get("{urn:oasis:names:tc:opendocument:xmlns:manifest:1.0}media-type")
            if got != want and (i == ident or got is not None):
                bad(f"get_media_type({i!r}) == {got!r}, the entry stored under that path has {want!r}")
        res.outcome = f"{ident!r}"
        return res
    else:
        kind, attr, make, store, lookups = _c14_entries()[entry]
        container = _plain_container(kind)
        stored = []
        for i in (near, ident, plain):
            try:
                el = make(i)
            except (ValueError, TypeError):
                if i == ident:
                    res.in_domain = False      # the setter rejects the identifier: outside the domain
                    return res
                continue
            except Exception as ex:  # noqa
                res.checked = 1
                bad(f"constructing with identifier {i!r} raised {ex!r}")
                return res
            if _attr(_raw(el), attr) != i:
                if i == ident:                 # the setter normalised the identifier (e.g. Table strips blanks):
                    res.in_domain = False      # the stored identifier is enumerated on its own
                    return res
                continue
            try:
                store(container, el)
            except (ValueError, TypeError):
                if i == ident:
                    res.in_domain = False
                    return res
                continue
            stored.append((i, _raw(el)))
    res.outcome = f"{ident!r}"
    for lname, lookup in lookups:
        for i, node in stored:
            res.checked += 1
            try:
                got = lookup(container, i)
            except Exception as ex:  # noqa
                if i == ident:
                    bad(f"{lname}({i!r}) raised {type(ex).__name__}: {ex}")
                continue
            if isinstance(got, list):
                raws = [_raw(g) for g in got]
            else:
                raws = [] if got is None else [_raw(got)]
            if i != ident:
                # looking up a partner must never return the object stored under `ident`
                ours = [n for j, n in stored if j == ident]
                if ours and any(r is ours[0] for r in raws):
                    bad(f"{lname}({i!r}) returned the object stored under {ident!r}")
                continue
            if not raws:
                bad(f"{lname}({i!r}) found nothing; an object is stored under exactly that identifier")
            elif any(r is not node for r in raws):
                others = [j for j, n in stored for r in raws if r is n and n is not node]
                bad(f"{lname}({i!r}) returned the object stored under {others or 'an unknown node'}")
    return res


contract(
    "odfdo.utils.xpath_query:make_xpath_query[lookups by name or id]",
    sig=dict(entry=Str, ident=Str),
    ensures=[Clause(lab, {"C14"}, lambda a, r, p: True) for lab in ("found_plain", "found_apos", "found_dquote")],
    gen=_gen_ident, call_native=_call_ident,
    bounded=dict(scope="32 lookup entry points taking a name or id (get_table, get_style common/automatic, "
                       "get_bookmark(_start/_end), get_reference_mark(_single/_start/_end), get_references, get_frame, "
                       "get_image, get_draw_page, get_draw_group, get_draw_line/rectangle/ellipse/connector, "
                       "get_variable_decl, get_variable_set(s), get_user_field_decl, get_user_defined, get_named_range, "
                       "get_note, get_annotation, get_annotation_end, get_link(s), get_text_change(_deletion/_start/"
                       "_end), get_changed_region, Manifest.get_media_type; get_section takes no name) x every "
                       "identifier over the alphabet {a, space, \", ', &, <, ], [, e-acute, =} up to length 3 (quick) / "
                       "4 (thorough; styles and manifest 3) plus 8 hand-picked injection strings, that the "
                       "constructor / setter accepts unchanged; three objects stored (identifier+'a', identifier, "
                       "'a'), each looked up, raw lxml node identity compared",
                 reason="the string-theory proof covers make_xpath_query; the call sites are enumerated natively"),
)


# ===================================================================== findings on the unchanged tree
_T_REG = "odfdo.element:Element.from_tag[registry]"
_T_CTOR = "odfdo.element:Element.__init__[registered classes]"
_T_SEQ = "odfdo.document:Document.insert_style[sequences]"
_T_MERGE = "odfdo.document:Document.merge_styles_from"
_T_IDENT = "odfdo.utils.xpath_query:make_xpath_query[lookups by name or id]"

FINDINGS += [
    # ------------------------------------------------------------------ C12
    dict(property="C12", target=_T_REG, clause="ensures:own_tag",
         what_fails="odfdo.toc.TabStopStyle declares _tag 'style:tab-stop' and calls register_element_class, but "
                    "style:tab-stop was registered first for odfdo.style.Style ('first wins'): a TabStopStyle never "
                    "comes back as TabStopStyle (from_tag, children, xpath ... give Style)",
         smallest_input="Element.from_tag(TabStopStyle().serialize())",
         fix="1 line but a design decision: drop 'style:tab-stop' from STYLES_TO_REGISTER "
             "(utils/style_constants.py) or stop registering TabStopStyle (toc.py:516)",
         witness="from odfdo.element import Element\nfrom odfdo.toc import TabStopStyle\n"
                 "back = Element.from_tag(TabStopStyle(style_type='right').serialize())\n"
                 "REPRODUCED = type(back) is not TabStopStyle\nDETAIL = type(back).__name__\n"),
    dict(property="C12", target=_T_CTOR, clause="ensures:exposes[Header]",
         what_fails="Header(style=...) drops the argument: the assignment is commented out (header.py:93-94), "
                    "Header(style='x').style is None and no text:style-name is written",
         smallest_input="Header(style='x')",
         fix="2 lines: uncomment `if style: self.style = style` in header.py",
         witness="from odfdo import Header\nh = Header(1, 'T', style='x')\n"
                 "REPRODUCED = h.style is None and 'style-name' not in h.serialize()\nDETAIL = h.serialize()\n"),
    dict(property="C12", target=_T_CTOR, clause="ensures:exposes[TOC]",
         what_fails="TOC(name=...) drops the argument: only `name is None` sets a name (toc.py:236-237)",
         smallest_input="TOC(name='x')",
         fix="2 lines in toc.py: `else: self.name = name`",
         witness="from odfdo import TOC\nt = TOC(name='x')\nREPRODUCED = t.name is None\nDETAIL = repr(t.name)\n"),
    dict(property="C12", target=_T_CTOR, clause="ensures:exposes[Annotation]",
         what_fails="Annotation(name=...) drops the argument: `self.name = name` is inside `if not name:` "
                    "(note.py:199-201), so a given name is never stored and get_annotation(name=) cannot find it",
         smallest_input="Annotation(name='x')",
         fix="1 line: dedent `self.name = name` in note.py",
         witness="from odfdo import Annotation\na = Annotation('t', name='x')\n"
                 "REPRODUCED = a.name is None\nDETAIL = a.serialize()\n"),
    dict(property="C12", target=_T_CTOR, clause="ensures:exposes[BackgroundImage]",
         what_fails="BackgroundImage(repeat=, opacity=, filter=) all assign to self.position (style.py:1098-1103): the "
                    "three arguments are dropped and overwrite style:position",
         smallest_input="BackgroundImage(repeat='x')",
         fix="3 lines in style.py: self.repeat / self.opacity / self.filter",
         witness="from odfdo.style import BackgroundImage\nb = BackgroundImage(position='center', repeat='no-repeat')\n"
                 "REPRODUCED = b.repeat is None and b.position == 'no-repeat'\nDETAIL = b.serialize()\n"),
    dict(property="C12", target=_T_CTOR, clause="ensures:exposes[Table]",
         what_fails="Table(protected=True, protection_key=...) never stores the key: `self.set_protection_key = "
                    "protection_key` (table.py:378) creates a Python attribute instead of setting the property",
         smallest_input="Table('x', protected=True, protection_key='k')",
         fix="1 line: `self.protection_key = protection_key`",
         witness="from odfdo import Table\nt = Table('x', protected=True, protection_key='k')\n"
                 "REPRODUCED = t.protection_key is None and 'protection-key' not in t.serialize()\n"
                 "DETAIL = t.serialize()\n"),
    dict(property="C12", target=_T_CTOR, clause="ensures:exposes[VarTime]",
         what_fails="VarTime(time_adjust=...) drops the argument: it assigns `self.date_adjust` (variable.py:382), which "
                    "is no property of VarTime, so text:time-adjust is never written",
         smallest_input="VarTime(time_adjust=timedelta(hours=1))",
         fix="1 line: `self.time_adjust = Duration.encode(time_adjust)`",
         witness="from datetime import timedelta\nfrom odfdo.variable import VarTime\n"
                 "v = VarTime(time_adjust=timedelta(hours=1))\n"
                 "REPRODUCED = v.time_adjust is None and 'time-adjust' not in v.serialize()\nDETAIL = v.serialize()\n"),
    dict(property="C12", target=_T_CTOR, clause="ensures:exposes_str_type",
         what_fails="a str argument 'true' / 'false' reads back as bool through every generic attribute property "
                    "(_generic_attrib_getter decodes the two literals whatever the attribute): Bookmark(name='true')."
                    "name is True; classification deferred (DESIGN C12)",
         smallest_input="Bookmark(name='true')",
         fix="no 1-5 line fix: PropDef carries no type; the getter would need a per-attribute boolean flag",
         witness="from odfdo import Bookmark\nb = Bookmark(name='true')\n"
                 "REPRODUCED = b.name is True\nDETAIL = repr(b.name)\n"),
    dict(property="C12", target=_T_CTOR, clause="ensures:exposes_scalar_type",
         what_fails="int / datetime / timedelta arguments read back as the attribute string: Tab(position=3).position == "
                    "'3', Header(level=2).level == '2', Spacer(number=3).number == '3', MetaTemplate(date=dt).date, "
                    "VarDate(date=dt).date, VarTime(time=dt).time are ISO strings, MetaAutoReload(delay=td).delay == "
                    "'PT01H00M03S'; information kept, type lost; classification deferred",
         smallest_input="Tab(position=3)",
         fix="by design of PropDef (string attributes); typed getters would be an API change",
         witness="from odfdo.paragraph_base import Tab\nt = Tab(position=3)\n"
                 "REPRODUCED = t.position == '3'\nDETAIL = repr(t.position)\n"),
    dict(property="C12", target=_T_CTOR, clause="ensures:serial_xml",
         what_fails="IndexTitle(xml_id=...) accepts a value that is no NCName ('a b', '#FF0000'): the serialisation "
                    "cannot be parsed back (lxml: 'xml:id : attribute value a b is not an NCName'), so "
                    "Element.from_tag(e.serialize()) raises XMLSyntaxError",
         smallest_input="IndexTitle(xml_id='a b')",
         fix="3 lines: validate the xml_id in the setter (raise ValueError)",
         witness="from odfdo.element import Element\nfrom odfdo.toc import IndexTitle\n"
                 "e = IndexTitle(xml_id='a b')\ntry:\n    Element.from_tag(e.serialize())\n    REPRODUCED = False\n"
                 "except Exception as ex:\n    REPRODUCED = type(ex).__name__ == 'XMLSyntaxError'\n"
                 "    DETAIL = str(ex)\n"),
    # ------------------------------------------------------------------ C13
    dict(property="C13", target=_T_SEQ, clause="ensures:no_raise_common",
         what_fails="insert_style of a common style whose family+name already names an automatic style of styles.xml "
                    "raises ValueError('Element is not a child of this node.'): Styles.get_style finds the automatic "
                    "one, insert_style deletes it from office:styles. With the templates: text template + "
                    "Style('drawing-page', name='Mdp1'); lpod_styles.odt + Style('paragraph', name='MP1')",
         smallest_input="Document('text').insert_style(Style('drawing-page', name='Mdp1'))",
         fix="1-2 lines in document.py _insert_style_get_common_styles: look the existing style up in "
             "style_container only (style_container.get_style(family, name))",
         witness="from odfdo import Document, Style\ndoc = Document('text')\n"
                 "doc.styles.get_element('//office:automatic-styles').append(Style('paragraph', name='Dup'))\n"
                 "try:\n    doc.insert_style(Style('paragraph', name='Dup'))\n    REPRODUCED = False\n"
                 "except ValueError as ex:\n    REPRODUCED = 'not a child' in str(ex)\n    DETAIL = str(ex)\n"),
    dict(property="C13", target=_T_SEQ, clause="ensures:lookup[drawing-page]",
         what_fails="a common style of family drawing-page is inserted into office:styles but never found again: "
                    "CONTEXT_MAPPING['drawing-page'] only lists //office:automatic-styles, so get_style returns None "
                    "and inserting the same name twice duplicates it (clause unique)",
         smallest_input="d = Document('text'); d.delete_styles(); d.insert_style(Style('drawing-page', name='X')); "
                        "d.get_style('drawing-page', 'X')",
         fix="1 line in styles.py CONTEXT_MAPPING (add //office:styles), or route drawing-page to automatic styles",
         witness="from odfdo import Document, Style\ndoc = Document('text')\n"
                 "name = doc.insert_style(Style('drawing-page', name='X'))\n"
                 "doc.insert_style(Style('drawing-page', name='X'))\n"
                 "n = len([s for s in doc.styles.get_element('//office:styles').children "
                 "if s.get_attribute('style:name') == 'X'])\n"
                 "REPRODUCED = doc.get_style('drawing-page', name) is None and n == 2\nDETAIL = repr(n)\n"),
    dict(property="C13", target=_T_SEQ, clause="ensures:unique[drawing-page]",
         what_fails="same cause as the drawing-page lookup finding: the second insert_style of a common drawing-page "
                    "style of the same name is appended next to the first (example.odp, name 'dp1')",
         smallest_input="insert_style(Style('drawing-page', name='X')) twice",
         fix="see the lookup finding",
         witness="from odfdo import Document, Style\ndoc = Document('text')\n"
                 "doc.insert_style(Style('drawing-page', name='X'))\ndoc.insert_style(Style('drawing-page', name='X'))\n"
                 "n = len([s for s in doc.styles.get_element('//office:styles').children "
                 "if s.get_attribute('style:name') == 'X'])\nREPRODUCED = n == 2\nDETAIL = repr(n)\n"),
    dict(property="C13", target=_T_SEQ, clause="ensures:auto_name_common",
         what_fails="_set_automatic_name only looks at automatic styles: with a common paragraph style named "
                    "'odfdo_auto_1' the next unnamed automatic paragraph style is also called 'odfdo_auto_1'",
         smallest_input="insert_style(Style('paragraph', name='odfdo_auto_1')); insert_style(Style('paragraph'), "
                        "automatic=True)",
         fix="1 line in document.py _set_automatic_name: scan get_styles(family=family) (all styles of the family)",
         witness="from odfdo import Document, Style\ndoc = Document('text')\n"
                 "doc.insert_style(Style('paragraph', name='odfdo_auto_1'))\n"
                 "n = doc.insert_style(Style('paragraph'), automatic=True)\n"
                 "REPRODUCED = n == 'odfdo_auto_1'\nDETAIL = n\n"),
    dict(property="C13", target=_T_SEQ, clause="ensures:table_displayed_unstyled",
         what_fails="set_table_displayed on a table without a style: get_table_style returns the family default "
                    "(get_style('table', None)), which is cloned, named 'ta_0' and inserted as a style:default-style "
                    "element with a style:name inside content.xml office:automatic-styles; the table then refers to "
                    "a name no style:style carries",
         smallest_input="d = Document('text'); d.body.append(Table('T1', 2, 2)); d.set_table_displayed(0, False)",
         fix="2 lines in document.py get_table_style: return None when sheet.style is None",
         witness="from odfdo import Document, Table\ndoc = Document('text')\ndoc.body.append(Table('T1', 2, 2))\n"
                 "doc.set_table_displayed(0, False)\n"
                 "auto = doc.content.get_element('//office:automatic-styles')\n"
                 "tags = [c.tag for c in auto.children if c.get_attribute('style:name') == doc.body.get_table(0).style]\n"
                 "REPRODUCED = tags == ['style:default-style']\nDETAIL = repr(tags)\n"),
    dict(property="C13", target=_T_MERGE, clause="ensures:merge_source_unchanged",
         what_fails="merge_styles_from appends the other document's own nodes (dest.append(style) moves them): the "
                    "source document is left without any style (text template: 55 -> 0)",
         smallest_input="Document('text').merge_styles_from(src := Document('text'))",
         fix="1 line in document.py merge_styles_from: dest.append(style.clone)",
         witness="from odfdo import Document\ndst, src = Document('text'), Document('text')\n"
                 "n0 = len(src.get_styles())\ndst.merge_styles_from(src)\nn1 = len(src.get_styles())\n"
                 "REPRODUCED = n0 > 0 and n1 == 0\nDETAIL = repr((n0, n1))\n"),
    dict(property="C13", target=_T_MERGE, clause="ensures:merge_union_ours",
         what_fails="merging from a document that contains a draw:marker (drawing / presentation templates, "
                    "example.odp): the marker has family 'marker' and style.name None, so part.get_style('marker', None) "
                    "is a default-style lookup without family filter and the FIRST style:default-style of the "
                    "destination is deleted (spreadsheet template loses its table-cell default style)",
         smallest_input="Document('spreadsheet').merge_styles_from(Document('drawing'))",
         fix="2-3 lines in merge_styles_from: only look for a duplicate when stylename is not None or the tag is "
             "style:default-style",
         witness="from odfdo import Document\ndst, src = Document('spreadsheet'), Document('drawing')\n"
                 "before = dst.get_style('table-cell')\ndst.merge_styles_from(src)\nafter = dst.get_style('table-cell')\n"
                 "REPRODUCED = before is not None and after is None\nDETAIL = repr((before, after))\n"),
    # ------------------------------------------------------------------ C14
    dict(property="C14", target=_T_IDENT, clause="ensures:found_dquote",
         what_fails="every lookup that pastes the identifier between double quotes into an XPath (make_xpath_query, "
                    "get_reference_mark, get_references, get_named_range, Manifest.get_media_type) fails for accepted "
                    "identifiers containing '\"': XPathSyntaxError for '\"', 'a\"'; nothing found for '\"<\"'; the WRONG "
                    "object for '\"=\"' (returns the one named '\"=\"a') and 'zz\" or \"1\"=\"1'; all 31 XPath entry "
                    "points and get_media_type affected (named ranges excepted by their own name check)",
         smallest_input="Text().get_bookmark(name='\"') after storing Bookmark('\"')  /  body.get_table(name='a\"b')",
         fix="4-5 lines in utils/xpath_query.py: build the literal with a helper that picks the other quote or "
             "concat(); the hand-written queries in element.py / manifest.py need the same helper",
         witness="from odfdo import Bookmark, Paragraph\np = Paragraph('x')\n"
                 "p.append(Bookmark('\"=\"a'))\np.append(Bookmark('\"=\"'))\n"
                 "try:\n    p.get_bookmark(name='a\"b')\n    raised = False\n"
                 "except Exception as ex:\n    raised = type(ex).__name__ == 'XPathSyntaxError'\n"
                 "got = p.get_bookmark(name='\"=\"')\n"
                 "REPRODUCED = raised and got is not None and got.name == '\"=\"a'\n"
                 "DETAIL = repr((raised, got.name if got is not None else None))\n"),
]
