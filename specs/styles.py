"""Automatic style names never collide (C13): Document._set_automatic_name.

Ghost: `names_` = the style:name values of the styles of the family that Document.get_styles returns
(XPath over the parts, assumed).  The generated name is PREFIX + str(M + 1) where M bounds the index of
every existing name of the form PREFIX + digits, hence differs from all of them."""
import types

import z3

from pyvc import lists as L
from pyvc.engine import ListV, ObjV
from pyvc.lists import lift, zint
from pyvc.spec import Clause, Const, Inv, LView, Model, S, Str, StrList, contract
from pyvc.xmlmodel import BaseModel

PREFIX = "odfdo_auto_"
DIGITS = z3.Plus(z3.Range("0", "9"))


class _Named(types.SimpleNamespace):
    pass


def _style_obj(name_value):
    return ObjV(_Named, {"name": name_value}, model=BaseModel())


def _h_get_styles(en, con, vals, site):
    names = en.args["names_"]
    return ListV(L.LWrap(names.term, _style_obj))


contract("odfdo.document:Document.get_styles", call=_h_get_styles, trusted=True, sig={},
         note="the styles of a family (XPath over content.xml and styles.xml, lxml)")


def _doc(en, name, **kw):
    from odfdo.document import Document
    return ObjV(Document, {}, model=BaseModel())


def _new_style(en, name, **kw):
    return ObjV(_Named, {"name": None}, model=BaseModel())


def _suffix(s):
    return z3.SubString(s, len(PREFIX), z3.Length(s) - len(PREFIX))


def _is_auto(s):
    return z3.And(z3.PrefixOf(z3.StringVal(PREFIX), s), z3.InRe(_suffix(s), DIGITS))


from pyvc.spec import Axiom  # noqa: E402

_n = z3.Int("n_")
AX_ITOS = Axiom("str.from_int-digits", z3.ForAll([_n], z3.Implies(_n >= 0, z3.InRe(z3.IntToStr(_n), DIGITS)),
                                                 patterns=[z3.IntToStr(_n)]), kind="theory-fact",
                note="SMT-LIB definition of str.from_int: the decimal digits of a non-negative integer "
                     "(neither z3 nor cvc5 derives the membership by itself)")


def _inv(a, v):
    T = a.names_
    return z3.And(v.max_index >= 0,
                  S.forall(lambda j: z3.Implies(_is_auto(T[j]), z3.StrToInt(_suffix(T[j])) <= v.max_index), 0, v.k_,
                           pats=lambda j: [T[j]]))


def _post(a, r, p):
    T = a.names_
    new = p.style.ref.fields["name"] if hasattr(p.style, "ref") else p.style.name
    if isinstance(T, LView):
        new = lift(new)
        m1 = p.locals_.max_index + 1          # ghost: the index the code chose
        shape = new == z3.Concat(z3.StringVal(PREFIX), z3.IntToStr(m1))
        return z3.And(shape, _suffix(new) == z3.IntToStr(m1), _is_auto(new), z3.StrToInt(_suffix(new)) == m1,
                      S.forall(lambda j: T[j] != new, 0, T.n, pats=lambda j: [T[j]]))
    return new not in T and new.startswith(PREFIX) and new[len(PREFIX):].isdigit()


class _SV:
    def __init__(self, obj):
        self.ref = obj


class _StyleModel(BaseModel):
    def view(self, en, obj):
        return _SV(obj)


def _new_style2(en, name, **kw):
    return ObjV(_Named, {"name": None}, model=_StyleModel())


def _gen(con, sigcase, count, seed):
    """small scope: every list of at most 3 names over an alphabet with automatic names out of order, a two-digit
    index, leading zeros, a non-automatic name and malformed suffixes (sizes 0, 1, 2 first: 73 cases, then 512)"""
    import itertools
    alpha = ["odfdo_auto_1", "odfdo_auto_2", "odfdo_auto_3", "odfdo_auto_10", "odfdo_auto_007", "P1", "odfdo_auto_",
             "odfdo_auto_x1"]
    for n in range(0, 4):
        for names in itertools.product(alpha, repeat=n):
            yield {"names_": list(names)}
    for names in (["odfdo_auto_+4", "odfdo_auto_ 5"], ["odfdo_auto_9", "odfdo_auto_10"]):
        yield {"names_": names}


def _call(con, fn, argvals, labels):
    from odfdo import Document, Style
    from pyvc.native import NativeResult
    res = NativeResult()
    res.checked = 1
    doc = Document("text")
    for n in argvals["names_"]:
        doc.insert_style(Style("paragraph", name=n), automatic=True)
    existing = {s.name for s in doc.get_styles(family="paragraph")}
    st = Style("paragraph")
    doc._set_automatic_name(st, "paragraph")
    res.outcome = st.name
    if st.name in existing or not st.name.startswith(PREFIX) or not st.name[len(PREFIX):].isdigit():
        res.failures.append(("ensures:no-collision", f"generated {st.name!r} with existing {sorted(map(str, existing))!r}"))
    return res


contract(
    "odfdo.document:Document._set_automatic_name",
    sig=dict(self=Model("Document", _doc), style=Model("Style", _new_style2), family=Str, names_=StrList),
    ensures=[Clause("no-collision", {"C13"}, _post)],
    loops={0: Inv(_inv, modifies=["max_index", "existing_style", "index"])},
    uses=[AX_ITOS],
    gen=_gen, call_native=_call,
    note="generated automatic names differ from every existing name of the family",
)


# ------------------------------------------------------------------ Document._unique_style_name (names for table display styles)
def _gen_unique(con, sigcase, count, seed):
    import itertools
    alpha = ["ta_0", "ta_1", "ta_2", "ta_10", "ta_", "ta_x", "other"]
    for n in range(0, 4):
        for names in itertools.product(alpha, repeat=n):
            if len(set(names)) == len(names):
                yield {"names_": list(names)}


def _call_unique(con, fn, argvals, labels):
    from odfdo import Document, Style
    from pyvc.native import NativeResult
    res = NativeResult()
    res.checked = 1
    doc = Document("spreadsheet")
    for n in argvals["names_"]:
        doc.insert_style(Style("table", name=n), automatic=True)
    existing = [s.name for s in doc.get_styles()]
    got = doc._unique_style_name("ta")
    res.outcome = got
    if got in existing or not got.startswith("ta_") or not got[3:].isdigit():
        res.failures.append(("ensures:unique-name", f"_unique_style_name('ta') = {got!r} with the styles inserted in the order "
                                                    f"{argvals['names_']!r}"))
    return res


contract(
    "odfdo.document:Document._unique_style_name",
    sig=dict(names_=StrList),
    ensures=[Clause("unique-name", {"C13"}, lambda a, r, p: True)],
    gen=_gen_unique, call_native=_call_unique,
    bounded=dict(scope="every ordering of at most 3 distinct table-style names out of {ta_0, ta_1, ta_2, ta_10, ta_, ta_x, other} "
                       "inserted as automatic styles of a spreadsheet: the generated name has the form ta_N and is not in use",
                 reason="`while True` probe over a set of names read through XPath (get_styles assumed)"),
)
