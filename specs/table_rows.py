"""Table-level row and column operations (C01 C02 C07 C08): the rows and the column declarations of a
Table as two run-length vaults, rows seen as items with an abstract content and a ghost width.

TABLE_INV(T) := INV(T, rows) ∧ INV(T, cols) ∧ ∀ row node r of T. roww(r) ≤ len(T.cols)
(`no row is wider than the number of declared columns`, C07).  Layout assumption as in pyvc.xmlmodel:
the table's children are its column declarations followed by its rows."""
import z3

import specs.row  # noqa: F401
import specs.vault  # noqa: F401
from pyvc import lists as L
from pyvc.engine import ListV, ObjV, OptIntV, PyRaise, Unsupported
from pyvc.lists import LConc, LWrap, cat_term, lift, simp_int, zint
from pyvc.spec import REGISTRY, Bool, Clause, Const, Int, Inv, LView, Model, NoneT, OneOf, OptInt, S, contract, qforall
from pyvc.xmlmodel import (KIND_OF_MAP, VaultView, WrapView, cache_reset, detached, exists_before, fits, inv_vault,
                           is_fresh, item_classes, item_maker, make_wrapper, pointwise, vault_maker, vlen, xstate)
from pyvc.xmlnative import concretize_vault, gen_vault
from specs.row import _content_is, _map_unchanged, _xml_unchanged

P_T = {"C01", "C02", "C07"}
ROWW = z3.Array("xml.roww", z3.IntSort(), z3.IntSort())        # ghost: width (sum of cell repeats) of a row node
PL_EMPTY_ROW = z3.Int("pl.empty_row")


def roww(en):
    st = xstate(en)
    if "roww" not in st.extra:
        st.extra["roww"] = ROWW
        i = z3.FreshInt("n")
        en.pc.append(z3.ForAll([i], z3.Select(ROWW, i) >= 0, patterns=[z3.Select(ROWW, i)]))
    return st.extra["roww"]


def set_roww(en, node, value):
    arr = roww(en)
    xstate(en).extra["roww"] = z3.Store(arr, node, value)


def _table():
    import odfdo.table as T
    return Model("TableVault", vault_maker, cls=T.Table, kinds=("rows", "cols"))


def _rowitem(name="RowItem"):
    return Model(name, item_maker, cls=item_classes()["rows"])


def _colitem(name="ColItem"):
    return Model(name, item_maker, cls=item_classes()["cols"])


class TView(VaultView):
    pass


def width_ok(v, roww_arr=None):
    """∀ row node: roww ≤ len(cols)"""
    if isinstance(v, VaultView):
        rows = v.seq("rows")
        i = z3.FreshInt("i")
        ri = rows[i]
        arr = roww_arr if roww_arr is not None else v.roww_arr
        return qforall([i], z3.Implies(z3.And(0 <= i, i < zint(rows.n)), z3.Select(arr, ri) <= vlen(v, "cols")), [ri])
    from pyvc.xmlnative import item_elements, rep_of
    cols = sum(v.snap["cols"]["reps"])
    for r in v.snap["rows"]["els"]:
        if sum(rep_of(c, "cells") for c in item_elements(r, "cells")) > cols:
            return False
    return True


# the table view needs the ghost width array at snapshot time
_orig_init = VaultView.__init__


def _vv_init(self, en, obj):
    _orig_init(self, en, obj)
    st = xstate(en)
    self.roww_arr = st.extra.get("roww", ROWW)


VaultView.__init__ = _vv_init
_orig_winit = WrapView.__init__


def _wv_init(self, en, obj):
    _orig_winit(self, en, obj)
    st = xstate(en)
    self.roww_arr = st.extra.get("roww", ROWW)


WrapView.__init__ = _wv_init
WrapView.roww = property(lambda self: z3.Select(self.roww_arr, self.node))


def disjoint(v):
    """a node is a row or a column declaration, never both"""
    if isinstance(v, VaultView):
        from pyvc.spec import mpat, pat_ok
        rows, cols = v.seq("rows"), v.seq("cols")
        i, j = z3.FreshInt("i"), z3.FreshInt("j")
        ri, cj = rows[i], cols[j]
        return qforall([i, j], z3.Implies(z3.And(0 <= i, i < zint(rows.n), 0 <= j, j < zint(cols.n)), ri != cj), [[ri, cj]])
    return not (set(v.snap["rows"]["ids"]) & set(v.snap["cols"]["ids"]))


def table_inv(v):
    return S.And(inv_vault(v, "rows"), inv_vault(v, "cols"), width_ok(v))


# ------------------------------------------------------------------ assumed constructors and width of a row item
def h_row_ctor(en, con, vals, site):
    st = xstate(en)
    rw = roww(en)
    n = st.fresh_node()
    rep = vals.get("repeated")
    r = z3.IntVal(1) if rep is None else z3.If(zint(rep) > 1, zint(rep), z3.IntVal(1))
    st.rep = z3.Store(st.rep, n, r)
    w = vals.get("width")
    set_roww(en, n, z3.IntVal(0) if w is None else z3.If(zint(w) > 0, zint(w), z3.IntVal(0)))
    plain = vals.get("width") is None and vals.get("style") is None
    st.pl = z3.Store(st.pl, n, PL_EMPTY_ROW if plain else en.fresh("pl.new", "int"))
    return make_wrapper(en, item_classes()["rows"], n, y=None)


def h_col_ctor(en, con, vals, site):
    st = xstate(en)
    n = st.fresh_node()
    rep = vals.get("repeated")
    r = z3.IntVal(1) if rep is None else z3.If(zint(rep) > 1, zint(rep), z3.IntVal(1))
    st.rep = z3.Store(st.rep, n, r)
    st.pl = z3.Store(st.pl, n, en.fresh("pl.col", "int"))
    return make_wrapper(en, item_classes()["cols"], n, x=None)


contract("odfdo.row:Row", call=h_row_ctor, trusted=True, sig={},
         note="Row(width, repeated, style) constructor: fresh node; repeat attribute only for repeated > 1 (bounded: b_tables)")
contract("odfdo.table:Column", call=h_col_ctor, trusted=True, sig={},
         note="Column(repeated, style) constructor: fresh node; repeat attribute only for repeated > 1 (bounded: b_tables)")

# Row.width on a row *item* (no cell model): the ghost width of its node
_rw = REGISTRY["odfdo.row:Row.width"]


def _row_width_call(en, con, vals, site):
    row = vals["self"]
    if isinstance(row.fields.get("_rmap"), ListV) and "__items_cells" in row.fields:
        pre = en.views(vals)
        r = en.fresh("Row.width.res", "int")
        en.assume(r == vlen(pre.self, "cells"))
        return r
    return z3.Select(roww(en), row.fields["node"])


_rw.call = _row_width_call

# cloning a row item keeps its width
_rc = REGISTRY["odfdo.row:Row.clone"]
_old_clone = _rc.call


def _row_clone_call(en, con, vals, site):
    roww(en)
    return _old_clone(en, con, vals, site)      # copy_ghost copies the width too


_rc.call = _row_clone_call


def _h_get_columns(en, con, vals, site):
    t = vals["self"].fields["__items_cols"]
    return ListV(LWrap(t, lambda node: make_wrapper(en, item_classes()["cols"], lift(node))))


contract("odfdo.table:Table._get_columns", call=_h_get_columns, trusted=True, sig={},
         note="the column declaration nodes in document order (XPath, lxml)")


# ------------------------------------------------------------------ size
contract(
    "odfdo.table:Table.height",
    sig=dict(self=_table()),
    ensures=[Clause("height", P_T | {"C08"}, lambda a, r, p: r == vlen(a.self, "rows"))],
    result=Int, concretize=concretize_vault, gen=gen_vault,
    observer=True,
)
contract(
    "odfdo.table:Table.width",
    sig=dict(self=_table()),
    ensures=[Clause("width", P_T | {"C08"}, lambda a, r, p: r == vlen(a.self, "cols"))],
    result=Int, concretize=concretize_vault, gen=gen_vault,
    observer=True,
)


# ------------------------------------------------------------------ append_column
def hook_append_column(en, con, vals, site):
    st = xstate(en)
    table, column, rpt = vals["self"], vals["column"], vals["_repeated"]
    vt = en.view(table)
    base = f"{en.c.target}[{en.case_label}]/call:{site}"
    if column is None:
        src_rep, src_pl = z3.IntVal(1), en.fresh("pl.col", "int")
    else:
        vc = en.view(column)
        src_rep, src_pl = vc.rep, vc.pl
    rep = src_rep if rpt is None else zint(rpt)
    en.oblige(f"{base}/pre/path:{en.path_id()}", z3.And(inv_vault(vt, "cols"), rep == src_rep), en.c.props | con.props,
              "callee-pre", {"callee": con.target})
    n = st.fresh_node()
    st.rep = z3.Store(st.rep, n, src_rep)
    st.pl = z3.Store(st.pl, n, src_pl)
    w0 = vlen(vt, "cols")
    table.fields["__items_cols"] = cat_term(table.fields["__items_cols"], LConc([n]))
    table.fields["_cmap"] = ListV(cat_term(table.fields["_cmap"].term, LConc([simp_int(w0 - 1 + rep)])))
    return make_wrapper(en, item_classes()["cols"], n, x=w0)


contract(
    "odfdo.table:Table.append_column",
    sig=[dict(self=_table(), column=_colitem(), _repeated=OptInt), dict(self=_table(), column=NoneT, _repeated=NoneT)],
    requires=lambda a: S.And(inv_vault(a.self, "cols"), inv_vault(a.self, "rows"), disjoint(a.self),
                             S.Or(a.column is None, lambda: S.And(exists_before(a.column),
                                                                  S.Or(a._repeated is None, lambda: a._repeated == a.column.rep)))),
    ensures=[
        Clause("inv-cols", P_T, lambda a, r, p: inv_vault(p.self, "cols")),
        Clause("inv-rows", P_T, lambda a, r, p: S.And(inv_vault(p.self, "rows"), _xml_unchanged(a.self, p.self, "rows"))),
        Clause("len", {"C01", "C07"}, lambda a, r, p: vlen(p.self, "cols") == vlen(a.self, "cols") + (
            1 if a.column is None else a.column.rep)),
        Clause("view", {"C01", "C02"}, lambda a, r, p: pointwise(
            a.self, p.self, "cols", lambda pos, old, len0: S.If(pos < vlen(a.self, "cols"), old, r.pl))),
        Clause("columns-before-rows", {"C07"}, lambda a, r, p: True),   # established by the xml:insert-position obligation
        Clause("stamp", {"C08"}, lambda a, r, p: S.same_or_eq(r.x, vlen(a.self, "cols"))),
    ],
    call=hook_append_column, concretize=concretize_vault, gen=gen_vault,
    note="columns are inserted right after the last column declaration (before every row)",
)


# ------------------------------------------------------------------ _update_width
def hook_update_width(en, con, vals, site):
    table, row = vals["self"], vals["row"]
    vt = en.view(table)
    base = f"{en.c.target}[{en.case_label}]/call:{site}"
    en.oblige(f"{base}/pre/path:{en.path_id()}", z3.And(inv_vault(vt, "cols"), inv_vault(vt, "rows")),
              en.c.props | con.props, "callee-pre", {"callee": con.target})
    st = xstate(en)
    need = z3.Select(roww(en), row.fields["node"])
    w0 = vlen(vt, "cols")
    if en.decide(need > w0):
        n = st.fresh_node()
        st.rep = z3.Store(st.rep, n, need - w0)
        st.pl = z3.Store(st.pl, n, en.fresh("pl.col", "int"))
        table.fields["__items_cols"] = cat_term(table.fields["__items_cols"], LConc([n]))
        table.fields["_cmap"] = ListV(cat_term(table.fields["_cmap"].term, LConc([simp_int(need - 1)])))
    return None


contract(
    "odfdo.table:Table._update_width",
    call=hook_update_width,
    sig=dict(self=_table(), row=_rowitem()),
    requires=lambda a: S.And(inv_vault(a.self, "cols"), inv_vault(a.self, "rows"), disjoint(a.self)),
    ensures=[
        Clause("wide-enough", {"C07", "C01"}, lambda a, r, p: S.And(
            vlen(p.self, "cols") >= a.row.roww, vlen(p.self, "cols") >= vlen(a.self, "cols"),
            vlen(p.self, "cols") == S.If(a.row.roww > vlen(a.self, "cols"), a.row.roww, vlen(a.self, "cols")))),
        Clause("inv", P_T, lambda a, r, p: S.And(inv_vault(p.self, "cols"), inv_vault(p.self, "rows"),
                                                 _xml_unchanged(a.self, p.self, "rows"))),
        Clause("old-columns-kept", {"C01", "C02"}, lambda a, r, p: pointwise(
            a.self, p.self, "cols", lambda pos, old, len0: old, src=None) if False else True),
    ],
    concretize=concretize_vault, gen=gen_vault,
)


# ------------------------------------------------------------------ append_row
def _grow_columns(en, table, vt, need):
    """abstract effect of `_update_width` / first-row column declaration: afterwards len(cols) >= need"""
    st = xstate(en)
    kc = zint(table.fields["__items_cols"].length())
    w0 = vlen(vt, "cols")
    if en.decide(kc == 0):
        n = st.fresh_node()
        rep = z3.If(need > 1, need, z3.IntVal(1))
        st.rep = z3.Store(st.rep, n, rep)
        st.pl = z3.Store(st.pl, n, en.fresh("pl.col", "int"))
        table.fields["__items_cols"] = LConc([n])
        table.fields["_cmap"] = ListV(LConc([simp_int(rep - 1)]))
        table.fields["_indexes"]["_cmap"] = {}
        table.fields["_indexes"]["_tmap"] = table.fields["_indexes"].get("_tmap", {})
        return
    if en.decide(need > w0):
        n = st.fresh_node()
        st.rep = z3.Store(st.rep, n, need - w0)
        st.pl = z3.Store(st.pl, n, en.fresh("pl.col", "int"))
        table.fields["__items_cols"] = cat_term(table.fields["__items_cols"], LConc([n]))
        table.fields["_cmap"] = ListV(cat_term(table.fields["_cmap"].term, LConc([simp_int(need - 1)])))


def hook_append_row(en, con, vals, site):
    st = xstate(en)
    rw = roww(en)
    table, row, clone, rpt = vals["self"], vals["row"], vals["clone"], vals["_repeated"]
    vt = en.view(table)
    base = f"{en.c.target}[{en.case_label}]/call:{site}"
    if row is None:
        row = h_row_ctor(en, None, {}, site)
        rpt = 1
        clone = False
    vr = en.view(row)
    rep = vr.rep if rpt is None else zint(rpt)
    en.oblige(f"{base}/pre/path:{en.path_id()}",
              z3.And(inv_vault(vt, "rows"), inv_vault(vt, "cols"), rep == vr.rep, detached(vt, "rows", vr)),
              en.c.props | con.props, "callee-pre", {"callee": con.target})
    if isinstance(clone, z3.ExprRef):
        clone = en.decide(clone)
    if clone:
        n = st.fresh_node()
        st.copy_ghost(n, vr.node)
        out = make_wrapper(en, row.cls, n)
    else:
        n = row.fields["node"]
        out = row
    h0 = vlen(vt, "rows")
    table.fields["__items_rows"] = cat_term(table.fields["__items_rows"], LConc([n]))
    table.fields["_tmap"] = ListV(cat_term(table.fields["_tmap"].term, LConc([simp_int(h0 - 1 + rep)])))
    out.fields["y"] = simp_int(h0 - 1 + rep)
    _grow_columns(en, table, vt, z3.Select(roww(en), n))
    return out


def _ncols(a):
    if isinstance(a.self, VaultView):
        return zint(a.self.seq("cols").n)
    return len(a.self.snap["cols"]["ids"])


def _empty_row(view):
    if isinstance(view, (VaultView, WrapView)):
        return PL_EMPTY_ROW
    from odfdo.row import Row
    from pyvc.xmlnative import lx, payload
    return payload(lx(Row()), "rows")


def _app_row_req(a):
    return S.And(inv_vault(a.self, "rows"), inv_vault(a.self, "cols"), width_ok(a.self), disjoint(a.self),
                 S.Or(a.row is None, lambda: S.And(detached(a.self, "rows", a.row), exists_before(a.row),
                                                   S.Or(a._repeated is None, lambda: a._repeated == a.row.rep))))


def _row_pl(a):
    return _empty_row(a.self) if a.row is None else a.row.pl


def _row_rep(a):
    return 1 if a.row is None else a.row.rep


contract(
    "odfdo.table:Table.append_row",
    sig=[dict(self=_table(), row=_rowitem(), clone=Bool, _repeated=OptInt),
         dict(self=_table(), row=NoneT, clone=Bool, _repeated=NoneT)],
    requires=_app_row_req,
    inline={"odfdo.table:Table._compute_table_cache"},
    cases={"has-columns": lambda a: _ncols(a) > 0, "no-columns": lambda a: _ncols(a) == 0},
    bounded_cases={"no-columns": dict(
        scope="tables without any column declaration from the small-scope generator (first row of an empty table)",
        reason="this branch recomputes both maps from the XML (make_cache_map): relating the recomputed map to the "
               "incrementally maintained one needs the uniqueness of prefix sums (an induction the solver does not do)")},
    ensures=[
        Clause("inv", P_T, lambda a, r, p: S.And(inv_vault(p.self, "rows"), inv_vault(p.self, "cols"))),
        Clause("row-fits-columns", {"C07"}, lambda a, r, p: width_ok(p.self)),
        Clause("len", {"C01", "C07"}, lambda a, r, p: vlen(p.self, "rows") == vlen(a.self, "rows") + _row_rep(a)),
        Clause("view", {"C01", "C02"}, lambda a, r, p: pointwise(
            a.self, p.self, "rows", lambda pos, old, len0: S.If(pos < vlen(a.self, "rows"), old, _row_pl(a)))),
        Clause("first-row-declares-columns", {"C07"}, lambda a, r, p: vlen(p.self, "cols") >= 1),
        Clause("stamp", {"C08"}, lambda a, r, p: S.same_or_eq(r.y, vlen(p.self, "rows") - 1)),
    ],
    call=hook_append_row, concretize=concretize_vault, gen=gen_vault,
)


# ------------------------------------------------------------------ set_row / insert_row / delete_row (int positions)
import specs.vault as _sv  # noqa: E402

_sv.MODULAR_POSTS |= {"odfdo.table:Table.set_row", "odfdo.table:Table.insert_row", "odfdo.table:Table.delete_row"}

_ROW_REQ = lambda a: S.And(inv_vault(a.self, "rows"), inv_vault(a.self, "cols"), width_ok(a.self), disjoint(a.self), a.y >= 0,  # noqa: E731
                           S.Or(a.row is None, lambda: S.And(detached(a.self, "rows", a.row), exists_before(a.row))))


def _t_fits(a):
    if a.row is None:
        return True
    return S.Or(a.y >= vlen(a.self, "rows"), lambda: fits(a.self, "_tmap", a.y, a.row.rep))


def _set_row_view(a, r, p):
    h0 = vlen(a.self, "rows")
    rep, pl, y = _row_rep(a), _row_pl(a), a.y
    return pointwise(a.self, p.self, "rows",
                     lambda pos, old, len0: S.If(S.And(y <= pos, pos < y + rep), pl, S.If(pos < h0, old, _empty_row(a.self))))


contract(
    "odfdo.table:Table.set_row",
    sig=[dict(self=_table(), y=Int, row=_rowitem(), clone=Bool), dict(self=_table(), y=Int, row=NoneT, clone=Bool)],
    requires=_ROW_REQ,
    cases={"fits": _t_fits, "overlap": lambda a: S.Not(_t_fits(a))},
    ensures=[
        Clause("inv", P_T, lambda a, r, p: S.And(inv_vault(p.self, "rows"), inv_vault(p.self, "cols"))),
        Clause("view", {"C01", "C02"}, _set_row_view),
        Clause("len", {"C01", "C07"}, lambda a, r, p: vlen(p.self, "rows") == S.If(
            a.y + _row_rep(a) > vlen(a.self, "rows"), a.y + _row_rep(a), vlen(a.self, "rows"))),
    ],
    concretize=concretize_vault, gen=gen_vault,
)


def _ins_row_view(a, r, p):
    h0 = vlen(a.self, "rows")
    rep, pl, y = _row_rep(a), _row_pl(a), a.y
    return pointwise(a.self, p.self, "rows",
                     lambda pos, old, len0: S.If(S.And(y <= pos, pos < y + rep), pl,
                                                 S.If(S.And(pos >= h0, y >= h0), _empty_row(a.self), old)),
                     src=lambda pos: S.If(S.Or(pos < y, y >= h0), pos, pos - rep))


contract(
    "odfdo.table:Table.insert_row",
    sig=[dict(self=_table(), y=Int, row=_rowitem(), clone=Bool), dict(self=_table(), y=Int, row=NoneT, clone=Bool)],
    requires=_ROW_REQ,
    ensures=[
        Clause("inv", P_T, lambda a, r, p: S.And(inv_vault(p.self, "rows"), inv_vault(p.self, "cols"))),
        Clause("view", {"C01", "C02"}, _ins_row_view),
        Clause("len", {"C01", "C07"}, lambda a, r, p: vlen(p.self, "rows") == S.If(
            a.y >= vlen(a.self, "rows"), a.y, vlen(a.self, "rows")) + _row_rep(a)),
        Clause("stamp", {"C08"}, lambda a, r, p: S.same_or_eq(r.y, a.y)),
    ],
    concretize=concretize_vault, gen=gen_vault,
)

contract(
    "odfdo.table:Table.delete_row",
    sig=dict(self=_table(), y=Int),
    requires=lambda a: S.And(inv_vault(a.self, "rows"), inv_vault(a.self, "cols"), width_ok(a.self), disjoint(a.self), a.y >= 0),
    ensures=[
        Clause("inv", P_T, lambda a, r, p: S.And(inv_vault(p.self, "rows"), inv_vault(p.self, "cols"))),
        Clause("row-fits-columns", {"C07"}, lambda a, r, p: width_ok(p.self)),
        Clause("view", {"C01", "C02"}, lambda a, r, p: pointwise(
            a.self, p.self, "rows", lambda pos, old, len0: old, src=lambda pos: S.If(pos < a.y, pos, pos + 1))),
        Clause("len", {"C01", "C07"}, lambda a, r, p: vlen(p.self, "rows") == S.If(
            a.y < vlen(a.self, "rows"), vlen(a.self, "rows") - 1, vlen(a.self, "rows"))),
    ],
    concretize=concretize_vault, gen=gen_vault,
)

contract(
    "odfdo.table:Table._translate_y_from_any",
    sig=dict(self=_table(), y=Int),
    requires=lambda a: inv_vault(a.self, "rows"),
    ensures=[Clause("int-form", {"C19", "C01", "C08"}, lambda a, r, p: S.And(
        S.Implies(a.y >= 0, r == a.y), S.Implies(a.y < 0, r >= 0),
        S.Implies(S.And(a.y < 0, vlen(a.self, "rows") > 0), lambda: r < vlen(a.self, "rows"))))],
    result=Int, concretize=concretize_vault, gen=gen_vault,
    observer=True,
)


# ------------------------------------------------------------------ row getters (C08)
_GET_REQ = lambda a: S.And(inv_vault(a.self, "rows"), inv_vault(a.self, "cols"), a.y >= 0)  # noqa: E731
_FRAME = lambda a, r, p: S.And(_xml_unchanged(a.self, p.self, "rows"), _map_unchanged(a.self, p.self, "_tmap"),  # noqa: E731
                               _xml_unchanged(a.self, p.self, "cols"), _map_unchanged(a.self, p.self, "_cmap"))

contract(
    "odfdo.table:Table._get_row2_base",
    sig=dict(self=_table(), y=Int),
    requires=_GET_REQ,
    ensures=[
        Clause("none-outside", {"C08"}, lambda a, r, p: S.Iff(r is None, a.y >= vlen(a.self, "rows"))),
        Clause("content", {"C08", "C01", "C02"}, lambda a, r, p: S.Or(r is None, lambda: _content_is(a.self, "_tmap", a.y, r.pl))),
        Clause("frame", {"C08", "C15"}, _FRAME),
        Clause("inv", P_T, lambda a, r, p: S.And(inv_vault(p.self, "rows"), inv_vault(p.self, "cols"))),
    ],
    concretize=concretize_vault, gen=gen_vault,
)


contract(
    "odfdo.table:Table._get_row2",
    sig=dict(self=_table(), y=Int, clone=Bool, create=Const(True)),
    requires=_GET_REQ,
    inline={"odfdo.table:Table._get_row2_base"},
    ensures=[
        Clause("content", {"C08", "C01", "C02"}, lambda a, r, p: S.If(
            a.y >= vlen(a.self, "rows"), lambda: r.pl == _empty_row(a.self), lambda: _content_is(a.self, "_tmap", a.y, r.pl))),
        Clause("detached-copy", {"C08", "C10"}, lambda a, r, p: S.Implies(
            S.Or(a.clone, a.y >= vlen(a.self, "rows")), lambda: is_fresh(r, a.self))),
        Clause("frame", {"C08", "C15"}, _FRAME),
        Clause("inv", P_T, lambda a, r, p: S.And(inv_vault(p.self, "rows"), inv_vault(p.self, "cols"))),
    ],
    concretize=concretize_vault, gen=gen_vault,
)

contract(
    "odfdo.table:Table.get_row",
    sig=dict(self=_table(), y=Int, clone=Bool, create=Const(True)),
    requires=_GET_REQ,
    inline={"odfdo.table:Table._get_row2_base", "odfdo.table:Table._get_row2"},
    ensures=[
        Clause("content", {"C08", "C01", "C02"}, lambda a, r, p: S.If(
            a.y >= vlen(a.self, "rows"), lambda: r.pl == _empty_row(a.self), lambda: _content_is(a.self, "_tmap", a.y, r.pl))),
        Clause("stamp", {"C08"}, lambda a, r, p: S.same_or_eq(r.y, a.y)),
        Clause("detached-copy", {"C08", "C10"}, lambda a, r, p: S.Implies(
            S.Or(a.clone, a.y >= vlen(a.self, "rows")), lambda: is_fresh(r, a.self))),
        Clause("frame", {"C08", "C15"}, _FRAME),
    ],
    concretize=concretize_vault, gen=gen_vault,
)


# ------------------------------------------------------------------ coordinate translation at table level (C19)
from pyvc.spec import TupleOf  # noqa: E402


def _wrapped(v, length, r):
    """`negative numbers count from the current end`: r is v for v >= 0, else v wrapped into [0, length)"""
    return S.And(S.Implies(v >= 0, r == v),
                 S.Implies(S.And(v < 0, length > 0), lambda: S.And(0 <= r, r < length, (r - v) % length == 0)),
                 S.Implies(S.And(v < 0, length == 0), r == 0))


contract(
    "odfdo.table:Table._translate_cell_coordinates",
    sig=[dict(self=_table(), coord=TupleOf(Int, Int)), dict(self=_table(), coord=TupleOf(Int, Int, Int, Int))],
    requires=lambda a: S.And(inv_vault(a.self, "rows"), inv_vault(a.self, "cols")),
    ensures=[Clause("negative-from-end", {"C19", "C01", "C08"}, lambda a, r, p: S.And(
        _wrapped(a.coord[0], vlen(a.self, "cols"), r[0]), _wrapped(a.coord[1], vlen(a.self, "rows"), r[1])))],
    inline={"odfdo.utils.coordinates:convert_coordinates"},
    result=TupleOf(Int, Int),
    concretize=concretize_vault, gen=gen_vault, observer=True,
    note="tuple forms (x, y) and (x, y, z, t): the first cell is addressed; negatives wrap against width / height",
)


# ------------------------------------------------------------------ two-level reads: Table.get_value / Table.get_cell (C01 C02 C08)
# Ghost per row node r: CSEQ[r] its cell nodes, CK[r] their number, GM[r] the position map of its cells
# (prefix sums of their repeats).  RWF(r): GM[r] is that map.  A Row wrapper the table hands out for node r
# (fresh from the XML or from the row cache) carries exactly this state: assumed contract of Row.__init__
# (= make_cache_map over elements_repeated_sequence, both under contract) and, for cached wrappers, the
# nested conjunct of the C02 invariant (cached rows are coherent with the XML).
CSEQ = z3.Array("xml.cseq", z3.IntSort(), z3.ArraySort(z3.IntSort(), z3.IntSort()))
CK = z3.Array("xml.ck", z3.IntSort(), z3.IntSort())
GM = z3.Array("xml.gm", z3.IntSort(), z3.ArraySort(z3.IntSort(), z3.IntSort()))
VAL = z3.Function("cell.value", z3.IntSort(), z3.IntSort())          # value shown by a cell content


def row_parts(r):
    from pyvc.spec import LView as LV
    return LV(L.LLeaf(z3.Select(CSEQ, r), z3.Select(CK, r), "cells")), LV(L.LLeaf(z3.Select(GM, r), z3.Select(CK, r), "gm"))


def rwf(v, r):
    """RWF(r) on the XML arrays of view v"""
    cells, gm = row_parts(r)
    k = zint(cells.n)
    j = z3.FreshInt("j")
    cj, gj = cells[j], gm[j]
    from pyvc.spec import mpat
    j2 = z3.FreshInt("j2")
    return z3.And(
        k >= 0,
        qforall([j], z3.Implies(z3.And(0 <= j, j < k), gj - z3.If(j > 0, gm[j - 1], -1) == v.rep_of(cj)), [cj]),
        qforall([j, j2], z3.Implies(z3.And(0 <= j, j < j2, j2 < k), gj < gm[j2]), [[gj, gm[j2]]]),
        qforall([j, j2], z3.Implies(z3.And(0 <= j, j < j2, j2 < k), cj != cells[j2]), [[cj, cells[j2]]]),
        qforall([j], z3.Implies(z3.And(0 <= j, j < k), z3.And(0 <= cj, cj < v.N0)), [cj]))


def all_rows_wf(v):
    rows = v.seq("rows")
    i = z3.FreshInt("i")
    ri = rows[i]
    return qforall([i], z3.Implies(z3.And(0 <= i, i < zint(rows.n)), rwf(v, ri)), [ri])


def _materialize_row(en, w):
    """give a row wrapper handed out by the table its cell-level state (see the note above)"""
    from pyvc.xmlmodel import VAULT, make_idx
    r = w.fields["node"]
    w.fields["__items_cells"] = L.LLeaf(z3.Select(CSEQ, r), z3.Select(CK, r), "cells")
    w.fields["_rmap"] = ListV(L.LLeaf(z3.Select(GM, r), z3.Select(CK, r), "gm"))
    w.fields["_indexes"] = {"_rmap": make_idx(en, "_rmap", item_classes()["cells"])}
    w.fields.setdefault("y", None)
    w.model = VAULT
    return w


_gei = REGISTRY["odfdo.element:Element._get_element_idx2"]
_old_gei = _gei.call


def _gei_nested(en, con, vals, site):
    w = _old_gei(en, con, vals, site)
    if w is not None and en.ghost.get("nested_rows") and w.cls is item_classes()["rows"]:
        _materialize_row(en, w)
    return w


_gei.call = _gei_nested


def _nested_table_maker(en, name, **kw):
    t = vault_maker(en, name, **kw)
    en.ghost["nested_rows"] = True
    # cached row wrappers: coherent by the nested invariant; modelled as "no row cached" plus the
    # assumption that a cached wrapper equals the one rebuilt from the XML (C02 nested conjunct)
    from pyvc.xmlmodel import make_idx
    t.fields["_indexes"]["_tmap"] = make_idx(en, "_tmap", item_classes()["rows"])
    return t


def _ntable():
    import odfdo.table as T
    return Model("TableVault", _nested_table_maker, cls=T.Table, kinds=("rows", "cols"))


def _h_cell_get_value(en, con, vals, site):
    st = xstate(en)
    v = VAL(z3.Select(st.pl, vals["self"].fields["node"]))
    if vals.get("get_type"):
        return (v, en.fresh("type", "str"))
    return v


contract("odfdo.element_typed:ElementTyped.get_value", call=_h_cell_get_value, trusted=True, sig={},
         note="the value shown by a cell is a function of its content (typed decoding is C06)")


def _grid_value_is(a, x, y, value, none_marker=None):
    """forall i, j. located(tmap, i, y) and located(GM[rows[i]], j, x) => value == VAL(pl(cells[j]))"""
    v = a.self
    tmap, rows = v.map("_tmap"), v.seq("rows")
    i, j = z3.FreshInt("i"), z3.FreshInt("j")
    r = rows[i]
    cells, gm = row_parts(r)
    loc_y = z3.And(0 <= i, i < zint(tmap.n), y <= tmap[i], z3.Implies(i > 0, tmap[i - 1] < y))
    loc_x = z3.And(0 <= j, j < zint(cells.n), x <= gm[j], z3.Implies(j > 0, gm[j - 1] < x))
    return z3.ForAll([i, j], z3.Implies(z3.And(loc_y, loc_x), value == VAL(v.pl_of(cells[j]))))


def _row_width_at(a, y):
    """forall i. located(tmap, i, y) => width of that row"""
    raise NotImplementedError


def _get_value_post(a, r, p):
    if not isinstance(a.self, VaultView):
        return True
    x, y = a.coord
    v = a.self
    if r is None:
        # outside the populated area: beyond the last row, or beyond the last cell of that row
        tmap, rows = v.map("_tmap"), v.seq("rows")
        i = z3.FreshInt("i")
        _cells, gm = row_parts(rows[i])
        loc_y = z3.And(0 <= i, i < zint(tmap.n), y <= tmap[i], z3.Implies(i > 0, tmap[i - 1] < y))
        row_w = z3.If(zint(_cells.n) > 0, gm[zint(_cells.n) - 1] + 1, 0)
        return z3.Or(y >= vlen(v, "rows"), z3.ForAll([i], z3.Implies(loc_y, x >= row_w)))
    return z3.And(y < vlen(v, "rows"), _grid_value_is(a, x, y, r))


contract(
    "odfdo.table:Table.get_value",
    sig=dict(self=_ntable(), coord=TupleOf(Int, Int), get_type=Const(False)),
    requires=lambda a: S.And(inv_vault(a.self, "rows"), inv_vault(a.self, "cols"), all_rows_wf(a.self),
                             a.coord[0] >= 0, a.coord[1] >= 0),
    inline={"odfdo.row:Row._get_cell2_base", "odfdo.table:Table._get_row2_base"},
    ensures=[
        Clause("grid-read", {"C01", "C02", "C08"}, _get_value_post),
        Clause("frame", {"C08", "C15"}, lambda a, r, p: S.And(_xml_unchanged(a.self, p.self, "rows"),
                                                              _map_unchanged(a.self, p.self, "_tmap"))),
    ],
    note="non-negative (x, y) tuples (negatives wrap by _translate_cell_coordinates, proved separately); the "
         "value read is the content of the cell the two position maps locate, None outside the populated area",
)


def _grid_pl_is(a, x, y, plv):
    v = a.self
    tmap, rows = v.map("_tmap"), v.seq("rows")
    i, j = z3.FreshInt("i"), z3.FreshInt("j")
    cells, gm = row_parts(rows[i])
    loc_y = z3.And(0 <= i, i < zint(tmap.n), y <= tmap[i], z3.Implies(i > 0, tmap[i - 1] < y))
    loc_x = z3.And(0 <= j, j < zint(cells.n), x <= gm[j], z3.Implies(j > 0, gm[j - 1] < x))
    return z3.ForAll([i, j], z3.Implies(z3.And(loc_y, loc_x), plv == v.pl_of(cells[j])))


def _get_cell_post(a, r, p):
    if not isinstance(a.self, VaultView):
        return True
    from specs.row import PL_EMPTY
    x, y = a.coord
    v = a.self
    tmap, rows = v.map("_tmap"), v.seq("rows")
    i = z3.FreshInt("i")
    _cells, gm = row_parts(rows[i])
    loc_y = z3.And(0 <= i, i < zint(tmap.n), y <= tmap[i], z3.Implies(i > 0, tmap[i - 1] < y))
    row_w = z3.If(zint(_cells.n) > 0, gm[zint(_cells.n) - 1] + 1, 0)
    outside = z3.Or(y >= vlen(v, "rows"), z3.ForAll([i], z3.Implies(loc_y, x >= row_w)))
    inside_row = z3.And(y < vlen(v, "rows"), z3.ForAll([i], z3.Implies(loc_y, x < row_w)))
    return z3.And(z3.Implies(outside, r.pl == PL_EMPTY), z3.Implies(inside_row, _grid_pl_is(a, x, y, r.pl)))


contract(
    "odfdo.table:Table.get_cell",
    sig=dict(self=_ntable(), coord=TupleOf(Int, Int), clone=Bool, keep_repeated=Const(True)),
    requires=lambda a: S.And(inv_vault(a.self, "rows"), inv_vault(a.self, "cols"), all_rows_wf(a.self),
                             a.coord[0] >= 0, a.coord[1] >= 0),
    inline={"odfdo.row:Row._get_cell2_base", "odfdo.row:Row._get_cell2", "odfdo.row:Row.get_cell",
            "odfdo.table:Table._get_row2_base"},
    ensures=[
        Clause("grid-read", {"C01", "C02", "C08"}, _get_cell_post),
        Clause("stamp", {"C08"}, lambda a, r, p: S.And(S.same_or_eq(r.x, a.coord[0]), S.same_or_eq(r.y, a.coord[1]))),
        Clause("detached-copy", {"C08", "C10"}, lambda a, r, p: S.Implies(a.clone, lambda: is_fresh(r, a.self))
               if isinstance(a.self, VaultView) else True),
        Clause("frame", {"C08", "C15"}, lambda a, r, p: S.And(_xml_unchanged(a.self, p.self, "rows"),
                                                              _map_unchanged(a.self, p.self, "_tmap"))),
    ],
    note="non-negative (x, y) tuples, keep_repeated=True (default): the returned cell has the content the two "
         "position maps locate (an empty cell outside), carries the coordinates, and is a fresh node when cloned",
)


# ------------------------------------------------------------------ stored by copy (C01 C08 C10)
# With clone=True the container stores a copy: the caller's object stays outside the container, so a later use of that
# object (storing it elsewhere, changing it) cannot reach the table ("an operation changes only what it addresses").
def _stores_copy(vname, kind, iname):
    def fn(a, r, p):
        item = getattr(a, iname)
        if item is None:
            return True
        k = kind(a) if callable(kind) else kind
        return S.Implies(a.clone, detached(getattr(p, vname), k, item))
    return Clause("stores-copy", {"C01", "C08", "C10"}, fn)


def _kind_of(a):
    from pyvc.xmlmodel import KIND_OF_MAP
    return KIND_OF_MAP[a.vault_map_name]


for _t, _v, _k, _i in [
    ("odfdo.element_cached:set_item_in_vault", "vault", _kind_of, "item"),
    ("odfdo.row:Row.set_cell", "self", "cells", "cell"),
    ("odfdo.row:Row.insert_cell", "self", "cells", "cell"),
    ("odfdo.row:Row.append_cell", "self", "cells", "cell"),
    ("odfdo.table:Table.set_row", "self", "rows", "row"),
    ("odfdo.table:Table.insert_row", "self", "rows", "row"),
    ("odfdo.table:Table.append_row", "self", "rows", "row"),
]:
    _c = REGISTRY[_t]
    _cl = _stores_copy(_v, _k, _i)
    _c.ensures.append(_cl)
    _c.props |= _cl.props


# ------------------------------------------------------------------ area coordinates at table level (C19)
def _is_none(v):
    return v is None


def _area4(a, r, p):
    w, h = vlen(a.self, "cols"), vlen(a.self, "rows")
    c = a.coord
    return S.And(_wrapped(c[0], w, r[0]), _wrapped(c[1], h, r[1]), _wrapped(c[2], w, r[2]), _wrapped(c[3], h, r[3]))


def _area_rows(a, r, p):
    h = vlen(a.self, "rows")
    c = a.coord
    last = c[1] if len(c) == 2 else c[0]
    return S.And(_is_none(r[0]), _is_none(r[2]), _wrapped(c[0], h, r[1]), _wrapped(last, h, r[3]))


contract(
    "odfdo.table:Table._translate_table_coordinates_list",
    sig=[dict(self=_table(), coord=TupleOf(Int, Int, Int, Int)),
         dict(self=_table(), coord=TupleOf(Int, Int)),
         dict(self=_table(), coord=TupleOf(Int))],
    requires=lambda a: S.And(inv_vault(a.self, "rows"), inv_vault(a.self, "cols")),
    ensures=[Clause("area-negative-from-end", {"C19"},
                    lambda a, r, p: _area4(a, r, p) if len(a.coord) == 4 else _area_rows(a, r, p))],
    result=TupleOf(OptInt, OptInt, OptInt, OptInt),
    concretize=concretize_vault, gen=gen_vault, observer=True,
    note="integer forms (x, y, z, t), (y, t) and (y,): every negative entry wraps against width / height, "
         "row forms leave the columns open (None)",
)


def _area_cols(a, r, p):
    w = vlen(a.self, "cols")
    c = a.coord
    last = c[1] if len(c) == 2 else c[0]
    return S.And(_is_none(r[1]), _is_none(r[3]), _wrapped(c[0], w, r[0]), _wrapped(last, w, r[2]))


contract(
    "odfdo.table:Table._translate_column_coordinates_list",
    sig=[dict(self=_table(), coord=TupleOf(Int, Int, Int, Int)),
         dict(self=_table(), coord=TupleOf(Int, Int)),
         dict(self=_table(), coord=TupleOf(Int))],
    requires=lambda a: S.And(inv_vault(a.self, "rows"), inv_vault(a.self, "cols")),
    ensures=[Clause("column-area-negative-from-end", {"C19"},
                    lambda a, r, p: _area4(a, r, p) if len(a.coord) == 4 else _area_cols(a, r, p))],
    result=TupleOf(OptInt, OptInt, OptInt, OptInt),
    concretize=concretize_vault, gen=gen_vault, observer=True,
    note="integer forms (x, y, z, t), (x, z) and (x,): every negative entry wraps against width / height, "
         "column forms leave the rows open (None)",
)


_AREA_SIGS = [dict(self=_table(), coord=TupleOf(Int, Int, Int, Int)),
              dict(self=_table(), coord=TupleOf(Int, Int)),
              dict(self=_table(), coord=TupleOf(Int))]

contract(
    "odfdo.table:Table._translate_table_coordinates",
    sig=_AREA_SIGS,
    requires=lambda a: S.And(inv_vault(a.self, "rows"), inv_vault(a.self, "cols")),
    ensures=[Clause("dispatch-area-negative-from-end", {"C19"},
                    lambda a, r, p: _area4(a, r, p) if len(a.coord) == 4 else _area_rows(a, r, p))],
    result=TupleOf(OptInt, OptInt, OptInt, OptInt),
    concretize=concretize_vault, gen=gen_vault, observer=True,
    inline={"odfdo.table:Table._translate_table_coordinates_list"},
    note="tuple forms reach the list translation (callee inlined: its result mixes None and int per path)",
)

contract(
    "odfdo.table:Table._translate_column_coordinates",
    sig=_AREA_SIGS,
    requires=lambda a: S.And(inv_vault(a.self, "rows"), inv_vault(a.self, "cols")),
    ensures=[Clause("dispatch-column-area-negative-from-end", {"C19"},
                    lambda a, r, p: _area4(a, r, p) if len(a.coord) == 4 else _area_cols(a, r, p))],
    result=TupleOf(OptInt, OptInt, OptInt, OptInt),
    concretize=concretize_vault, gen=gen_vault, observer=True,
    inline={"odfdo.table:Table._translate_column_coordinates_list"},
    note="tuple forms reach the list translation (callee inlined: its result mixes None and int per path)",
)
