"""Bounded native contracts for C06 (typed values survive the trip), C20 (filled table of contents) and
C15 (read-only operations never change the document).  Labelled bounded stand-ins (DESIGN.md 2.9): never
counted as proved.  Oracles use plain Python and raw lxml (``obj._Element__element``) only.

Run:   cd /verif && .venv/bin/python -m pyvc.btest specs.b_values [--thorough] [--target <substr>]

Also: .venv/bin/python -m specs.b_values [--thorough] [--target <substr>]   compares the failures with BASELINE
       (what fails on the unchanged tree) and prints only the NEW failure keys; exit status 1 if there are any.
       .venv/bin/python -m specs.b_values --witnesses   runs the stand-alone witness of every entry of FINDINGS.
Both honour PYVC_REPO, so they can be run under tools/mutrun.py.

Unchanged tree: every failing label is a genuine defect listed in FINDINGS (end of the module):
  cells / fields  direct_str, reparse_str, reopen_str   only for the values 'true' and 'false'
  TOC.fill        entry_text (every document with an entry), fill_runs (the 3 documents with TOC(title=''))
  read-only       unchanged for Document.to_markdown, <any Element>.get_variable_decls / get_user_field_decls
A mutant shows as a failure key outside BASELINE (other label, other carrier / value / entry point).

kills (tools/mutrun.py <file> <old> <new> -- .venv/bin/python -m specs.b_values, quick tier; NEW keys reported):
  C06  element_typed.py  numeric isinstance test moved before the bool test in set_value_and_type
                         -> cells + fields: direct_bool (12 keys: storing a bool raises / reads a number)
       cell.py           Cell.value setter: bool test moved after the int test -> cells: direct_/reparse_/lexical_bool
       element_typed.py  datetime branch of set_value_and_type disabled (date branch takes datetimes)
                         -> cells + fields: direct_/reparse_/lexical_datetime (188 + 141 inputs)
       cell.py           Cell.value decodes only the date part (`Date.decode(value_str[:10])`) -> cells: *_datetime (188 keys)
       element_typed.py  office:value written instead of office:string-value for "string"
                         -> cells: lexical_str (30); fields: direct_/reparse_/reopen_/lexical_str (all 10 strings)
       meta.py           date tested before datetime in set_user_defined_metadata (the defect fixed in the tree)
                         -> meta: direct_/reparse_/reopen_/lexical_datetime (47-48 of 48 datetimes)
       meta.py           Decimal(text) -> float(text) in _get_meta_value_full -> meta: *_int, *_float, *_decimal
       NOT killed: cell.py `"T" in value_str` test removed from Cell.value: equivalent on Python >= 3.11, where
                   Date.decode and DateTime.decode are the same datetime.fromisoformat (see OBSERVATIONS)
  C20  toc.py            `level_indexes.get(level, 0) + 1` -> `get(level, 1) + 1` -> numbering, entry_text_upto_final_break (3682)
       toc.py            `level > outline_level` -> `level >= outline_level`  -> which, numbering (2384)
       toc.py            deeper counters not cleared (the `while idx in level_indexes` loop removed) -> numbering (624)
       toc.py            `range(1, level)` -> `range(1, level + 1)`           -> numbering (3682)
       scripts/headers.py `get(level, 0) + 1` -> `get(level, 1) + 1`          -> tool (3682)
       toc.py            title not restored (`if title and str(title)` -> `if False`) -> title (every document with a title)
  C15  table.py          `.clone` removed in _get_formatted_text_rst (`table = self`)
                         -> unchanged|get_formatted_text (Document rst_mode=True, Table / Body context=rst)
       element.py        replace() writes when `new is None` (treated as "") -> unchanged|replace, twice|replace (14 receivers)
       element.py        get_attribute pops the attribute it reads           -> unchanged / twice on many entry points
       element.py        serialize() works on the live element and drops its tail -> unchanged|serialize (Span)
       NOT a mutant: dropping only the deepcopy in serialize() changes nothing observable (lxml tostring is pure)
"""
from __future__ import annotations

import io
import itertools
import re
from datetime import date, datetime, time as _time, timedelta, timezone
from decimal import Decimal

from lxml import etree

from pyvc.native import NativeResult
from pyvc.spec import Clause, Opaque, Str, contract

NS = {
    "office": "urn:oasis:names:tc:opendocument:xmlns:office:1.0",
    "table": "urn:oasis:names:tc:opendocument:xmlns:table:1.0",
    "text": "urn:oasis:names:tc:opendocument:xmlns:text:1.0",
    "meta": "urn:oasis:names:tc:opendocument:xmlns:meta:1.0",
    "style": "urn:oasis:names:tc:opendocument:xmlns:style:1.0",
    "draw": "urn:oasis:names:tc:opendocument:xmlns:drawing:1.0",
}


def _q(prefixed):
    p, n = prefixed.split(":")
    return "{%s}%s" % (NS[p], n)


def _raw(e):
    """The lxml element behind an odfdo Element (name-mangled private attribute)."""
    return e._Element__element


# ============================================================================================ C06
TYPES = ("bool", "int", "float", "decimal", "str", "date", "datetime", "timedelta", "none")
STAGES = ("direct", "reparse", "reopen", "lexical")
VT_OF = dict(bool="boolean", int="float", float="float", decimal="float", str="string", date="date",
             datetime="date", timedelta="time", none=None)


def _c06_values():
    out = []
    out += [("bool", v) for v in (True, False)]
    out += [("int", v) for v in (0, 1, -1, 2 ** 31, -2 ** 63, 10 ** 30)]
    out += [("float", v) for v in (0.0, 1.5, -2.25, 1e-7, 1e21, 3.0)]
    out += [("decimal", Decimal(s)) for s in ("0", "1.10", "-3.1400", "1E+2", "12345678901234567890.123456789")]
    out += [("str", s) for s in ("", " ", "a b", "  x  ", "<&>\"'", "é", "true", "false", "12", "line\nbreak")]
    out += [("date", date(y, m, d)) for y, m, d in ((1, 1, 1), (1970, 1, 1), (2024, 2, 29), (9999, 12, 31))]
    tzs = (None, timezone.utc, timezone(timedelta(hours=5, minutes=30)), timezone(-timedelta(hours=14)))
    for y, mo, d, h, mi, s in ((1, 1, 2, 3, 4, 5), (1970, 1, 1, 0, 0, 0), (2024, 2, 29, 23, 59, 59),
                               (9999, 6, 30, 12, 30, 15)):
        for tz in tzs:
            for us in (0, 1, 999999):
                out.append(("datetime", datetime(y, mo, d, h, mi, s, us, tzinfo=tz)))
    out += [("timedelta", v) for v in (timedelta(0), timedelta(seconds=1), timedelta(seconds=59), timedelta(hours=1),
                                       timedelta(hours=25), timedelta(days=3), timedelta(seconds=-1),
                                       timedelta(days=-3, hours=2), timedelta(days=400))]
    out.append(("none", None))
    return out


# -------- documented read type (norm) -------------------------------------------------------------
def _c06_conforms(vtype, v, r, carrier):
    """None if the value read `r` is the documented read of the stored `v`, else a text saying why not."""
    if vtype == "bool":
        return None if (type(r) is bool and r == v) else f"expected bool {v!r}"
    if vtype == "int":
        if type(r) is int and r == v:
            return None
        if carrier == "meta" and type(r) is Decimal and r == v:
            return None        # Meta documents "Value types can be: Decimal, date, time, boolean or str"
        return f"expected int {v!r}"
    if vtype == "float":
        want = Decimal(repr(v))
        return None if (type(r) in (int, Decimal) and r == want) else f"expected Decimal/int equal to {want!r}"
    if vtype == "decimal":
        return None if (type(r) in (int, Decimal) and r == v) else f"expected Decimal/int equal to {v!r}"
    if vtype == "str":
        return None if (type(r) is str and r == v) else f"expected str {v!r}"
    if vtype == "date":
        if type(r) is date and r == v:
            return None
        if type(r) is datetime and r.tzinfo is None and r == datetime.combine(v, _time()):
            return None
        return f"expected {v!r} (date or datetime at midnight)"
    if vtype == "datetime":
        if type(r) is datetime and r.utcoffset() == v.utcoffset() and r.replace(tzinfo=None) == v.replace(tzinfo=None):
            return None
        return f"expected the same instant {v!r}"
    if vtype == "timedelta":
        return None if (type(r) is timedelta and r == v) else f"expected {v!r}"
    if vtype == "none":
        return None if r is None else "expected None"
    raise AssertionError(vtype)


# -------- ODF lexical spaces (independent decoders) ----------------------------------------------------
RE_DOUBLE = r"[+-]?(\d+(\.\d*)?|\.\d+)([eE][+-]?\d+)?"
RE_XDATE = r"-?\d{4,}-\d{2}-\d{2}(Z|[+-]\d{2}:\d{2})?"
RE_XDATETIME = r"-?\d{4,}-\d{2}-\d{2}T\d{2}:\d{2}:\d{2}(\.\d+)?(Z|[+-]\d{2}:\d{2})?"
RE_XDURATION = r"(-?)P(?:(\d+)Y)?(?:(\d+)M)?(?:(\d+)D)?(?:T(?:(\d+)H)?(?:(\d+)M)?(?:(\d+)(?:\.(\d+))?S)?)?"


def _xsd_duration(txt):
    m = re.fullmatch(RE_XDURATION, txt)
    if m is None or not any(ch.isdigit() for ch in txt) or txt.endswith("T"):
        return None
    sign, yy, mm, dd, hh, mi, ss, frac = m.groups()
    if yy or mm:
        return None
    us = int((frac or "0").ljust(6, "0")[:6])
    td = timedelta(days=int(dd or 0), hours=int(hh or 0), minutes=int(mi or 0), seconds=int(ss or 0), microseconds=us)
    return -td if sign else td


def _xsd_datetime(txt):
    if not re.fullmatch(RE_XDATETIME, txt):
        return None
    if txt.endswith("Z"):
        txt = txt[:-1] + "+00:00"
    m = re.fullmatch(r"(.*T\d{2}:\d{2}:\d{2})(?:\.(\d+))?([+-]\d{2}:\d{2})?", txt)
    base, frac, tz = m.groups()
    y, rest = base.split("-", 1)
    mo, rest = rest.split("-", 1)
    d, tm = rest.split("T")
    hh, mi, ss = tm.split(":")
    tzinfo = None
    if tz:
        sgn = -1 if tz[0] == "-" else 1
        tzinfo = timezone(sgn * timedelta(hours=int(tz[1:3]), minutes=int(tz[4:6])))
    return datetime(int(y), int(mo), int(d), int(hh), int(mi), int(ss), int((frac or "0").ljust(6, "0")[:6]),
                    tzinfo=tzinfo)


def _c06_lexical(vtype, v, vt, payload, extra):
    """payload: the lexical value found for the value type `vt` (attribute or text); None if absent.
    Returns None if it is in the ODF lexical space of the type and denotes `v`, else a text."""
    want_vt = VT_OF[vtype]
    if vtype == "none":
        return None if (vt is None and not extra) else f"None stored but value-type={vt!r} attributes={extra!r}"
    if vt != want_vt:
        return f"value-type {vt!r}, expected {want_vt!r}"
    if payload is None:
        return f"no value attribute / text for value-type {vt!r}"
    if vtype == "bool":
        return None if payload == ("true" if v else "false") else f"boolean-value {payload!r} not the xsd:boolean of {v!r}"
    if vtype in ("int", "float", "decimal"):
        if not re.fullmatch(RE_DOUBLE, payload):
            return f"office:value {payload!r} is not an xsd:double literal"
        want = Decimal(repr(v)) if vtype == "float" else Decimal(v)
        return None if Decimal(payload) == want else f"office:value {payload!r} does not denote {v!r}"
    if vtype == "str":
        return None if payload == v else f"string payload {payload!r} != {v!r}"
    if vtype == "date":
        if re.fullmatch(RE_XDATE, payload):
            y, mo, d = payload[:10].split("-")
            return None if date(int(y), int(mo), int(d)) == v else f"date-value {payload!r} does not denote {v!r}"
        dt = _xsd_datetime(payload)
        if dt is not None:
            return None if (dt.tzinfo is None and dt == datetime.combine(v, _time())) else \
                f"date-value {payload!r} does not denote {v!r}"
        return f"date-value {payload!r} is neither xsd:date nor xsd:dateTime"
    if vtype == "datetime":
        dt = _xsd_datetime(payload)
        if dt is None:
            if re.fullmatch(RE_XDATE, payload):
                return f"date-value {payload!r} is an xsd:date: the time of {v!r} is not written"
            return f"date-value {payload!r} is not an xsd:dateTime"
        ok = dt.utcoffset() == v.utcoffset() and dt.replace(tzinfo=None) == v.replace(tzinfo=None)
        return None if ok else f"date-value {payload!r} does not denote {v!r}"
    if vtype == "timedelta":
        td = _xsd_duration(payload)
        if td is None:
            return f"time-value {payload!r} is not an xsd:duration (day-time)"
        return None if td == v else f"time-value {payload!r} denotes {td!r}, not {v!r}"
    raise AssertionError(vtype)


_VALUE_ATTRS = ("office:boolean-value", "office:value", "office:date-value", "office:time-value", "office:string-value")
_ATTR_OF_VT = {"boolean": "office:boolean-value", "float": "office:value", "date": "office:date-value",
               "time": "office:time-value", "string": "office:string-value"}


def _typed_payload(el):
    """(value-type, payload, other value attributes present) of a raw lxml element with office:value-type."""
    vt = el.get(_q("office:value-type"))
    present = {a: el.get(_q(a)) for a in _VALUE_ATTRS if el.get(_q(a)) is not None}
    payload = None
    if vt in _ATTR_OF_VT:
        payload = present.pop(_ATTR_OF_VT[vt], None)
        if payload is None and vt == "string":
            ps = [c for c in el if c.tag == _q("text:p")]
            payload = "\n".join("".join(p.itertext()) for p in ps) if ps else (el.text or "")
    return vt, payload, present


# -------- carriers --------------------------------------------------------------------------------------
def _reparse(e):
    from odfdo import Element
    return Element.from_tag(e.serialize())


def _save_reopen(doc):
    from odfdo import Document
    bio = io.BytesIO()
    doc.save(bio)
    return Document(io.BytesIO(bio.getvalue()))


def _sheet_with(table):
    from odfdo import Document
    doc = Document("spreadsheet")
    doc.body.clear()
    doc.body.append(table)
    return doc


def _text_with(*elements):
    from odfdo import Document, Paragraph
    doc = Document("text")
    doc.body.clear()
    for e in elements:
        doc.body.append(e)
    return doc


def _the_cell(raw_root):
    """The raw table:table-cell elements of a raw row / table that carry a value type or any value attribute."""
    cells = list(raw_root.iter(_q("table:table-cell")))
    typed = [c for c in cells if c.get(_q("office:value-type")) is not None
             or any(c.get(_q(a)) is not None for a in _VALUE_ATTRS)]
    return cells, typed


class _Run:
    """Result of running one carrier: values read at each stage + the raw element holding the value."""
    def __init__(self):
        self.reads = {}      # stage -> list of (how, value)
        self.raw = None      # raw lxml element (or None when the carrier stores nothing for None)
        self.raw_kind = "typed"


def _carrier_cell_ctor(v, reopen):
    from odfdo import Cell, Table
    run = _Run()
    c = Cell(v)
    run.reads["direct"] = [("Cell(v).value", c.value), ("Cell(v).get_value()", c.get_value())]
    c2 = _reparse(c)
    run.reads["reparse"] = [("reparsed.value", c2.value), ("reparsed.get_value()", c2.get_value())]
    run.raw = _raw(c)
    if reopen:
        t = Table("t")
        t.set_cell((1, 1), c)
        d2 = _save_reopen(_sheet_with(t))
        c3 = d2.body.get_table(0).get_cell((1, 1))
        run.reads["reopen"] = [("reopened get_cell((1,1)).value", c3.value)]
    return run


def _carrier_cell_setter(v, reopen):
    from odfdo import Cell, Table
    run = _Run()
    c = Cell("previous content")
    c.value = v
    run.reads["direct"] = [("cell.value", c.value)]
    c2 = _reparse(c)
    run.reads["reparse"] = [("reparsed.value", c2.value)]
    run.raw = _raw(c)
    if reopen:
        t = Table("t")
        t.set_cell((1, 1), c)
        d2 = _save_reopen(_sheet_with(t))
        run.reads["reopen"] = [("reopened get_cell((1,1)).value", d2.body.get_table(0).get_cell((1, 1)).value)]
    return run


def _carrier_row(v, reopen):
    from odfdo import Row, Table
    run = _Run()
    r = Row()
    r.set_value(1, v)
    run.reads["direct"] = [("row.get_value(1)", r.get_value(1))]
    run.reads["reparse"] = [("reparsed row.get_value(1)", _reparse(r).get_value(1))]
    cells, typed = _the_cell(_raw(r))
    run.raw = typed[0] if len(typed) == 1 else None
    run.raw_kind = "typed" if len(typed) <= 1 else "ambiguous"
    if reopen:
        t = Table("t")
        t.set_row(1, r)
        d2 = _save_reopen(_sheet_with(t))
        run.reads["reopen"] = [("reopened table.get_row(1).get_value(1)", d2.body.get_table(0).get_row(1).get_value(1))]
    return run


def _carrier_table(v, reopen):
    from odfdo import Table
    run = _Run()
    t = Table("t")
    t.set_value((1, 1), v)
    run.reads["direct"] = [("table.get_value((1,1))", t.get_value((1, 1)))]
    run.reads["reparse"] = [("reparsed table.get_value((1,1))", _reparse(t).get_value((1, 1)))]
    cells, typed = _the_cell(_raw(t))
    run.raw = typed[0] if len(typed) == 1 else None
    run.raw_kind = "typed" if len(typed) <= 1 else "ambiguous"
    if reopen:
        d2 = _save_reopen(_sheet_with(t))
        run.reads["reopen"] = [("reopened table.get_value((1,1))", d2.body.get_table(0).get_value((1, 1)))]
    return run


def _field_carrier(kind):
    def carrier(v, reopen):
        from odfdo import Element, Paragraph
        from odfdo.variable import UserDefined, UserFieldDecl, VarSet
        run = _Run()
        if kind == "VarSet":
            e = VarSet(name="n", value=v)
        elif kind == "UserFieldDecl":
            e = UserFieldDecl(name="n", value=v)
        else:
            e = UserDefined(name="n", value=v)
        run.reads["direct"] = [(f"{kind}(value=v).get_value()", e.get_value())]
        run.reads["reparse"] = [("reparsed.get_value()", _reparse(e).get_value())]
        run.raw = _raw(e)
        if reopen:
            if kind == "UserFieldDecl":
                holder = Element.from_tag("text:user-field-decls")
            else:
                holder = Paragraph("p")
            holder.append(e)
            d2 = _save_reopen(_text_with(holder))
            b = d2.body
            got = {"VarSet": b.get_variable_set_value, "UserFieldDecl": b.get_user_field_value,
                   "UserDefined": b.get_user_defined_value}[kind]("n")
            run.reads["reopen"] = [(f"reopened body value of {kind} 'n'", got)]
        return run
    return carrier


def _carrier_meta(v, reopen):
    from odfdo import Document
    run = _Run()
    doc = Document("text")
    meta = doc.meta
    meta.set_user_defined_metadata("k", v)
    run.reads["direct"] = [("meta.get_user_defined_metadata()['k']", meta.get_user_defined_metadata()["k"])]
    other = Document("text")
    other.set_part("meta.xml", meta.serialize())
    run.reads["reparse"] = [("re-parsed meta part ['k']", other.meta.get_user_defined_metadata()["k"])]
    found = [e for e in _raw(meta.root).iter(_q("meta:user-defined")) if e.get(_q("meta:name")) == "k"]
    run.raw = found[0] if len(found) == 1 else None
    run.raw_kind = "meta"
    if reopen:
        d2 = _save_reopen(doc)
        run.reads["reopen"] = [("reopened meta ['k']", d2.meta.get_user_defined_metadata()["k"])]
    return run


C06_GROUPS = {
    "cells": [("Cell(value)", _carrier_cell_ctor), ("cell.value=", _carrier_cell_setter),
              ("Row.set_value", _carrier_row), ("Table.set_value", _carrier_table)],
    "fields": [("VarSet", _field_carrier("VarSet")), ("UserFieldDecl", _field_carrier("UserFieldDecl")),
               ("UserDefined", _field_carrier("UserDefined"))],
    "meta": [("Meta.set_user_defined_metadata", _carrier_meta)],
}
_C06_CARRIER = {name: fn for lst in C06_GROUPS.values() for name, fn in lst}
# quick tier: the save-and-reopen stage runs for this carrier of each type (thorough: every carrier)
C06_QUICK_REOPEN = dict(bool="Cell(value)", int="Table.set_value", float="Row.set_value", decimal="cell.value=",
                        str="VarSet", date="UserFieldDecl", datetime="Meta.set_user_defined_metadata",
                        timedelta="UserDefined", none="Cell(value)")


def _make_c06_gen(group):
    def gen(con, sigcase, count, seed):
        thorough = count > 200
        for name, _fn in C06_GROUPS[group]:
            for vtype, v in _c06_values():
                if group == "meta" and vtype == "none":
                    continue      # documented: None is not a user-defined metadata value (TypeError)
                reopen = thorough or C06_QUICK_REOPEN[vtype] == name or group == "meta" and vtype in ("datetime", "str")
                yield {"carrier": name, "vtype": vtype, "value": v, "reopen": reopen}
    return gen


def _call_c06(con, fn, argvals, labels):
    res = NativeResult()
    name, vtype, v, reopen = argvals["carrier"], argvals["vtype"], argvals["value"], argvals["reopen"]
    carrier_kind = "meta" if name.startswith("Meta") else "typed"
    try:
        run = _C06_CARRIER[name](v, reopen)
    except Exception as e:  # noqa
        res.checked = 1
        res.outcome = f"raised {type(e).__name__}: {e}"
        res.failures.append((f"ensures:direct_{vtype}", f"storing / reading {v!r} through {name} raised {e!r}"))
        return res
    seen = []
    for stage in ("direct", "reparse", "reopen"):
        for how, r in run.reads.get(stage, []):
            res.checked += 1
            seen.append(f"{how}={r!r}")
            why = _c06_conforms(vtype, v, r, carrier_kind)
            if why is not None:
                res.failures.append((f"ensures:{stage}_{vtype}", f"{name}: stored {v!r}, {how} = {r!r}; {why}"))
    # lexical space of what was written (raw lxml)
    res.checked += 1
    if run.raw_kind == "ambiguous":
        res.failures.append((f"ensures:lexical_{vtype}", f"{name}: more than one cell carries a value"))
    elif run.raw is None:
        if vtype != "none":
            res.failures.append((f"ensures:lexical_{vtype}", f"{name}: no element carries the value {v!r}"))
    else:
        if run.raw_kind == "meta":
            vt, payload, extra = run.raw.get(_q("meta:value-type")), (run.raw.text or ""), {}
            if len(run.raw):
                extra = {"children": len(run.raw)}
        else:
            vt, payload, extra = _typed_payload(run.raw)
        why = _c06_lexical(vtype, v, vt, payload, extra)
        if why is None and extra and vtype != "none":
            why = f"value attributes of another type also present: {extra!r}"
        if why is not None:
            res.failures.append((f"ensures:lexical_{vtype}", f"{name}: {why}"))
        seen.append(f"xml value-type={vt!r} payload={payload!r}")
    res.outcome = "; ".join(seen)
    return res


_C06_CLAUSES = [Clause(f"{st}_{ty}", {"C06"}, lambda a, r, p: True) for st in STAGES for ty in TYPES]
_C06_VALUES_SCOPE = (
    "value lattice: bool {True,False}; int {0,1,-1,2**31,-2**63,10**30}; float {0.0,1.5,-2.25,1e-7,1e21,3.0}; "
    "Decimal {0, 1.10, -3.1400, 1E+2, 12345678901234567890.123456789}; str {'', ' ', 'a b', '  x  ', '<&>\"\\'', "
    "'é', 'true', 'false', '12', 'line\\nbreak'}; date years {1,1970,2024,9999}; datetime years {1,1970,2024,9999} "
    "x tz {none,UTC,+05:30,-14:00} x microseconds {0,1,999999}; timedelta {0,1s,59s,1h,25h,3d,-1s,-3d+2h,400d} "
    "(whole seconds only); None -- 91 values; stages: direct read, Element.from_tag(serialize()) re-parse, raw-lxml "
    "lexical check of the written attributes, and save to BytesIO + reopen (quick: one carrier per type; thorough: all)")

for _grp, _target, _carriers in (
        ("cells", "odfdo.cell:Cell typed value round trip", "Cell(value), cell.value = v, Row.set_value/get_value, "
                                                            "Table.set_value/get_value"),
        ("fields", "odfdo.variable:VarSet/UserFieldDecl/UserDefined typed value round trip",
         "VarSet, UserFieldDecl, UserDefined (constructor value=, ElementTyped.get_value, Body value getters after reopen)"),
        ("meta", "odfdo.meta:Meta.set_user_defined_metadata typed value round trip",
         "Meta.set_user_defined_metadata / get_user_defined_metadata on Document('text').meta (None excluded: documented "
         "TypeError; int may read back as the equal Decimal, the documented meta number type)")):
    contract(
        _target,
        sig=dict(carrier=Str, vtype=Str, value=Opaque(object), reopen=Opaque(bool)),
        ensures=_C06_CLAUSES,
        gen=_make_c06_gen(_grp), call_native=_call_c06,
        bounded=dict(scope=f"carriers {{{_carriers}}} x " + _C06_VALUES_SCOPE,
                     reason="type-lattice dispatch over real lxml elements, stdlib codecs and the zip container: "
                            "outside the symbolic executor; enumerated over the boundary lattice instead"),
    )


# ============================================================================================ C20
C20_LEVELS = (1, 2, 3, 4, 10)
C20_OUTLINES = (0, 1, 2, 3, 10)
C20_TEXTS = ("One", "a  b", "<span>", "")          # "<span>": text "Sp" + text:span "an" + tail " end"
C20_POSITIONS = ("start", "middle", "end")
C20_SPAN_TEXT = "Span end"


def _c20_projection(el):
    """Readable text of a raw paragraph-like element: character data in document order, text:s -> spaces,
    text:tab -> TAB, text:line-break -> newline; any other child contributes its own projection."""
    out = [el.text or ""]
    for ch in el:
        if not isinstance(ch.tag, str):
            pass
        elif ch.tag == _q("text:s"):
            out.append(" " * int(ch.get(_q("text:c"), "1")))
        elif ch.tag == _q("text:tab"):
            out.append("\t")
        elif ch.tag == _q("text:line-break"):
            out.append("\n")
        else:
            out.append(_c20_projection(ch))
        out.append(ch.tail or "")
    return "".join(out)


def _c20_numbers(levels):
    """Independent outline-numbering model: one counter per level; a heading of level L increments counter L,
    resets every deeper counter, and a missing (never yet counted) shallower level counts as 1 from then on
    (levels 1,3,2 -> '1.', '1.1.1.', '1.2.')."""
    counters = [0] * 12
    out = []
    for lv in levels:
        for j in range(1, lv):
            if counters[j] == 0:
                counters[j] = 1
        counters[lv] += 1
        for j in range(lv + 1, len(counters)):
            counters[j] = 0
        out.append("".join(f"{counters[j]}." for j in range(1, lv + 1)))
    return out


def _c20_make_heading(level, kind):
    from odfdo import Header
    if kind == "<span>":
        h = Header(level, "")
        raw = _raw(h)
        raw.text = "Sp"
        span = etree.SubElement(raw, _q("text:span"))
        span.text = "an"
        span.tail = " end"
        return h, C20_SPAN_TEXT
    return Header(level, kind), kind


def _gen_c20(con, sigcase, count, seed):
    thorough = count > 200
    maxlen = 5 if thorough else 4
    k = 0
    # A: every level sequence x every outline level; texts / position / title assigned cyclically
    for n in range(0, maxlen + 1):
        for seq in itertools.product(C20_LEVELS, repeat=n):
            for ol in C20_OUTLINES:
                texts = tuple(C20_TEXTS[(k + i) % len(C20_TEXTS)] for i in range(n))
                # the outline level is requested through the constructor or, every other case, through the setter of
                # a TOC created with another level (0 = no limit must replace an earlier limit)
                yield {"levels": seq, "texts": texts, "outline": ol, "position": C20_POSITIONS[k % 3],
                       "title": "Table of Contents", "via": "setter" if k % 2 else "ctor"}
                k += 1
    # B: every text assignment (x positions) for all sequences of length <= 2 over levels {1,2,10}
    for n in range(1, 3):
        for seq in itertools.product((1, 2, 10), repeat=n):
            for texts in itertools.product(C20_TEXTS, repeat=n):
                for pos in (C20_POSITIONS if (n == 1 or thorough) else (C20_POSITIONS[k % 3],)):
                    for ol in (0, 1):
                        yield {"levels": seq, "texts": texts, "outline": ol, "position": pos, "title": "My  Title"}
                k += 1
    # C: a TOC created without a title
    for seq in ((), (1,), (1, 2)):
        yield {"levels": seq, "texts": ("One",) * len(seq), "outline": 0, "position": "start", "title": ""}


def _call_c20(con, fn, argvals, labels):
    import contextlib
    from odfdo import TOC, Document, Paragraph
    from odfdo.scripts import headers as tool
    res = NativeResult()
    levels, texts, outline, position, title = (argvals[k] for k in ("levels", "texts", "outline", "position", "title"))
    doc = Document("text")
    body = doc.body
    body.clear()
    want_texts = []
    for i, (lv, kind) in enumerate(zip(levels, texts)):
        h, txt = _c20_make_heading(lv, kind)
        body.append(h)
        body.append(Paragraph(f"paragraph {i}"))
        want_texts.append(txt)
    if argvals.get("via") == "setter":
        toc = TOC(title=title, outline_level=(1 if outline != 1 else 2))
        toc.outline_level = outline
    else:
        toc = TOC(title=title, outline_level=outline)
    nchildren = len(_raw(body))
    body.insert(toc, position={"start": 0, "middle": nchildren // 2, "end": nchildren}[position])
    rbody = _raw(body)
    rtoc = _raw(toc)
    # the generated headings as raw lxml sees them (document order), sanity of the generator itself
    rheads = [e for e in rbody.iter(_q("text:h"))]
    raw_levels = tuple(int(e.get(_q("text:outline-level"))) for e in rheads)
    raw_texts = [_c20_projection(e) for e in rheads]
    if raw_levels != tuple(levels) or raw_texts != want_texts:
        res.in_domain = False
        res.outcome = f"generator: headings {raw_levels} {raw_texts!r} are not the intended {levels} {want_texts!r}"
        return res
    limit = outline or 10          # documented convention in TOC.fill: `outline_level or 10`, 0 = all levels
    numbers_all = _c20_numbers(levels)
    # numbering runs over the listed headings only (the excluded ones do not take part in the outline shown)
    listed = [i for i, lv in enumerate(levels) if lv <= limit]
    numbers = _c20_numbers([levels[i] for i in listed])
    expected = [f"{num} {want_texts[i]}" for num, i in zip(numbers, listed)]

    res.checked = 1
    try:
        toc.fill()
    except Exception as e:  # noqa
        res.outcome = f"fill raised {type(e).__name__}: {e}"
        res.failures.append(("ensures:fill_runs", f"TOC(title={title!r}, outline_level={outline}).fill() raised {e!r} "
                                                   f"for heading levels {levels}"))
        return res

    def index_state():
        ib = [c for c in rtoc if c.tag == _q("text:index-body")]
        if len(ib) != 1:
            return None, [], []
        kids = list(ib[0])
        titles = [c for c in kids if c.tag == _q("text:index-title")]
        entries = [c for c in kids if c.tag == _q("text:p")]
        return ib[0], titles, entries

    ib, titles, entries = index_state()
    if ib is None:
        res.failures.append(("ensures:which", "the TOC does not have exactly one text:index-body after fill"))
        return res
    got = [_c20_projection(e) for e in entries]
    res.outcome = f"entries {got!r}"
    if [numbers_all[i] for i in listed] != numbers:
        res.outcome += (f" (observation: with outline level {outline} the numbers {numbers} differ from the numbers "
                        f"{[numbers_all[i] for i in listed]} the same headings have in the full outline)")
    res.checked += 7
    # which headings, in document order
    other = [c.tag for c in ib if c.tag not in (_q("text:index-title"), _q("text:p"))]
    if len(got) != len(expected) or other:
        res.failures.append(("ensures:which", f"{len(got)} entries {got!r} (+{other}) for levels {levels} with outline "
                                               f"level {outline}: expected {len(expected)}: {expected!r}"))
    else:
        # same count: the entry must belong to the right heading (text after the number, break-insensitive)
        for g, i in zip(got, listed):
            tail = g.split(" ", 1)[1] if " " in g else ""
            if tail.rstrip("\n") != want_texts[i].rstrip("\n"):
                res.failures.append(("ensures:which", f"entry {g!r} is not for heading {want_texts[i]!r}; entries {got!r}, "
                                                       f"expected {expected!r}"))
                break
    # numbering
    got_numbers = [g.split(" ", 1)[0] for g in got]
    if got_numbers != numbers:
        res.failures.append(("ensures:numbering", f"levels {levels} outline {outline}: numbers {got_numbers}, expected "
                                                   f"{numbers}"))
    # number + " " + text and nothing else
    if got != expected:
        bad = next(((g, e) for g, e in zip(got, expected) if g != e), (got, expected))
        res.failures.append(("ensures:entry_text", f"entry {bad[0]!r} != {bad[1]!r} (number, one space, heading text, "
                                                    f"nothing else); levels {levels}"))
    # the same, tolerating exactly one trailing line break (keeps its power while entry_text is a known finding)
    if [g[:-1] if g.endswith("\n") else g for g in got] != expected:
        res.failures.append(("ensures:entry_text_upto_final_break", f"entries {got!r}, expected {expected!r}"))
    # title kept
    if title:
        tt = [_c20_projection(p) for t in titles for p in t if p.tag == _q("text:p")]
        if len(titles) != 1 or tt != [title] or ib[0] is not titles[0]:
            res.failures.append(("ensures:title", f"title {title!r} not kept as first child of the index body: {tt!r}"))
    elif titles:
        res.failures.append(("ensures:title", "an index title appeared although the TOC has no title"))
    # the heading-listing tool reports the same outline
    buf = io.StringIO()
    try:
        with contextlib.redirect_stdout(buf):
            tool.headers_document(doc, limit)
        tool_lines = buf.getvalue().split("\n")
        if tool_lines and tool_lines[-1] == "":
            tool_lines.pop()
        idx = {}
        tool_numbers = [tool.header_numbering(h, idx, limit) for h in body.headers]
        tool_numbers = [n for n in tool_numbers if n is not None]
    except Exception as e:  # noqa
        tool_lines, tool_numbers = [f"raised {e!r}"], None
    if tool_lines != expected or tool_numbers != numbers:
        res.failures.append(("ensures:tool", f"odfdo-headers prints {tool_lines!r} / numbers {tool_numbers}; expected "
                                              f"{expected!r}"))
    # second fill changes nothing
    c14n_ib = etree.tostring(ib, method="c14n")
    c14n_doc = etree.tostring(rbody.getroottree().getroot(), method="c14n")
    try:
        toc.fill()
        ib2, _t2, _e2 = index_state()
        same = ib2 is not None and etree.tostring(ib2, method="c14n") == c14n_ib
        same_doc = etree.tostring(rbody.getroottree().getroot(), method="c14n") == c14n_doc
        if not same or not same_doc:
            res.failures.append(("ensures:refill", f"second fill changed the {'index body' if not same else 'content'}: "
                                                    f"{[_c20_projection(e) for e in _e2]!r} vs {got!r}"))
    except Exception as e:  # noqa
        res.failures.append(("ensures:refill", f"second fill raised {e!r}"))
    return res


contract(
    "odfdo.toc:TOC.fill",
    sig=dict(levels=Opaque(tuple), texts=Opaque(tuple), outline=Opaque(int), position=Str, title=Str),
    ensures=[Clause(lab, {"C20"}, lambda a, r, p: True) for lab in
             ("fill_runs", "which", "numbering", "entry_text", "entry_text_upto_final_break", "title", "tool", "refill")],
    gen=_gen_c20, call_native=_call_c20,
    bounded=dict(
        scope="A: every heading-level sequence over {1,2,3,4,10} of length 0..4 (quick) / 0..5 (thorough) x TOC outline "
              "level {0,1,2,3,10}, heading texts {'One', 'a  b' (text:s), 'Sp<span>an</span> end', ''} and TOC position "
              "{start, middle, end of body} assigned cyclically; B: all sequences of length 1..2 over {1,2,10} x every "
              "text assignment x outline {0,1} x every position (length 2 in the quick tier: one position, cyclically), "
              "title 'My  Title'; C: 3 documents with TOC(title=''). "
              "Each: fill once (entries, numbering, text, title, odfdo-headers tool) and twice (C14N-equal index body "
              "and content)",
        reason="whole-document behaviour through lxml and Paragraph formatting; the numbering kernel is planned as a "
               "proof, this is its bounded stand-in and the end-to-end check"),
)


# ============================================================================================ C15
import inspect as _inspect
import os as _os

C15_SAMPLES_DIR = "/repo/tests/samples"          # samples are data, always read from the pinned repository
C15_TEMPLATES = ("text", "spreadsheet", "presentation", "drawing")
C15_QUICK_DOCS = ("generated", "template:text", "template:spreadsheet", "sample:simple_table.ods",
                  "sample:toc_done.odt")
C15_THOROUGH_SAMPLES = (
    "simple_table.ods", "toc_done.odt", "toc.odt", "table.odt", "base_text.odt", "base_md_text.odt", "list.odt",
    "note.odt", "bookmark.odt", "span_style.odt", "user_fields.odt", "variable.odt", "meta.odt", "frame_image.odp",
    "example.odp", "base_shapes.odg", "styled_table.ods", "simple_table_named_range.ods", "minimal_hidden.ods",
    "tracked_changes.odt", "chart.odt", "lorem.odt", "md_style.odt", "pagebreak.odt", "dormeur_notes.odt")
C15_XML_PARTS = ("content.xml", "styles.xml", "meta.xml", "settings.xml", "META-INF/manifest.xml")

C15_VOCABULARY = re.compile(
    r"^(get_\w*|search\w*|match|text_at|serialize|to_markdown|to_csv|get_formatted_text|__str__|__repr__|as_dict|"
    r"as_json|as_text|show_styles|is_empty|replace|traverse\w*|iter_values|xpath)$")
C15_MUTATOR_PREFIXES = ("set_", "insert", "append", "delete", "del_", "add_", "remove", "clear", "strip", "rstrip",
                        "optimize", "transpose", "merge", "save", "extend")
# default arguments by parameter name for required parameters; a required parameter not listed => skipped
C15_DEFAULT_ARGS = dict(pattern="a", coord=(0, 0), name="x", keyname="x", position=0, start=0, x=0, y=0, table=0,
                        family="paragraph", path="content.xml", full_path="content.xml",
                        xpath_query="descendant::text:p")


def _c15_rst_context(doc):
    return {"document": doc, "footnotes": [], "endnotes": [], "annotations": [], "rst_mode": True, "img_counter": 0,
            "images": [], "no_img_level": 0}


def _c15_generated_bytes():
    """A small text document with a heading, a span, a list, a text frame, a 3x4 table whose last two rows and last
    column are empty, a variable, user-defined metadata and a filled table of contents."""
    from odfdo import TOC, Cell, Document, Frame, Header, List, Paragraph, Row, Span, Table
    doc = Document("text")
    body = doc.body
    body.clear()
    toc = TOC()
    body.append(toc)
    body.append(Header(1, "Chapter a"))
    p = Paragraph("alpha ")
    span = Span("beta a")
    p.append(span)
    _raw(span).tail = " gamma a"
    body.append(p)
    body.append(List(["item a", "item b"]))
    # a numbered list in the ODF way: a list style with a level-1 number format, referenced by the paragraph style of
    # the items (exports number such items; reading them as text must not depend on an earlier export)
    from odfdo import Element, ListItem, Style
    doc.insert_style(Element.from_tag(
        '<text:list-style style:name="VerifL1"><text:list-level-style-number text:level="1" style:num-format="1" '
        'style:num-suffix="."/></text:list-style>'), automatic=True)
    pst = Style("paragraph", name="VerifP1")
    pst.set_attribute("style:list-style-name", "VerifL1")
    doc.insert_style(pst, automatic=True)
    numbered = List()
    numbered.set_attribute("text:style-name", "VerifL1")
    for txt in ("numbered a", "numbered b", "numbered c"):
        item = ListItem()
        item.append(Paragraph(txt, style="VerifP1"))
        numbered.append(item)
    body.append(numbered)
    fp = Paragraph("holder")
    fp.append(Frame.text_frame("frame text a", size=("3cm", "1cm"), name="f1"))
    body.append(fp)
    table = Table("T", width=3, height=4)
    table.set_value((0, 0), "a")
    table.set_value((1, 0), 2)
    table.set_value((0, 1), "b a")
    table.set_value((1, 1), 3.5)
    body.append(table)
    body.append(Header(2, "Section b"))
    body.append(Paragraph("omega a"))
    toc.fill()
    doc.meta.set_user_defined_metadata("x", "value a")
    bio = io.BytesIO()
    doc.save(bio)
    return bio.getvalue()


_C15_BYTES = {}
_C15_LIVE = {}      # docname -> (Document, snapshot) kept while no entry point changed it


def _c15_load(docname):
    from odfdo import Document
    if docname.startswith("template:"):
        return Document(docname.split(":", 1)[1])
    if docname not in _C15_BYTES:
        if docname == "generated":
            _C15_BYTES[docname] = _c15_generated_bytes()
        else:
            with open(_os.path.join(C15_SAMPLES_DIR, docname.split(":", 1)[1]), "rb") as f:
                _C15_BYTES[docname] = f.read()
    return Document(io.BytesIO(_C15_BYTES[docname]))


def _c15_snapshot(doc):
    """Every part of the document as it is in memory: XML parts serialised from their live lxml root, the others
    as bytes."""
    snap = {}
    for path in sorted(doc.container.get_parts()):
        try:
            if path in C15_XML_PARTS:
                part = doc.get_part(path)
                snap[path] = etree.tostring(_raw(part.root).getroottree())
            else:
                data = doc.container.get_part(path)
                snap[path] = data if isinstance(data, bytes) else repr(data).encode()
        except Exception as e:  # noqa
            snap[path] = f"unreadable {type(e).__name__}".encode()
    snap["<mimetype>"] = repr(doc.container.mimetype).encode()
    return snap


def _c15_receivers(doc):
    """(label, object) pairs; the children are located with raw lxml and wrapped live with Element.from_tag."""
    from odfdo import Element
    out = [("Document", doc), ("Body", doc.body)]
    rbody = _raw(doc.body)
    for label, tag in (("Paragraph", "text:p"), ("Header", "text:h"), ("Span", "text:span"), ("Table", "table:table"),
                       ("Row", "table:table-row"), ("Cell", "table:table-cell"), ("Frame", "draw:frame"),
                       ("List", "text:list"), ("TOC", "text:table-of-content")):
        found = next(rbody.iter(_q(tag)), None)
        if found is not None:
            out.append((label, Element.from_tag(found)))
    out.append(("Meta", doc.meta))
    out.append(("Manifest", doc.manifest))
    out.append(("Styles", doc.styles))
    out.append(("Content", doc.content))
    return out


def _c15_entries(obj):
    """Mechanical enumeration of the read-only entry points of type(obj): (entry, kind, variants)."""
    cls = type(obj)
    out = []
    for name in dir(cls):
        if name.startswith("_") and name not in ("__str__", "__repr__"):
            continue
        if name.startswith(C15_MUTATOR_PREFIXES):
            continue
        static = _inspect.getattr_static(cls, name)
        if isinstance(static, property):
            out.append((name, "property", ("",)))
            continue
        if not C15_VOCABULARY.match(name):
            continue
        fn = getattr(cls, name, None)
        if not callable(fn):
            continue
        try:
            params = list(_inspect.signature(fn).parameters.values())
        except (TypeError, ValueError):
            continue
        if not isinstance(static, (staticmethod, classmethod)):
            params = params[1:]
        required = [p.name for p in params if p.default is p.empty and p.kind in (p.POSITIONAL_ONLY,
                                                                                 p.POSITIONAL_OR_KEYWORD, p.KEYWORD_ONLY)]
        if any(r not in C15_DEFAULT_ARGS for r in required):
            continue                                   # needs a complex argument (Element, Style, ...)
        variants = [""]
        pnames = {p.name for p in params}
        if "rst_mode" in pnames:
            variants.append("rst_mode=True")
        if "context" in pnames:
            variants.append("context=rst")
        out.append((name, "method", tuple(variants)))
    return out


def _c15_render(x, depth=0):
    """A comparable rendering of a result (independent of object identity)."""
    if x is None or isinstance(x, (bool, int, float, str, bytes, Decimal, date, timedelta)):
        return repr(x)
    if hasattr(x, "_Element__element"):
        return ("E", etree.tostring(_raw(x), with_tail=False))
    if depth > 4:
        return ("deep", type(x).__name__)
    if isinstance(x, dict):
        return ("dict", tuple(sorted((repr(k), _c15_render(v, depth + 1)) for k, v in x.items())))
    if isinstance(x, (set, frozenset)):
        return ("set", tuple(sorted(repr(_c15_render(v, depth + 1)) for v in x)))
    if isinstance(x, (list, tuple)) or _inspect.isgenerator(x) or isinstance(x, (map, filter, zip)):
        return (type(x).__name__ if isinstance(x, (list, tuple)) else "iter",
                tuple(_c15_render(v, depth + 1) for v in x))
    if hasattr(x, "part_name"):
        return ("part", type(x).__name__, x.part_name)
    return ("obj", type(x).__name__, re.sub(r"0x[0-9a-fA-F]+", "0x", repr(x))[:200])


def _c15_invoke(doc, obj, entry, kind, variant):
    try:
        if kind == "property":
            return _c15_render(getattr(obj, entry))
        fn = getattr(obj, entry)
        params = _inspect.signature(fn).parameters
        kwargs = {}
        for p in params.values():
            if p.default is p.empty and p.kind in (p.POSITIONAL_ONLY, p.POSITIONAL_OR_KEYWORD, p.KEYWORD_ONLY):
                kwargs[p.name] = C15_DEFAULT_ARGS[p.name]
        if variant == "rst_mode=True":
            kwargs["rst_mode"] = True
        elif variant == "context=rst":
            kwargs["context"] = _c15_rst_context(doc)
        pos = [kwargs.pop(p.name) for p in params.values() if p.kind is p.POSITIONAL_ONLY and p.name in kwargs]
        return _c15_render(fn(*pos, **kwargs))
    except RecursionError:
        raise
    except Exception as e:  # noqa  (unsuitable default arguments are fine)
        return ("raised", type(e).__name__, str(e)[:200])


C15_MAX_TABLE_EXTENT = 200       # documents with a table of more rows or columns (repeats expanded) are skipped


def _c15_table_extent(doc):
    """Largest number of rows or columns (repeat attributes expanded) of any table, by raw lxml."""
    worst = 0
    for t in _raw(doc.body).iter(_q("table:table")):
        rows = sum(int(r.get(_q("table:number-rows-repeated"), "1")) for r in t.iter(_q("table:table-row")))
        cols = max([sum(int(c.get(_q("table:number-columns-repeated"), "1")) for c in r
                        if isinstance(c.tag, str)) for r in t.iter(_q("table:table-row"))] + [0])
        worst = max(worst, rows, cols)
    return worst


def _c15_docs(thorough):
    if not thorough:
        return list(C15_QUICK_DOCS)
    return ["generated"] + [f"template:{t}" for t in C15_TEMPLATES] + [f"sample:{s}" for s in C15_THOROUGH_SAMPLES]


def _gen_c15(con, sigcase, count, seed):
    thorough = count > 200
    for docname in _c15_docs(thorough):
        try:
            doc = _c15_load(docname)
            size = _c15_table_extent(doc)
            if size > C15_MAX_TABLE_EXTENT:
                raise ValueError(f"table extent {size} > {C15_MAX_TABLE_EXTENT}: outside the bounded table sizes")
            receivers = _c15_receivers(doc)
        except Exception as e:  # noqa
            yield {"doc": docname, "receiver": "<load>", "entry": repr(e)[:100], "kind": "load", "variant": ""}
            continue
        for label, obj in receivers:
            for entry, kind, variants in _c15_entries(obj):
                for variant in variants:
                    yield {"doc": docname, "receiver": label, "entry": entry, "kind": kind, "variant": variant}


def _call_c15(con, fn, argvals, labels):
    res = NativeResult()
    docname, label, entry, kind, variant = (argvals[k] for k in ("doc", "receiver", "entry", "kind", "variant"))
    if kind == "load":
        res.in_domain = False
        res.outcome = f"document not loadable: {entry}"
        return res
    live = _C15_LIVE.pop(docname, None)
    if live is None:
        doc = _c15_load(docname)
        before = _c15_snapshot(doc)
    else:
        doc, before = live
    obj = dict(_c15_receivers(doc)).get(label)
    if obj is None:
        res.in_domain = False
        return res
    res.checked = 2
    first = _c15_invoke(doc, obj, entry, kind, variant)
    after = _c15_snapshot(doc)
    second = _c15_invoke(doc, obj, entry, kind, variant)
    after2 = _c15_snapshot(doc)
    what = f"{label}.{entry}" + (f"({variant})" if variant else "") + f" on {docname}"
    res.outcome = f"{what}: {repr(first)[:120]}"
    changed = sorted(p for p in set(before) | set(after2) if before.get(p) != after.get(p) or before.get(p) != after2.get(p))
    if changed:
        detail = ""
        p0 = changed[0]
        b, a = before.get(p0) or b"", (after.get(p0) if before.get(p0) != after.get(p0) else after2.get(p0)) or b""
        i = next((k for k in range(min(len(a), len(b))) if a[k] != b[k]), min(len(a), len(b)))
        detail = f"; {p0} at byte {i}: {b[max(0, i - 60):i + 60]!r} -> {a[max(0, i - 60):i + 60]!r} (len {len(b)} -> {len(a)})"
        res.failures.append(("ensures:unchanged", f"{what} changed part(s) {changed}{detail}"))
    else:
        _C15_LIVE[docname] = (doc, after2)          # untouched: keep for the next entry point
    if first != second:
        res.failures.append(("ensures:twice", f"{what}: first call {repr(first)[:150]} / second call {repr(second)[:150]}"))
    return res


contract(
    "odfdo.document:read-only entry points",
    sig=dict(doc=Str, receiver=Str, entry=Str, kind=Str, variant=Str),
    ensures=[Clause("unchanged", {"C15"}, lambda a, r, p: True), Clause("twice", {"C15"}, lambda a, r, p: True)],
    gen=_gen_c15, call_native=_call_c15,
    bounded=dict(
        scope="documents: quick {generated text document (heading, span, list, frame, 3x4 table with two empty last "
              "rows and an empty last column, filled TOC, user-defined metadata), templates text + spreadsheet, samples "
              "simple_table.ods, toc_done.odt}; thorough {generated, the 4 templates, 25 samples of tests/samples; a "
              "document with a table of more than 200 rows or columns (repeats expanded) is skipped: "
              "styled_table.ods; big.ods and background.odp are not listed}.  Receivers: Document, Body, first Paragraph / Header / Span / Table / Row / "
              "Cell / Frame / List / TOC of the body (live wrappers), Meta, Manifest, Styles, Content.  Entry points: "
              "every public property (read with getattr) and every method of type(receiver) named get_*, search*, "
              "match, text_at, serialize, to_markdown, to_csv, get_formatted_text, __str__, __repr__, as_dict, "
              "as_json, as_text, show_styles, is_empty, replace (no replacement), traverse*, iter_values, xpath, "
              "callable with defaults pattern='a', coord=(0,0), name='x', position=0, x=y=0, table=0, "
              "family='paragraph', path='content.xml', xpath_query='descendant::text:p'; plus the variants "
              "rst_mode=True / context=<rst context>; names starting with set_/insert/append/delete/del_/add_/remove/"
              "clear/strip/rstrip/optimize/transpose/merge/save/extend and methods needing other required arguments "
              "are skipped.  Each entry point is called twice; every part is snapshotted (raw lxml serialisation of "
              "the XML part roots, bytes of the others) before, between and after",
        reason="frame condition over the whole public read API and real documents: the effect inference closes only "
               "part of it; this is the replay over templates and samples"),
)


# ============================================================================================ findings / baseline
def failure_key(target, argvals, label):
    """Short identity of a failing (input, clause) used to compare a run with BASELINE."""
    lab = label.split(":", 1)[1]
    if "round trip" in target:
        return f"{lab}|{argvals['carrier']}|{argvals['value']!r}"
    if target == "odfdo.toc:TOC.fill":
        return lab
    return f"{lab}|{argvals['entry']}"


_TRUE_FALSE = ("'true'", "'false'")
BASELINE = {      # what fails on the unchanged tree (all of it is listed in FINDINGS)
    "odfdo.cell:Cell typed value round trip": {
        f"{st}_str|{c}|{v}" for v in _TRUE_FALSE for c, stages in (
            ("Cell(value)", ("direct", "reparse")), ("Row.set_value", ("direct", "reparse", "reopen")),
            ("Table.set_value", ("direct", "reparse", "reopen"))) for st in stages},
    "odfdo.variable:VarSet/UserFieldDecl/UserDefined typed value round trip": {
        f"{st}_str|{c}|{v}" for v in _TRUE_FALSE for c in ("VarSet", "UserFieldDecl", "UserDefined")
        for st in ("direct", "reparse", "reopen")},
    "odfdo.meta:Meta.set_user_defined_metadata typed value round trip": set(),
    "odfdo.toc:TOC.fill": {"entry_text", "fill_runs"},
    "odfdo.document:read-only entry points": {"unchanged|to_markdown", "unchanged|get_variable_decls",
                                              "unchanged|get_user_field_decls"},
}

_W_HEAD = 'import sys\nsys.path.insert(0, "/repo/src")\n'
FINDINGS = [
    dict(
        property="C06", target="odfdo.element_typed:ElementTyped._get_typed_value",
        clause="ensures:direct_str (also reparse_str, reopen_str)",
        what_fails="the strings 'true' and 'false' stored in a cell, a variable, a user field or a user-defined field "
                   "read back as 'True' / 'False': _get_typed_value reads office:string-value with get_attribute(), "
                   "which turns the literals true/false into a bool, then str() of it.  Reached by Cell.get_value, "
                   "Row.get_value, Table.get_value, VarSet/UserFieldDecl/UserDefined.get_value and the Body "
                   "get_variable_set_value / get_user_field_value / get_user_defined_value getters (Cell.value is "
                   "right).  Smallest input: Table.set_value((0,0), 'true').  Fix (1 line, element_typed.py string "
                   "branch): value = self.get_attribute_string(\"office:string-value\")",
        witness=_W_HEAD + 'from odfdo import Table\nt = Table("t")\nt.set_value((0, 0), "true")\n'
                          'got = t.get_value((0, 0))\nprint(repr(got))\nREPRODUCED = got != "true"\n'),
    dict(
        property="C06", target="odfdo.meta:Meta.set_user_defined_metadata",
        clause="ensures:direct_datetime (also reparse_, reopen_, lexical_datetime)",
        status="reproduced at the start of this session (stored datetime(2024,1,2,3,4,5,999999,+05:30) read back "
               "datetime(2024,1,2,0,0)); /repo was fixed meanwhile (commit 'fix: Meta.set_user_defined_metadata keeps "
               "the time of datetime values'), so the witness now sets REPRODUCED=False; restoring the old order of "
               "the isinstance tests is caught (47 of 48 datetimes, every stage + lexical)",
        what_fails="isinstance(value, date) tested before isinstance(value, datetime): a datetime was written as an "
                   "xsd:date and read back at midnight.  Smallest input: datetime(1970,1,1,0,0,0,1).  Fix: swap the "
                   "two branches (already applied in the tree)",
        witness=_W_HEAD + 'from datetime import datetime\nfrom odfdo import Document\nm = Document("text").meta\n'
                          'v = datetime(2024, 1, 2, 3, 4, 5)\nm.set_user_defined_metadata("k", v)\n'
                          'got = m.get_user_defined_metadata()["k"]\nprint(got)\nREPRODUCED = got != v\n'),
    dict(
        property="C20", target="odfdo.toc:TOC.fill", clause="ensures:entry_text",
        what_fails="every TOC entry ends with a text:line-break: the entry is built with f\"{number_str} {header}\" and "
                   "str(header) is Paragraph.__str__ = inner_text + '\\n'; the entry is not 'number, space, heading "
                   "text and nothing else' (3682 of 3682 quick-tier documents with at least one listed heading).  Smallest input: "
                   "one level-1 heading 'One'.  Fix (1 line, toc.py fill): Paragraph(f\"{number_str} {header.inner_text}\")",
        witness=_W_HEAD + 'from odfdo import TOC, Document, Header\ndoc = Document("text")\ndoc.body.clear()\n'
                          'doc.body.append(Header(1, "One"))\ntoc = TOC()\ndoc.body.append(toc)\ntoc.fill()\n'
                          'raw = toc._Element__element\n'
                          'T = "{urn:oasis:names:tc:opendocument:xmlns:text:1.0}"\n'
                          'entry = [p for p in raw.iter(T + "p") if p.getparent().tag == T + "index-body"][0]\n'
                          'print(entry.text, [c.tag for c in entry])\n'
                          'REPRODUCED = [c.tag for c in entry] == [T + "line-break"] and entry.text == "1. One"\n'),
    dict(
        property="C20", target="odfdo.toc:TOC.fill", clause="ensures:fill_runs",
        what_fails="a TOC created without a title (TOC(title=''), a case the constructor provides for) has no "
                   "text:index-body and fill() raises AttributeError: 'NoneType' object has no attribute "
                   "'get_element' instead of listing the headings.  Smallest input: empty document.  Fix (2 lines, "
                   "toc.py fill): title = index_body.get_element(\"text:index-title\") if index_body is not None else None",
        witness=_W_HEAD + 'from odfdo import TOC, Document, Header\ndoc = Document("text")\ndoc.body.clear()\n'
                          'doc.body.append(Header(1, "One"))\ntoc = TOC(title="")\ndoc.body.append(toc)\n'
                          'try:\n    toc.fill()\n    REPRODUCED = False\nexcept AttributeError as e:\n'
                          '    print(e)\n    REPRODUCED = True\n'),
    dict(
        property="C15", target="odfdo.mixin_md:MDTable._md_format (Document.to_markdown)", clause="ensures:unchanged",
        what_fails="root cause 'export edits the live table': MDTable._md_format calls self.optimize_width(), which "
                   "deletes trailing empty rows / cells of the table in the document.  Entry point: Document.to_markdown "
                   "(the only public one; Table has no public Markdown method).  Smallest input: text document with a "
                   "2x3 table whose last two rows are empty.  Fix (2 lines at the top of MDTable._md_format): "
                   "if self.parent is not None: return self.clone._md_format(post_styler)",
        witness=_W_HEAD + 'from lxml import etree\nfrom odfdo import Document, Table\ndoc = Document("text")\n'
                          'doc.body.clear()\nt = Table("T", width=2, height=3)\nt.set_value((0, 0), "a")\n'
                          'doc.body.append(t)\nraw = doc.body._Element__element\nbefore = etree.tostring(raw)\n'
                          'doc.to_markdown()\nafter = etree.tostring(raw)\n'
                          'print(before.count(b"<table:table-row"), "->", after.count(b"<table:table-row"))\n'
                          'REPRODUCED = before != after\n'),
    dict(
        property="C15", target="odfdo.element:Element.get_variable_decls / Element.get_user_field_decls",
        clause="ensures:unchanged",
        what_fails="root cause 'getter creates on demand' (documented: 'Created if not found'): both insert an empty "
                   "text:variable-decls / text:user-field-decls as first child of the document body when absent.  Entry "
                   "points: get_variable_decls and get_user_field_decls on every Element receiver (Body, Paragraph, "
                   "Header, Span, Table, Row, Cell, Frame, List, TOC): 50 (document, receiver) pairs in the quick tier.  "
                   "Smallest input: Document('text').body.get_variable_decls().  No 1-5 line fix without changing the "
                   "documented behaviour (the setters rely on the creation)",
        witness=_W_HEAD + 'from lxml import etree\nfrom odfdo import Document\ndoc = Document("text")\n'
                          'raw = doc.body._Element__element\nbefore = etree.tostring(raw)\n'
                          'doc.body.get_variable_decls()\ndoc.body.get_user_field_decls()\n'
                          'after = etree.tostring(raw)\nREPRODUCED = before != after\n'),
]
OBSERVATIONS = [
    "C06: a timedelta with microseconds is truncated to whole seconds by Duration.encode (outside the property's "
    "domain of whole seconds; not checked as a violation)",
    "C06: Meta.get_user_defined_metadata returns an int as the equal Decimal (documented meta number type) and 3.0 as "
    "Decimal('3.0'); the cell / field carriers return int for integral numbers",
    "C06: on Python >= 3.11 Date.decode and DateTime.decode are both datetime.fromisoformat, so removing the `\"T\" in` "
    "test of Cell.value is an equivalent change on this interpreter",
    "C20: the numbers shown depend on the outline level when an excluded deeper heading precedes the first shallower "
    "one (levels (3,1): outline 0 -> '1.1.1.', '2.'; outline 1 -> '1.'), because phantom levels are counted only "
    "over the listed headings; TOC and odfdo-headers agree with each other",
]


def _main(argv):
    """Run the contracts of this module and compare the failures with BASELINE:  python -m specs.b_values [--thorough]
    [--target s] [--witnesses]"""
    import os
    import sys
    import time
    repo = os.environ.get("PYVC_REPO", "/repo")
    sys.path.insert(0, os.path.join(repo, "src"))
    from pyvc import native
    from pyvc.spec import REGISTRY
    if "--witnesses" in argv:
        for f in FINDINGS:
            env = {}
            exec(f["witness"].replace('"/repo/src"', repr(os.path.join(repo, "src"))), env)  # noqa: S102
            print(f"{f['property']} {f['target']} {f['clause']}: REPRODUCED={env['REPRODUCED']}")
        return 0
    count = 8000 if "--thorough" in argv else 200
    only = argv[argv.index("--target") + 1] if "--target" in argv else None
    bad = 0
    for target, con in REGISTRY.items():
        if con.bounded is None or target not in BASELINE or (only and only not in target):
            continue
        t0, n, seen = time.time(), 0, {}
        for argvals in native.sample_inputs(con, con.sig, count, seed=0):
            nr = native.native_eval(con, argvals)
            if not nr.in_domain:
                continue
            n += 1
            for lab, detail in nr.failures:
                seen.setdefault(failure_key(target, argvals, lab), []).append(detail)
        new = {k: v for k, v in seen.items() if k not in BASELINE[target]}
        gone = sorted(BASELINE[target] - set(seen))
        print(f"{target}: {n} evaluations in {time.time() - t0:.1f}s; baseline failures seen "
              f"{len(set(seen) & BASELINE[target])}/{len(BASELINE[target])}; NEW failure keys: {len(new)}")
        for k, v in sorted(new.items())[:12]:
            bad += 1
            print(f"   NEW {k}: {len(v)} inputs; first: {v[0][:260]}")
        if gone and count > 200:      # the quick tier does not run every reopen stage
            print(f"   baseline keys that no longer fail (fixed?): {gone}")
    return 1 if bad else 0


if __name__ == "__main__":
    import sys as _sys
    _sys.exit(_main(_sys.argv[1:]))
