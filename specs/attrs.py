"""Attribute machinery verified against the raw lxml attribute model (C12 C06 C07 C05):
Element.get/set/del_attribute, the PropDef generic properties, the three repeat attributes,
and text:s (Spacer).  Only lxml's `_Element.get/.set/.attrib` are assumed."""
import z3

from pyvc.attrmodel import ABSENT
from pyvc.engine import ObjV, OptIntV
from pyvc.lxmlmodel import ELEM, ElemView, elem_maker, new_node
from pyvc.spec import (Bool, Clause, Const, Int, Lemma, Model, NoneT, OneOf, OptInt, OptStr, S, Str, contract)


def _h_element_init(en, con, vals, site):
    obj = vals["self"]
    kw = vals.get("kwargs") or {}
    te = kw.get("tag_or_elem")
    if te is None:
        obj.fields["_do_init"] = True
        obj.fields["_Element__element"] = new_node({})
        obj.fields["__fresh"] = True
    else:
        obj.fields["_do_init"] = False
        obj.fields["_Element__element"] = te
    return None


contract("odfdo.element:Element.__init__", call=_h_element_init, trusted=True, sig={},
         note="creates the lxml node (make_etree_element: lxml fromstring) or wraps the given one")


def _lx(q):
    from odfdo.element import _get_lxml_tag_or_name
    return _get_lxml_tag_or_name(q)


def _elem(cls_path="odfdo.element:Element", attrs=None):
    import importlib
    m, c = cls_path.split(":")
    cls = getattr(importlib.import_module(m), c)
    return Model(c, elem_maker, cls=cls, attrs=attrs)


NAMES = ["text:c", "office:value-type", "table:number-columns-repeated", "text:style-name"]
P_ATTR = {"C12", "C06"}


def _enc(value):
    """what set_attribute must store for a value (str as is, bool as true/false)"""
    if isinstance(value, z3.ExprRef) and z3.is_bool(value):
        return z3.If(value, z3.StringVal("true"), z3.StringVal("false"))
    if isinstance(value, bool):
        return "true" if value else "false"
    return value


contract(
    "odfdo.element:Element.set_attribute",
    sig=[dict(self=_elem(), name=Const(n), value=t) for n in NAMES for t in (Str, Bool, NoneT)],
    ensures=[Clause("stored", P_ATTR, lambda a, r, p: p.self.absent(a.name) if a.value is None
                    else p.self.equals(a.name, _enc(a.value)))],
    note="non-colour attribute names (colour properties go through hexa_color: C18)",
)


def _get_post(a, r, p):
    v = a.self.value(a.name)
    if v is ABSENT:
        return r is None
    # a str attribute reads back as itself, except the two boolean literals which read back as bool
    if isinstance(r, bool):
        return S.eq(v, "true") if r else S.eq(v, "false")
    if isinstance(r, z3.ExprRef) and z3.is_bool(r):
        return z3.If(r, S.eq(v, "true"), S.eq(v, "false"))
    if r is None:
        return False
    return S.And(S.eq(r, v), S.Not(S.eq(v, "true")), S.Not(S.eq(v, "false")))


contract(
    "odfdo.element:Element.get_attribute",
    sig=[dict(self=_elem(attrs={_lx(n): av}), name=Const(n)) for n in NAMES for av in (ABSENT, z3.String("attr.value"))],
    ensures=[Clause("read", P_ATTR, _get_post),
             Clause("frame", {"C15"}, lambda a, r, p: S.same_or_eq(p.self.value(a.name), a.self.value(a.name))
                    if a.self.value(a.name) is not ABSENT else p.self.absent(a.name))],
)

contract(
    "odfdo.element:Element.get_attribute_string",
    sig=[dict(self=_elem(attrs={_lx(n): av}), name=Const(n)) for n in NAMES for av in (ABSENT, z3.String("attr.value"))],
    ensures=[Clause("read", P_ATTR, lambda a, r, p: (r is None) if a.self.value(a.name) is ABSENT
                    else (r is not None and S.eq(r, a.self.value(a.name))))],
)

contract(
    "odfdo.element:Element.del_attribute",
    sig=[dict(self=_elem(attrs={_lx(n): av}), name=Const(n)) for n in NAMES for av in (ABSENT, z3.String("attr.value"))],
    raises={KeyError: lambda a: a.self.value(a.name) is ABSENT},
    ensures=[Clause("deleted", P_ATTR, lambda a, r, p: p.self.absent(a.name))],
)


# ------------------------------------------------------------------ repeat attributes (C07)
REP = {"odfdo.cell:Cell": "table:number-columns-repeated", "odfdo.row:Row": "table:number-rows-repeated",
       "odfdo.table:Column": "table:number-columns-repeated"}


def _canon(n):
    """canonical decimal of an int >= 2"""
    if isinstance(n, z3.ExprRef):
        return z3.IntToStr(n)
    return str(n)


import specs.datatypes  # noqa: F401,E402
import specs.vault  # noqa: F401,E402  (the vault-level hooks of the same functions)
from pyvc.spec import REGISTRY  # noqa: E402

AV_REP = z3.String("attr.text")            # the attribute text: a canonical decimal ...
N_REP = z3.StrToInt(AV_REP)                 # ... whose value is N_REP
CANON = z3.Concat(z3.Range("1", "9"), z3.Star(z3.Range("0", "9")))


def _set_rep_post(attr):
    def post(a, r, p):
        n = a.repeated
        if n is None:
            return p.self.absent(attr)
        return S.If(n < 2, lambda: p.self.absent(attr), lambda: p.self.equals(attr, _canon(n)))
    return post


def _get_rep_post(attr):
    def post(a, r, p):
        if a.self.value(attr) is ABSENT:
            return r is None
        return r is not None and S.eq(r, N_REP)
    return post


for _cls, _attr in REP.items():
    _m, _c = _cls.split(":")
    c = REGISTRY[_cls + "._set_repeated"]
    c.trusted = False
    c.sigs = [dict(self=_elem(_cls), repeated=OptInt)]
    c.sig = c.sigs[0]
    c.ensures = [Clause("attr", {"C07"}, _set_rep_post(_attr))]
    c.props |= {"C07"}
    c.inline = {"odfdo.element:Element.set_attribute", "odfdo.element:Element.del_attribute"}
    c.note = ("body verified against the lxml attribute model: afterwards the repeat attribute is absent or the "
              "canonical decimal of an int >= 2; callers use the abstraction rep := n if n >= 2 else 1")
    g = REGISTRY[_cls + ".repeated"]
    g.trusted = False
    g.sigs = [dict(self=_elem(_cls, attrs={_lx(_attr): ABSENT})),
              dict(self=_elem(_cls, attrs={_lx(_attr): AV_REP}))]
    g.sig = g.sigs[0]
    g.requires = lambda a: z3.And(z3.InRe(AV_REP, CANON), N_REP >= 2)
    g.ensures = [Clause("attr", {"C07"}, _get_rep_post(_attr))]
    g.props |= {"C07"}
    g.inline = {"odfdo.element:Element.get_attribute"}
    g.note = "body verified against the lxml attribute model for a well-formed attribute (absent or canonical int >= 2)"


# ------------------------------------------------------------------ text:s (C05)
SP = "odfdo.paragraph_base:Spacer"


def _spacer_init_post(a, r, p):
    n = a.number
    if n is None:
        return p.self.absent("text:c")
    return S.If(n < 2, lambda: p.self.absent("text:c"), lambda: p.self.equals("text:c", _canon(n)))


contract(
    SP + ".__init__",
    sig=dict(self=_elem(SP), number=OptInt),
    ensures=[Clause("count-attr", {"C05", "C12"}, _spacer_init_post)],
    inline={"odfdo.element:Element.set_attribute", "odfdo.element:Element.del_attribute"},
    note="text:c written only for counts >= 2 (one space is the element itself)",
)

contract(
    SP + ".length",
    sig=[dict(self=_elem(SP, attrs={_lx("text:c"): ABSENT})), dict(self=_elem(SP, attrs={_lx("text:c"): AV_REP}))],
    requires=lambda a: z3.And(z3.InRe(AV_REP, CANON), N_REP >= 2),
    ensures=[Clause("length", {"C05"}, lambda a, r, p: S.eq(r, 1) if a.self.value("text:c") is ABSENT else S.eq(r, N_REP))],
    result=Int,
)

contract(
    SP + ".text",
    sig=[dict(self=_elem(SP, attrs={_lx("text:c"): ABSENT})), dict(self=_elem(SP, attrs={_lx("text:c"): AV_REP}))],
    requires=lambda a: z3.And(z3.InRe(AV_REP, CANON), N_REP >= 2),
    inline={SP + ".length"},
    ensures=[Clause("spaces", {"C05"}, lambda a, r, p: S.And(
        S.len(r) == (1 if a.self.value("text:c") is ABSENT else N_REP),
        S.all_chars(r, lambda c: c == 32, lambda c: c == 32)))],
    result=Str,
)
