"""Contracts for datatype.py and utils/color.py (C18; used by C06).

Lexical forms are written independently of the code, from the ODF / XML-Schema definitions:
  boolean  true|false                      colour  #[0-9A-Fa-f]{6}
  duration (the subset odfdo writes)  -?PT\\d{2,}H\\d{2}M\\d{2}S
"""
from datetime import date, datetime, timedelta

import z3

from pyvc.engine import MethodHook, OpaqueV
from pyvc.spec import (Axiom, Bool, Clause, Const, Int, Inv, Lemma, NoneT, OneOf, Opaque, S, Str, TupleOf,
                       contract)

P18 = {"C18"}
HEXD = z3.Union(z3.Range("0", "9"), z3.Range("a", "f"), z3.Range("A", "F"))
RE_COLOR = z3.Concat(z3.Re("#"), HEXD, HEXD, HEXD, HEXD, HEXD, HEXD)
PY_COLOR = r"#[0-9A-Fa-f]{6}"


def is_ascii(s):
    return S.all_chars(s, lambda c: c <= 127, lambda c: c <= 127)


# --------------------------------------------------------------------- hex pairs (spec functions)
def hv(c):
    """value of one hex digit (one-character z3 string); -1 outside"""
    code = z3.StrToCode(c)
    return z3.If(z3.And(code >= 48, code <= 57), code - 48,
                 z3.If(z3.And(code >= 65, code <= 70), code - 55,
                       z3.If(z3.And(code >= 97, code <= 102), code - 87, z3.IntVal(-1))))


def pair_val(s, off):
    """value of the two hex digits of s at offset off"""
    if isinstance(s, z3.ExprRef):
        return 16 * hv(z3.SubString(s, off, 1)) + hv(z3.SubString(s, off + 1, 1))
    return int(s[off:off + 2], 16)


def in_color_form(s):
    """#[0-9A-Fa-f]{6}, stated character-wise for the solver; natively the regular expression"""
    if isinstance(s, z3.ExprRef):
        return z3.And(z3.Length(s) == 7, z3.SubString(s, 0, 1) == z3.StringVal("#"),
                      *[hv(z3.SubString(s, k, 1)) >= 0 for k in range(1, 7)])
    import re
    return re.fullmatch(PY_COLOR, s) is not None


# --------------------------------------------------------------------- hex2rgb
contract(
    "odfdo.utils.color:hex2rgb",
    sig=dict(color=Str.of(pool=["", "#", "#000000", "#FFFFFF", "#ffffff", "#12aBcF", "#GGGGGG", "#12345", "#1234567",
                                "1234567", "#12 456", "#+1+2+3", "#-1-2-3", "#１２３４５６", "#0x0x0x", "#1_1_1_",
                                "#٠١٢٣٤٥", "#ｆｆｆｆｆｆ",
                                # forms Python's int(s, 16) accepts on a whole string but not per channel
                                "#0x1234", "#0XFFFF", "#0xabcd", "#00x123", "#0b1010", "#0o1234", "#1_2345",
                                "#12345z", "#x12345", "#00000g"])),
    raises={ValueError: lambda a: S.Not(in_color_form(a.color))},
    ensures=[Clause("channels", P18 | {"C06"}, lambda a, r, p: S.And(
        r[0] == pair_val(a.color, 1), r[1] == pair_val(a.color, 3), r[2] == pair_val(a.color, 5),
        0 <= r[0], r[0] <= 255, 0 <= r[1], r[1] <= 255, 0 <= r[2], r[2] <= 255))],
    result=TupleOf(Int, Int, Int),
    note="rejection clause: every string outside #[0-9A-Fa-f]{6} must raise ValueError",
)


# --------------------------------------------------------------------- rgb2hex (tuple form)
def hex2(v):
    """'%02X' of 0..255 (independent spec: table lookup of the two nibbles)"""
    if isinstance(v, z3.ExprRef):
        digits = "0123456789ABCDEF"

        def dig(d):
            r = z3.StringVal("F")
            for k in range(14, -1, -1):
                r = z3.If(d == k, z3.StringVal(digits[k]), r)
            return r
        return z3.Concat(dig(v / 16), dig(v % 16))
    return "0123456789ABCDEF"[v // 16] + "0123456789ABCDEF"[v % 16]


def _in_byte(x):
    return S.And(0 <= x, x <= 255)


contract(
    "odfdo.utils.color:rgb2hex",
    sig=dict(color=TupleOf(Int.of([-1, 0, 1, 15, 16, 127, 128, 254, 255, 256]),
                           Int.of([-1, 0, 1, 15, 16, 127, 128, 254, 255, 256]),
                           Int.of([-1, 0, 1, 15, 16, 127, 128, 254, 255, 256]))),
    raises={ValueError: lambda a: S.Not(S.And(_in_byte(a.color[0]), _in_byte(a.color[1]), _in_byte(a.color[2])))},
    ensures=[
        Clause("text", P18, lambda a, r, p: S.eq(r, S.concat("#", hex2(a.color[0]), hex2(a.color[1]), hex2(a.color[2])))),
    ],
    result=Str,
)


def _color_roundtrip():
    x = z3.Int("x!c")
    s = hex2(x)
    parts = []
    # (1) hex pair round trip: value of the two digits written for x is x, for every byte
    parts.append(("pair", [0 <= x, x <= 255], 16 * hv(z3.SubString(s, 0, 1)) + hv(z3.SubString(s, 1, 1)) == x))
    parts.append(("pair-shape", [0 <= x, x <= 255], z3.And(
        z3.Length(s) == 2, hv(z3.SubString(s, 0, 1)) >= 0, hv(z3.SubString(s, 1, 1)) >= 0)))
    # (2) layout of "#" ++ p ++ q ++ t for two-character p, q, t (pure string reasoning)
    p_, q_, t_ = z3.String("p!c"), z3.String("q!c"), z3.String("t!c")
    txt = z3.Concat(z3.StringVal("#"), p_, q_, t_)
    two = [z3.Length(p_) == 2, z3.Length(q_) == 2, z3.Length(t_) == 2]
    layout = z3.And(
        z3.Length(txt) == 7, z3.SubString(txt, 0, 1) == z3.StringVal("#"),
        z3.SubString(txt, 1, 1) == z3.SubString(p_, 0, 1), z3.SubString(txt, 2, 1) == z3.SubString(p_, 1, 1),
        z3.SubString(txt, 3, 1) == z3.SubString(q_, 0, 1), z3.SubString(txt, 4, 1) == z3.SubString(q_, 1, 1),
        z3.SubString(txt, 5, 1) == z3.SubString(t_, 0, 1), z3.SubString(txt, 6, 1) == z3.SubString(t_, 1, 1))
    parts.append(("layout", two, layout))
    # (3) composition hex2rgb(rgb2hex((r,g,b))) == (r,g,b): from (1) at r,g,b and (2) at p=hex2(r)...
    def pv(u):
        return 16 * hv(z3.SubString(u, 0, 1)) + hv(z3.SubString(u, 1, 1))
    r, g, b = z3.Int("r!c"), z3.Int("g!c"), z3.Int("b!c")
    hyp = two + [layout, pv(p_) == r, pv(q_) == g, pv(t_) == b,
                 hv(z3.SubString(p_, 0, 1)) >= 0, hv(z3.SubString(p_, 1, 1)) >= 0,
                 hv(z3.SubString(q_, 0, 1)) >= 0, hv(z3.SubString(q_, 1, 1)) >= 0,
                 hv(z3.SubString(t_, 0, 1)) >= 0, hv(z3.SubString(t_, 1, 1)) >= 0]
    parts.append(("compose", hyp, z3.And(pair_val(txt, 1) == r, pair_val(txt, 3) == g, pair_val(txt, 5) == b)))
    # (4) lexical form: 7 characters, '#', six hex digits (character-wise statement of #[0-9A-Fa-f]{6})
    parts.append(("lexical", hyp, z3.And(*[hv(z3.SubString(txt, k, 1)) >= 0 for k in range(1, 7)])))
    return parts


Lemma("colour-roundtrip", P18, _color_roundtrip,
      note="hex2rgb(rgb2hex(t)) = t for all 0..255^3 and rgb2hex's text is in #RRGGBB form, from the contracts")


# --------------------------------------------------------------------- Boolean
contract(
    "odfdo.datatype:Boolean.decode",
    sig=dict(data=Str.of(pool=["true", "false", "", "True", "TRUE", "1", "0", " true", "false ", "yes"])),
    raises={ValueError: lambda a: S.Not(S.Or(S.eq(a.data, "true"), S.eq(a.data, "false")))},
    ensures=[Clause("value", P18 | {"C06"}, lambda a, r, p: S.Iff(r, S.eq(a.data, "true")))],
    result=Bool,
)

contract(
    "odfdo.datatype:Boolean.encode",
    sig=dict(value=Bool),
    ensures=[Clause("text", P18 | {"C06"}, lambda a, r, p: S.eq(r, S.If(a.value, "true", "false")))],
    result=Str,
)


def _bool_roundtrip():
    b, s, r = z3.Bool("b!b"), z3.String("s!b"), z3.Bool("r!b")
    enc = s == z3.If(b, z3.StringVal("true"), z3.StringVal("false"))
    dec_ok = z3.Or(s == "true", s == "false")
    dec = r == (s == z3.StringVal("true"))
    return [("no-reject", [enc], dec_ok), ("compose", [enc, dec], r == b)]


Lemma("boolean-roundtrip", P18 | {"C06"}, _bool_roundtrip)


# --------------------------------------------------------------------- Duration.encode
def _td(pool_days=None):
    return Opaque(
        timedelta,
        days=Int.of(pool_days or [-999999999, -366, -2, -1, 0, 1, 2, 30, 365, 3650, 999999999]),
        seconds=Int.of([0, 1, 59, 60, 61, 3599, 3600, 3601, 86399]),
        microseconds=Int.of([0]),
    )


def _dur_fields(v):
    if isinstance(v, OpaqueV):
        return v.fields["days"], v.fields["seconds"], v.fields["microseconds"]
    return v.days, v.seconds, v.microseconds


def pad2(x):
    if isinstance(x, z3.ExprRef):
        s = z3.IntToStr(x)
        return z3.If(x < 10, z3.Concat(z3.StringVal("0"), s), s)
    return "%02d" % x


def _dur_text(a, r, p):
    d, s, us = _dur_fields(a.value)
    total = d * 86400 + s
    neg = d < 0
    mag = S.If(neg, -total, total)
    if isinstance(mag, z3.ExprRef):
        h, m, sec = mag / 3600, (mag % 3600) / 60, mag % 60
    else:
        h, m, sec = mag // 3600, (mag % 3600) // 60, mag % 60
    body = S.concat("PT", pad2(h), "H", pad2(m), "M", pad2(sec), "S")
    return S.eq(r, S.If(neg, lambda: S.concat("-", body), body))


def _td_valid(a):
    d, s, us = _dur_fields(a.value)
    return S.And(-999999999 <= d, d <= 999999999, 0 <= s, s < 86400, us == 0)


def _concretize_td(con, sigcase, model):
    from pyvc.native import model_value
    return {"value": timedelta(days=model_value(model, z3.Int("value.days"), 0),
                               seconds=model_value(model, z3.Int("value.seconds"), 0),
                               microseconds=model_value(model, z3.Int("value.microseconds"), 0))}


def _gen_td(con, sigcase, count, seed):
    import random
    rnd = random.Random(seed)
    t = sigcase["value"]
    for d in t.fields["days"].pool:
        for s in t.fields["seconds"].pool:
            yield {"value": timedelta(days=d, seconds=s)}
    for _ in range(count):
        yield {"value": timedelta(days=rnd.randint(-4000, 4000), seconds=rnd.randint(0, 86399))}


contract(
    "odfdo.datatype:Duration.encode",
    sig=dict(value=_td()),
    requires=_td_valid,
    ensures=[Clause("text", P18 | {"C06"}, _dur_text)],
    result=Str,
    concretize=_concretize_td,
    gen=_gen_td, prefer="cvc5",
    note="whole-second timedeltas (microseconds == 0) in the full timedelta range; float quotients modelled "
         "with the IEEE-754 relative-error bound",
)


# --------------------------------------------------------------------- bounded stand-ins (never counted as proved)
# Duration.decode: a character loop with a digit buffer; Date / DateTime: glue over datetime.isoformat /
# fromisoformat (assumed stdlib).  The same contract shape (raises / ensures lambdas) is evaluated
# natively over a stated finite scope.
import itertools as _it
import re as _re

PY_DURATION = r"-?P(\d+D)?(T(\d+H)?(\d+M)?(\d+S)?)?"      # what Duration.decode can mean something for


def _dur_value(s):
    m = _re.fullmatch(r"(-?)P(?:(\d+)D)?(?:T(?:(\d+)H)?(?:(\d+)M)?(?:(\d+)S)?)?", s)
    sign = -1 if m.group(1) else 1
    d, h, mi, sec = (int(g) if g else 0 for g in m.groups()[1:])
    return timedelta(days=sign * d, hours=sign * h, minutes=sign * mi, seconds=sign * sec)


def _in_dur_form(s):
    return _re.fullmatch(PY_DURATION, s) is not None and any(ch.isdigit() for ch in s)


def _gen_dur_strings(con, sigcase, count, seed):
    alpha = "-PT1DHMS.Y"
    for n in range(0, 5 if count <= 200 else 7):
        for tup in _it.product(alpha, repeat=n):
            yield {"data": "".join(tup)}
    for s in ["PT00H00M00S", "-PT01H02M03S", "PT100H00M00S", "P1DT2H3M4S", "P1Y2M", "PT1.5S", "P", "-P", "PT",
              "PT5S garbage", "P2D", "PT36H", "-P3DT4S", "PT1H1H", "PT1S2M", "１PT1S", "PT١S"]:
        yield {"data": s}


contract(
    "odfdo.datatype:Duration.decode",
    sig=dict(data=Str),
    raises={ValueError: lambda a: not _in_dur_form(a.data)}, raises_props={"C18"},
    ensures=[Clause("value", P18 | {"C06"}, lambda a, r, p: r == _dur_value(a.data),
                    when=lambda a: _in_dur_form(a.data))],
    gen=_gen_dur_strings,
    bounded=dict(scope="all strings over the alphabet '-PT1DHMS.Y' up to length 4 (quick) / 6 (thorough) plus 17 "
                       "hand-picked forms", reason="character loop with a string digit buffer: outside the executor's "
                       "string fragment (int(buffer) over a symbolic-length buffer)"),
)


def _gen_td_roundtrip(con, sigcase, count, seed):
    import random
    rnd = random.Random(seed)
    for d in [-999999999, -366, -2, -1, 0, 1, 2, 30, 365, 3650, 999999999]:
        for s in [0, 1, 59, 60, 61, 3599, 3600, 3601, 86399]:
            yield {"value": timedelta(days=d, seconds=s)}
    for _ in range(count * 4):
        yield {"value": timedelta(days=rnd.randint(-40000, 40000), seconds=rnd.randint(0, 86399))}


def _call_dur_roundtrip(con, fn, argvals, labels):
    from odfdo.datatype import Duration
    from pyvc.native import NativeResult
    res = NativeResult()
    v = argvals["value"]
    res.checked = 2
    try:
        txt = Duration.encode(v)
        back = Duration.decode(txt)
    except Exception as e:  # noqa
        res.failures.append(("ensures:roundtrip", f"raised {e!r}"))
        return res
    res.outcome = f"{txt!r} -> {back!r}"
    if back != v:
        res.failures.append(("ensures:roundtrip", f"decode(encode(v)) = {back!r} != {v!r}"))
    if not _re.fullmatch(r"-?PT\d{2,}H\d{2}M\d{2}S", txt):
        res.failures.append(("ensures:lexical", f"{txt!r} is not in the xsd:duration form written by odfdo"))
    return res


contract(
    "odfdo.datatype:Duration",          # composition decode(encode(v)) on concrete values
    sig=dict(value=_td()),
    ensures=[Clause("roundtrip", P18 | {"C06"}, lambda a, r, p: True)],
    gen=_gen_td_roundtrip, call_native=_call_dur_roundtrip,
    bounded=dict(scope="boundary lattice days x seconds (99 values) plus random whole-second timedeltas "
                       "(200 quick / 8000 thorough)", reason="composition through the bounded Duration.decode"),
)


def _dt_lattice():
    from datetime import timezone
    tzs = [None, timezone.utc, timezone(timedelta(hours=14)), timezone(-timedelta(hours=14)),
           timezone(timedelta(hours=5, minutes=30)), timezone(timedelta(0), "Z")]
    for y in (1, 1970, 2024, 9999):
        for mo, d in ((1, 1), (2, 28), (12, 31)):
            for h, mi, s in ((0, 0, 0), (23, 59, 59), (12, 30, 15)):
                for us in (0, 1, 999999, 500000):
                    for tz in tzs:
                        yield datetime(y, mo, d, h, mi, s, us, tzinfo=tz)


def _gen_dt(con, sigcase, count, seed):
    import random
    from datetime import timezone
    rnd = random.Random(seed)
    for v in _dt_lattice():
        yield {"value": v}
    for _ in range(count * 2):
        tz = rnd.choice([None, timezone.utc, timezone(timedelta(minutes=rnd.randint(-14 * 60, 14 * 60)))])
        yield {"value": datetime(rnd.randint(1, 9999), rnd.randint(1, 12), rnd.randint(1, 28), rnd.randint(0, 23),
                                 rnd.randint(0, 59), rnd.randint(0, 59), rnd.choice([0, rnd.randint(0, 999999)]),
                                 tzinfo=tz)}


RE_XSD_DATETIME = r"\d{4}-\d{2}-\d{2}T\d{2}:\d{2}:\d{2}(\.\d+)?(Z|[+-]\d{2}:\d{2})?"
RE_XSD_DATE = r"\d{4}-\d{2}-\d{2}"


def _call_dt_roundtrip(con, fn, argvals, labels):
    from odfdo.datatype import Date, DateTime
    from pyvc.native import NativeResult
    res = NativeResult()
    v = argvals["value"]
    res.checked = 4
    try:
        txt = DateTime.encode(v)
        back = DateTime.decode(txt)
        dtxt = Date.encode(v)
        dback = Date.decode(dtxt)
        d2 = Date.decode(Date.encode(v.date()))
    except Exception as e:  # noqa
        res.failures.append(("ensures:roundtrip", f"raised {e!r}"))
        return res
    res.outcome = f"{txt!r} / {dtxt!r}"
    if back != v or back.utcoffset() != v.utcoffset():
        res.failures.append(("ensures:roundtrip", f"DateTime.decode(encode(v)) = {back!r} != {v!r}"))
    if not _re.fullmatch(RE_XSD_DATETIME, txt):
        res.failures.append(("ensures:lexical", f"{txt!r} not in xsd:dateTime lexical form"))
    if dback != datetime(v.year, v.month, v.day) or d2 != dback:
        res.failures.append(("ensures:roundtrip", f"Date.decode(encode(v)) = {dback!r}"))
    if not _re.fullmatch(RE_XSD_DATE, dtxt):
        res.failures.append(("ensures:lexical", f"{dtxt!r} not in xsd:date lexical form"))
    return res


contract(
    "odfdo.datatype:DateTime",
    sig=dict(value=Opaque(datetime)),
    ensures=[Clause("roundtrip", P18 | {"C06"}, lambda a, r, p: True)],
    gen=_gen_dt, call_native=_call_dt_roundtrip,
    bounded=dict(scope="boundary lattice years {1,1970,2024,9999} x 3 days x 3 times x 4 microsecond values x 6 "
                       "time zones (2592 values) plus random datetimes",
                 reason="datetime.isoformat / fromisoformat are stdlib (assumed); only the glue is odfdo's"),
)


def _gen_names(con, sigcase, count, seed):
    from odfdo.const import CSS3_COLORMAP
    for name in CSS3_COLORMAP:
        yield {"color": name}
        yield {"color": name.upper()}
        yield {"color": "  " + name + " "}


def _call_names(con, fn, argvals, labels):
    from odfdo.const import CSS3_COLORMAP
    from odfdo.utils.color import hex2rgb, hexa_color
    from pyvc.native import NativeResult
    res = NativeResult()
    res.checked = 2
    name = argvals["color"]
    try:
        txt = hexa_color(name)
        back = hex2rgb(txt)
    except Exception as e:  # noqa
        res.failures.append(("ensures:names", f"raised {e!r}"))
        return res
    res.outcome = f"{txt!r}"
    if not _re.fullmatch(r"#[0-9A-F]{6}", txt) or back != tuple(CSS3_COLORMAP[name.strip().lower()]):
        res.failures.append(("ensures:names", f"{name!r} -> {txt!r} -> {back!r}"))
    return res


contract(
    "odfdo.utils.color:hexa_color",
    sig=dict(color=Str),
    ensures=[Clause("names", P18, lambda a, r, p: True)],
    gen=_gen_names, call_native=_call_names,
    bounded=dict(scope="every key of the real CSS3_COLORMAP (as is, upper-cased, padded): exhaustive over the finite "
                       "name table", reason="finite ground enumeration of a constant table"),
)


# --------------------------------------------------------------------- Unit (ODF lengths: C18 "length")
_LENGTH_RE = _re.compile(r"-?([0-9]+(\.[0-9]*)?|\.[0-9]+)(cm|mm|in|pt|pc|px)")
_UNITS = ["cm", "mm", "in", "pt", "pc", "px"]


def _gen_unit(con, sigcase, count, seed):
    import random
    from decimal import Decimal
    rnd = random.Random(seed)
    nums = [0, 1, -1, 3, 283, -283, 0.5, -0.5, 1.847, -1.847, 3.14, 2.54, 1e-7, -1e-7, 1e21, 123456.789,
            Decimal("0"), Decimal("1.50"), Decimal("-2.75"), Decimal("1E+3"), Decimal("1E-7"), Decimal("-0.001"),
            Decimal("12345678901234567890.123456789")]
    for n in nums:
        for u in _UNITS:
            yield {"mode": "value", "value": n, "unit": u}
    for _ in range(count * 2):
        n = rnd.choice([rnd.randint(-10000, 10000), round(rnd.uniform(-500, 500), rnd.randint(0, 6)),
                        Decimal(rnd.randint(-10**9, 10**9)).scaleb(-rnd.randint(0, 9))])
        yield {"mode": "value", "value": n, "unit": rnd.choice(_UNITS)}
    for s in ["1.847mm", "-1.5cm", "+2pt", ".5in", "5.cm", "0cm", "-0.25in", "10px", "12", "3.5",
              # outside the lexical form of a length
              "cm1", "1 cm", "1,5cm", "1.5e3cm", "1.2.3cm", "", "cm", "--1cm", "1-cm", "1cm2", "١cm", "１cm", "1 c m"]:
        yield {"mode": "text", "text": s}


def _call_unit(con, fn, argvals, labels):
    from decimal import Decimal
    from odfdo.datatype import Unit
    from pyvc.native import NativeResult
    res = NativeResult()
    res.checked = 2
    if argvals["mode"] == "value":
        v, u = argvals["value"], argvals["unit"]
        unit = Unit(v, u)
        exp = Decimal(str(v)) if isinstance(v, float) else Decimal(v)
        txt = str(unit)
        res.outcome = txt
        if not _LENGTH_RE.fullmatch(txt):
            res.failures.append(("ensures:unit-lexical", f"str(Unit({v!r}, {u!r})) = {txt!r} is not an ODF length"))
        try:
            back = Unit(txt)
            if (back.value, back.unit) != (exp, u):
                res.failures.append(("ensures:unit-roundtrip", f"Unit({txt!r}) gives ({back.value!r}, {back.unit!r}) for "
                                                               f"Unit({v!r}, {u!r})"))
        except Exception as e:  # noqa
            res.failures.append(("ensures:unit-roundtrip", f"Unit({txt!r}) raised {e!r}"))
        return res
    s = argvals["text"]
    bare = _re.fullmatch(r"[+-]?([0-9]+(\.[0-9]*)?|\.[0-9]+)", s)         # a bare number takes the default unit
    m = _re.fullmatch(r"([+-]?([0-9]+(\.[0-9]*)?|\.[0-9]+))(cm|mm|in|pt|pc|px)", s)
    try:
        got = Unit(s)
    except Exception as e:  # noqa
        res.outcome = f"raised {type(e).__name__}"
        if m or bare:
            res.failures.append(("ensures:unit-decode", f"Unit({s!r}) raised {e!r} for a well-formed length"))
        return res
    res.outcome = f"({got.value!r}, {got.unit!r})"
    if m:
        if (got.value, got.unit) != (Decimal(m.group(1)), m.group(4)):
            res.failures.append(("ensures:unit-decode", f"Unit({s!r}) gives ({got.value!r}, {got.unit!r})"))
    elif bare:
        if (got.value, got.unit) != (Decimal(s), "cm"):
            res.failures.append(("ensures:unit-decode", f"Unit({s!r}) gives ({got.value!r}, {got.unit!r})"))
    else:
        res.failures.append(("ensures:unit-rejects", f"Unit({s!r}) is accepted as ({got.value!r}, {got.unit!r}) although "
                                                     f"the string is not a length"))
    return res


contract(
    "odfdo.datatype:Unit",
    sig=dict(mode=Str),
    ensures=[Clause(lab, P18, lambda a, r, p: True) for lab in ("unit-lexical", "unit-roundtrip", "unit-decode", "unit-rejects")],
    gen=_gen_unit, call_native=_call_unit,
    bounded=dict(scope="23 boundary numbers (ints, floats, Decimals; negative, tiny, huge, exponent forms) x 6 units plus random "
                       "numbers (100 quick / 4000 thorough); 23 strings (10 well-formed lengths, 13 outside the form)",
                 reason="Decimal arithmetic and a character loop building two buffers (outside the executor's fragment)"),
)
