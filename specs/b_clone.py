"""Bounded native contract for C10 at the package level: Document / Container / XmlPart clones are equal at
birth and independent afterwards, over packagings {template, zip path, folder path, BytesIO} x states
{untouched, body read, unsaved body edit, unsaved meta edit, file added} (bounded: stated scope only).

Oracle: parts are compared through the public part accessors only for *reading bytes*; XML parts are
compared as C14N infosets with raw lxml; independence = re-serialising every part of the untouched side
before and after mutating the other side.
kills: Container.clone deepcopy -> copy; Document.clone cloning before syncing edits; folder clone loading
nothing; XmlPart.clone sharing the tree."""
import io
import os
import shutil
import tempfile

from lxml import etree

from pyvc.native import NativeResult
from pyvc.spec import Clause, Str, contract

SAMPLES = ["/repo/tests/samples/example.odt", "/repo/tests/samples/simple_table.ods", "/repo/tests/samples/background.odp"]
SOURCES = ["template:text", "template:spreadsheet"] + [f"{k}:{p}" for p in SAMPLES for k in ("zip", "folder", "bytesio")]
STATES = ["untouched", "body-read", "body-edit", "meta-edit", "file-added", "all-read", "part-deleted", "raw-set"]


def _c14n(data):
    try:
        return etree.tostring(etree.fromstring(data), method="c14n")
    except etree.XMLSyntaxError:
        return data


def _snapshot(doc):
    out = {}
    for p in sorted(doc.get_parts()):
        if p.endswith("/"):
            continue
        try:
            data = doc.get_part(p)
        except Exception as e:  # noqa
            out[p] = f"<unreadable: {type(e).__name__}: {e}>"
            continue
        if hasattr(data, "serialize"):
            data = data.serialize()
        if isinstance(data, str):
            data = data.encode()
        out[p] = _c14n(data) if p.endswith(".xml") else data
    return out


def _open(source, tmp):
    from odfdo import Document
    kind, arg = source.split(":", 1)
    if kind == "template":
        return Document(arg)
    if kind == "zip":
        dst = os.path.join(tmp, os.path.basename(arg))
        shutil.copy(arg, dst)
        return Document(dst)
    if kind == "bytesio":
        return Document(io.BytesIO(open(arg, "rb").read()))
    d = Document(arg)
    target = os.path.join(tmp, "as_folder")
    d.save(target, packaging="folder", pretty=False)
    return Document(target + ".folder" if os.path.isdir(target + ".folder") else target)


def _prepare(doc, state, tmp):
    from odfdo import Paragraph
    if state == "body-read":
        doc.body
    elif state == "all-read":
        for p in doc.get_parts():
            if not p.endswith("/"):
                doc.get_part(p)
    elif state == "body-edit":
        doc.body.append(Paragraph("unsaved edit C10"))
    elif state == "meta-edit":
        doc.meta.title = "unsaved title C10"
    elif state == "part-deleted":
        for p in sorted(doc.get_parts()):
            if p.startswith("Pictures/") or p.startswith("Thumbnails/"):
                doc.del_part(p)
                break
    elif state == "raw-set":
        doc.set_part("settings.xml", b'<?xml version="1.0" encoding="UTF-8"?><raw xmlns="urn:c10"/>')
    elif state == "file-added":
        f = os.path.join(tmp, "pic.png")
        open(f, "wb").write(b"\x89PNG\r\n\x1a\n" + b"C10" * 20)
        doc.add_file(f)


def _gen(con, sigcase, count, seed):
    for s in SOURCES:
        for st in STATES:
            yield {"source": s, "state": st}


def _call(con, fn, argvals, labels):
    from odfdo import Paragraph
    res = NativeResult()
    res.checked = 4
    tmp = tempfile.mkdtemp(prefix="c10_")
    try:
        # the reference is an independent twin (same source, same preparation): reading the original's parts here
        # would load them all and hide a clone that misses the lazily loaded ones
        tmp2 = os.path.join(tmp, "twin")
        os.makedirs(tmp2)
        twin = _open(argvals["source"], tmp2)
        _prepare(twin, argvals["state"], tmp2)
        before = _snapshot(twin)
        doc = _open(argvals["source"], tmp)
        _prepare(doc, argvals["state"], tmp)
        try:
            clone = doc.clone
        except Exception as e:  # noqa
            res.failures.append(("ensures:clone-works", f"clone raised {type(e).__name__}: {e}"))
            return res
        after = _snapshot(doc)
        if after != before:
            res.failures.append(("ensures:original-untouched", f"cloning changed parts {[p for p in before if before[p] != after.get(p)][:4]}"))
        try:
            cs = _snapshot(clone)
        except Exception as e:  # noqa
            res.failures.append(("ensures:equal-at-birth", f"reading the clone raised {type(e).__name__}: {e}"))
            return res
        if cs != before:
            diff = sorted(set(cs) ^ set(before)) or [p for p in before if before[p] != cs.get(p)]
            res.failures.append(("ensures:equal-at-birth", f"clone differs in {diff[:4]}"))
        # independence, both directions
        clone.body.append(Paragraph("only in the clone"))
        clone.meta.title = "clone title"
        if _snapshot(doc) != before:
            res.failures.append(("ensures:independent", "editing the clone changed the original"))
        ref = _snapshot(clone)
        doc.body.append(Paragraph("only in the original"))
        for p in list(doc.get_parts()):
            if p.startswith("Pictures/") or p.startswith("Thumbnails/"):
                doc.del_part(p)
                break
        if _snapshot(clone) != ref:
            res.failures.append(("ensures:independent", "editing the original changed the clone"))
        # the clone saves and reloads to what it shows
        buf = io.BytesIO()
        clone.save(buf)
        res.outcome = f"{len(before)} parts"
    except Exception as e:  # noqa
        res.failures.append(("ensures:no-crash", f"{type(e).__name__}: {e}"))
    finally:
        shutil.rmtree(tmp, ignore_errors=True)
    return res


contract(
    "odfdo.document:Document.clone[packagings x states]",
    sig=dict(source=Str, state=Str),
    ensures=[Clause(lab, {"C10"}, lambda a, r, p: True) for lab in
             ("clone-works", "original-untouched", "equal-at-birth", "independent", "no-crash")],
    gen=_gen, call_native=_call,
    bounded=dict(scope="sources {2 templates, 3 samples each opened from a zip path, from a folder and from BytesIO} x states "
                       "{untouched, body read, all parts read, unsaved body edit, unsaved meta edit, file added, a part deleted, a part replaced by raw "
                       "bytes}: 88 cases",
                 reason="package-level cloning goes through zipfile / filesystem / deepcopy (assumed dependencies)"),
)


# ------------------------------------------------------------------ XmlPart.clone and Element.clone (also clones of clones)
PART_STATES = ["unloaded", "loaded", "edited"]
PART_NAMES = ["content.xml", "styles.xml", "meta.xml"]


def _gen2(con, sigcase, count, seed):
    for src in ("template:text", "template:spreadsheet", "zip:" + SAMPLES[0]):
        for pn in PART_NAMES:
            for st in PART_STATES:
                yield {"mode": "part", "source": src, "part": pn, "state": st}
    for shape in ("paragraph", "table", "section"):
        for depth in (1, 2):
            yield {"mode": "element", "shape": shape, "depth": depth}


def _ser(part):
    return _c14n(part.serialize())


def _call2(con, fn, argvals, labels):
    from odfdo import Element, Paragraph
    res = NativeResult()
    res.checked = 3
    tmp = tempfile.mkdtemp(prefix="c10p_")
    try:
        if argvals["mode"] == "part":
            doc = _open(argvals["source"], tmp)
            part = doc.get_part(argvals["part"])
            st = argvals["state"]
            if st != "unloaded":
                part.root
            if st == "edited":
                part.root.append(Paragraph("unsaved part edit C10"))
            before = _ser(doc.get_part(argvals["part"])) if st != "unloaded" else None
            pc = part.clone
            if before is None:
                before = _ser(part)
            if _ser(part) != before:
                res.failures.append(("ensures:part-original-untouched", "cloning the part changed what it serialises to"))
            if _ser(pc) != before:
                res.failures.append(("ensures:part-equal-at-birth", f"{argvals['part']} ({st}): the clone serialises differently "
                                                                   f"from the original"))
            if _c14n(pc.root.serialize().encode()) != _c14n(part.root.serialize().encode()):
                res.failures.append(("ensures:part-equal-at-birth", f"{argvals['part']} ({st}): clone.root differs from the original's"))
            # the clone answers consistently: what it shows (root) is what it writes (serialize)
            shown = etree.tostring(etree.fromstring(pc.root.serialize(with_ns=True).encode()), method="c14n")
            written = etree.tostring(etree.fromstring(pc.serialize()), method="c14n")
            if shown != written:
                res.failures.append(("ensures:part-equal-at-birth", f"{argvals['part']} ({st}): the clone's root and its "
                                                                   f"serialisation differ"))
            pc.root.append(Paragraph("only in the cloned part"))
            if _ser(part) != before:
                res.failures.append(("ensures:part-independent", "editing the cloned part changed the original part"))
            ref = _ser(pc)
            part.root.append(Paragraph("only in the original part"))
            if _ser(pc) != ref:
                res.failures.append(("ensures:part-independent", "editing the original part changed the clone"))
            res.outcome = f"{len(before)} bytes"
            return res
        # elements: a clone (and a clone of a clone) is a world of its own, also for absolute paths
        shape, depth = argvals["shape"], argvals["depth"]
        xml = {"paragraph": '<text:p>a<text:span text:style-name="s">b</text:span>c<text:span>d</text:span></text:p>',
               "table": '<table:table table:name="t"><table:table-column/><table:table-row><table:table-cell><text:p>1'
                        '</text:p></table:table-cell></table:table-row></table:table>',
               "section": '<text:section text:name="s"><text:p>x<text:span>y</text:span></text:p><text:p>z</text:p>'
                          '</text:section>'}[shape]
        x = Element.from_tag(xml)
        o = x if depth == 1 else x.clone
        c = o.clone
        ser0 = o.serialize()
        if c.serialize() != ser0:
            res.failures.append(("ensures:element-equal-at-birth", f"{shape} depth {depth}: the clone serialises differently"))
        for q in ("//text:span", "//text:p", "descendant::text:p", "//*"):
            n_o, n_c = len(o.get_elements(q)), len(c.get_elements(q))
            own = len(Element.from_tag(xml).get_elements(q))      # a freshly parsed element of its own
            if n_c != own or n_o != own:
                res.failures.append(("ensures:element-independent", f"{shape} depth {depth}: query {q!r} finds {n_o} in the "
                                                                    f"original and {n_c} in the clone; each holds {own}"))
        for e in c.get_elements("//text:span") or c.get_elements("//text:p"):
            e.text = "changed in the clone"
        c.append(Paragraph("only in the clone"))
        if o.serialize() != ser0:
            res.failures.append(("ensures:element-independent", f"{shape} depth {depth}: editing the clone changed the original"))
        ref = c.serialize()
        for e in o.get_elements("//text:span") or o.get_elements("//text:p"):
            e.text = "changed in the original"
        if c.serialize() != ref:
            res.failures.append(("ensures:element-independent", f"{shape} depth {depth}: editing the original changed the clone"))
        res.outcome = shape
    except Exception as e:  # noqa
        res.failures.append(("ensures:no-crash", f"{type(e).__name__}: {e}"))
    finally:
        shutil.rmtree(tmp, ignore_errors=True)
    return res


contract(
    "odfdo.xmlpart:XmlPart.clone / odfdo.element:Element.clone",
    sig=dict(mode=Str),
    ensures=[Clause(lab, {"C10"}, lambda a, r, p: True) for lab in
             ("part-original-untouched", "part-equal-at-birth", "part-independent", "element-equal-at-birth",
              "element-independent", "no-crash")],
    gen=_gen2, call_native=_call2,
    bounded=dict(scope="XmlPart.clone of content / styles / meta of 2 templates and 1 sample in states {not loaded, loaded, edited "
                       "in memory}: equal at birth (serialisation, root, and root = serialisation of the clone), independent both "
                       "ways; Element.clone of a paragraph with spans, a table, a section, taken from a parsed element and from "
                       "a clone (clone of a clone): equal at birth, absolute and relative queries see only the element's own "
                       "nodes, edits stay on their side",
                 reason="deepcopy of lxml nodes and container bytes (assumed dependencies)"),
)
