"""Bounded native contract for C10 at the package level: Document / Container / XmlPart clones are equal at
birth and independent afterwards, over packagings {template, zip path, folder path, BytesIO} x states
{untouched, body read, unsaved body edit, unsaved meta edit, file added} (bounded: stated scope only).

Oracle: parts are compared through the public part accessors only for *reading bytes*; XML parts are
compared as C14N infosets with raw lxml; independence = re-serialising every part of the untouched side
before and after mutating the other side.
kills: Container.clone deepcopy -> copy; Document.clone cloning before syncing edits; folder clone loading
nothing; XmlPart.clone sharing the tree."""
import io
import os
import shutil
import tempfile

from lxml import etree

from pyvc.native import NativeResult
from pyvc.spec import Clause, Str, contract

SAMPLES = ["/repo/tests/samples/example.odt", "/repo/tests/samples/simple_table.ods", "/repo/tests/samples/background.odp"]
SOURCES = ["template:text", "template:spreadsheet"] + [f"{k}:{p}" for p in SAMPLES for k in ("zip", "folder", "bytesio")]
STATES = ["untouched", "body-read", "body-edit", "meta-edit", "file-added", "all-read", "part-deleted", "raw-set"]


def _c14n(data):
    try:
        return etree.tostring(etree.fromstring(data), method="c14n")
    except etree.XMLSyntaxError:
        return data


def _snapshot(doc):
    out = {}
    for p in sorted(doc.get_parts()):
        if p.endswith("/"):
            continue
        try:
            data = doc.get_part(p)
        except Exception as e:  # noqa
            out[p] = f"<unreadable: {type(e).__name__}: {e}>"
            continue
        if hasattr(data, "serialize"):
            data = data.serialize()
        if isinstance(data, str):
            data = data.encode()
        out[p] = _c14n(data) if p.endswith(".xml") else data
    return out


def _open(source, tmp):
    from odfdo import Document
    kind, arg = source.split(":", 1)
    if kind == "template":
        return Document(arg)
    if kind == "zip":
        dst = os.path.join(tmp, os.path.basename(arg))
        shutil.copy(arg, dst)
        return Document(dst)
    if kind == "bytesio":
        return Document(io.BytesIO(open(arg, "rb").read()))
    d = Document(arg)
    target = os.path.join(tmp, "as_folder")
    d.save(target, packaging="folder", pretty=False)
    return Document(target + ".folder" if os.path.isdir(target + ".folder") else target)


def _prepare(doc, state, tmp):
    from odfdo import Paragraph
    if state == "body-read":
        doc.body
    elif state == "all-read":
        for p in doc.get_parts():
            if not p.endswith("/"):
                doc.get_part(p)
    elif state == "body-edit":
        doc.body.append(Paragraph("unsaved edit C10"))
    elif state == "meta-edit":
        doc.meta.title = "unsaved title C10"
    elif state == "part-deleted":
        for p in sorted(doc.get_parts()):
            if p.startswith("Pictures/") or p.startswith("Thumbnails/"):
                doc.del_part(p)
                break
    elif state == "raw-set":
        doc.set_part("settings.xml", b'<?xml version="1.0" encoding="UTF-8"?><raw xmlns="urn:c10"/>')
    elif state == "file-added":
        f = os.path.join(tmp, "pic.png")
        open(f, "wb").write(b"\x89PNG\r\n\x1a\n" + b"C10" * 20)
        doc.add_file(f)


def _gen(con, sigcase, count, seed):
    for s in SOURCES:
        for st in STATES:
            yield {"source": s, "state": st}


def _call(con, fn, argvals, labels):
    from odfdo import Paragraph
    res = NativeResult()
    res.checked = 4
    tmp = tempfile.mkdtemp(prefix="c10_")
    try:
        # the reference is an independent twin (same source, same preparation): reading the original's parts here
        # would load them all and hide a clone that misses the lazily loaded ones
        tmp2 = os.path.join(tmp, "twin")
        os.makedirs(tmp2)
        twin = _open(argvals["source"], tmp2)
        _prepare(twin, argvals["state"], tmp2)
        before = _snapshot(twin)
        doc = _open(argvals["source"], tmp)
        _prepare(doc, argvals["state"], tmp)
        try:
            clone = doc.clone
        except Exception as e:  # noqa
            res.failures.append(("ensures:clone-works", f"clone raised {type(e).__name__}: {e}"))
            return res
        after = _snapshot(doc)
        if after != before:
            res.failures.append(("ensures:original-untouched", f"cloning changed parts {[p for p in before if before[p] != after.get(p)][:4]}"))
        try:
            cs = _snapshot(clone)
        except Exception as e:  # noqa
            res.failures.append(("ensures:equal-at-birth", f"reading the clone raised {type(e).__name__}: {e}"))
            return res
        if cs != before:
            diff = sorted(set(cs) ^ set(before)) or [p for p in before if before[p] != cs.get(p)]
            res.failures.append(("ensures:equal-at-birth", f"clone differs in {diff[:4]}"))
        # independence, both directions
        clone.body.append(Paragraph("only in the clone"))
        clone.meta.title = "clone title"
        if _snapshot(doc) != before:
            res.failures.append(("ensures:independent", "editing the clone changed the original"))
        ref = _snapshot(clone)
        doc.body.append(Paragraph("only in the original"))
        for p in list(doc.get_parts()):
            if p.startswith("Pictures/") or p.startswith("Thumbnails/"):
                doc.del_part(p)
                break
        if _snapshot(clone) != ref:
            res.failures.append(("ensures:independent", "editing the original changed the clone"))
        # the clone saves and reloads to what it shows
        buf = io.BytesIO()
        clone.save(buf)
        res.outcome = f"{len(before)} parts"
    except Exception as e:  # noqa
        res.failures.append(("ensures:no-crash", f"{type(e).__name__}: {e}"))
    finally:
        shutil.rmtree(tmp, ignore_errors=True)
    return res


contract(
    "odfdo.document:Document.clone[packagings x states]",
    sig=dict(source=Str, state=Str),
    ensures=[Clause(lab, {"C10"}, lambda a, r, p: True) for lab in
             ("clone-works", "original-untouched", "equal-at-birth", "independent", "no-crash")],
    gen=_gen, call_native=_call,
    bounded=dict(scope="sources {2 templates, 3 samples each opened from a zip path, from a folder and from BytesIO} x states "
                       "{untouched, body read, all parts read, unsaved body edit, unsaved meta edit, file added, a part deleted, a part replaced by raw "
                       "bytes}: 88 cases",
                 reason="package-level cloning goes through zipfile / filesystem / deepcopy (assumed dependencies)"),
)
