"""C15 (and the memory-neutrality half of C11): frame conditions `modifies(XML trees) = {}` proved by the
modular effect inference of pyvc.effects (function summaries, fixpoint over the call graph).

Obligations = the read-only entry points listed in specs/purity_baseline.json (the entry points the
inference proved pure when the baseline was committed).  An entry point of the baseline that is no longer
proved pure is a failed obligation (reported with the inferred call chain to the write); entry points the
inference cannot prove are listed in the evidence as unproved and are covered only by the bounded replay
contract of specs.b_values."""
import json
import os
import time

from pyvc.check import extra

HERE = os.path.dirname(os.path.abspath(__file__))
BASELINE = os.path.join(HERE, "purity_baseline.json")


def _run(ctx, pid, select):
    from pyvc import effects
    t0 = time.time()
    src = os.path.join(os.environ.get("PYVC_REPO", "/repo"), "src", "odfdo")
    an = effects.analyze(src_root=src)
    rep = an.report()
    entries = rep["entries"]
    base = json.load(open(BASELINE)) if os.path.exists(BASELINE) else {"pure": []}
    want = [e for e in base["pure"] if select(e)]
    by_name = {e["entry"]: e for e in entries} if isinstance(entries, list) else entries
    out = {"obligations": 0, "discharged": 0, "violations": [], "undecided": [], "samples": [], "assumptions": [
        "effect inference: closed world (no monkey-patching, no external subclasses), lxml base-fact list, "
        "annotations as upper bounds on run-time types (see pyvc/effects.py docstring)"],
        "by_backend": {"effect-fixpoint": 0}, "solver_time": time.time() - t0, "functions": []}
    unproved = []
    for name in want:
        out["obligations"] += 1
        e = by_name.get(name)
        verdict = e["verdict"] if e else "missing"
        if verdict == "pure":
            out["discharged"] += 1
            out["by_backend"]["effect-fixpoint"] += 1
            if len(out["samples"]) < 6:
                out["samples"].append({"obligation": f"frame:{name} modifies(XML)={{}}", "status": "discharged",
                                       "backend": "effect-fixpoint"})
        else:
            chain = (e or {}).get("chain", "entry point no longer exists")
            out["violations"].append({
                "kind": "frame", "name": f"frame:{name}/modifies-nothing", "status": "refuted", "backend": "effect-fixpoint",
                "replay": {"reproduced": False, "obligation": f"frame:{name}/modifies-nothing",
                           "verifier_output": f"verdict {verdict}; inferred chain to the write: {chain}"[:3000]}})
    for name, e in by_name.items():
        if select(name) and name not in want and e["verdict"] != "pure":
            unproved.append(f"{name}: {e['verdict']}")
    out["assumptions"].append("entry points not proved pure by the inference (bounded replay only): " + "; ".join(sorted(unproved)))
    return out


@extra("C15")
def c15(ctx):
    return _run(ctx, "C15", lambda n: True)


SAVE_PATH = ("xmlpart:XmlPart.serialize", "xmlpart:XmlPart.pretty_serialize", "xmlpart:XmlPart.custom_pretty_tree",
             "document:Document.clone", "xmlpart:XmlPart.clone")


@extra("C11")
def c11(ctx):
    return _run(ctx, "C11", lambda n: n in SAVE_PATH or n.startswith("xmlpart:XmlPart."))
