"""Package bookkeeping (C03 C04): the manifest entry list and the document's part caches.

Model: a Manifest is its list of manifest:full-path strings in document order (ghost `entries`); the
XPath lookups over it (get_media_type, _file_entry) are assumed to find the entries whose attribute
equals the argument — the literal quoting that makes this true is C14's contract.  A Document is its
parsed-part cache (dict with the constant XML part names), its cached body and a container whose
set_part / del_part calls are logged (ghost)."""
import z3

import specs.vault  # noqa: F401  (Element.__append hook)
from pyvc import lists as L
from pyvc.engine import ListV, ObjV, OpaqueV, PyRaise, Unsupported
from pyvc.lists import LConc, cat_term, lift, zint
from pyvc.spec import (REGISTRY, Clause, Const, LView, Model, Opaque, S, Str, StrList, contract)
from pyvc.xmlmodel import BaseModel

P4 = {"C04"}


class ManView:
    def __init__(self, obj):
        self.ref = obj
        self.entries = obj.fields["entries"].view()


class ManModel(BaseModel):
    def view(self, en, obj):
        return ManView(obj)


MAN = ManModel()


def man_maker(en, name, **kw):
    from odfdo.manifest import Manifest
    n = z3.Int(name + ".n")
    en.pc.append(n >= 0)
    ent = ListV(L.LLeaf(z3.Array(name + ".entries", z3.IntSort(), z3.StringSort()), n, name + ".entries"))
    return ObjV(Manifest, {"entries": ent}, model=MAN)


def _present(entries_term, p):
    i = z3.FreshInt("i")
    return z3.Exists([i], z3.And(0 <= i, i < zint(entries_term.length()), lift(entries_term.sel(i)) == lift(p)))


def h_get_media_type(en, con, vals, site):
    man, p = vals["self"], vals["full_path"]
    if en.decide(_present(man.fields["entries"].term, p)):
        return en.fresh("media", "str")
    return None


def h_set_media_type(en, con, vals, site):
    man, p = vals["self"], vals["full_path"]
    if not en.decide(_present(man.fields["entries"].term, p)):
        raise PyRaise(KeyError, "Path not found")
    return None


def h_make_file_entry(en, con, vals, site):
    from odfdo.element import Element
    return ObjV(Element, {"__entry_path": vals["full_path"]}, model=BaseModel())


def h_root(en, con, vals, site):
    from odfdo.element import Element
    return ObjV(Element, {"__manifest": vals["self"]}, model=BaseModel())


_EXT = dict(trusted=True, sig={})
contract("odfdo.manifest:Manifest.get_media_type", call=h_get_media_type,
         note="XPath lookup by manifest:full-path (lxml; literal well-formed by C14)", **_EXT)
contract("odfdo.manifest:Manifest.set_media_type", call=h_set_media_type, note="XPath lookup + attribute write", **_EXT)
contract("odfdo.manifest:Manifest.make_file_entry", call=h_make_file_entry, note="builds one manifest:file-entry", **_EXT)
contract("odfdo.xmlpart:XmlPart.root", call=h_root, note="lazy parse of the part (lxml)", **_EXT)

# Element.__append on the manifest root appends the entry to the ghost list
_app = REGISTRY["odfdo.element:Element.__append"]
_old_call = _app.call


def _append_with_manifest(en, con, vals, site):
    target = vals["self"]
    if isinstance(target, ObjV) and "__manifest" in target.fields:
        man = target.fields["__manifest"]
        e = vals["str_or_element"]
        man.fields["entries"].term = cat_term(man.fields["entries"].term, LConc([e.fields["__entry_path"]]))
        return None
    return _old_call(en, con, vals, site)


_app.call = _append_with_manifest


def _nodup(ev):
    if isinstance(ev, LView):
        i, j = z3.FreshInt("i"), z3.FreshInt("j")
        return z3.ForAll([i, j], z3.Implies(z3.And(0 <= i, i < j, j < zint(ev.n)), lift(ev[i]) != lift(ev[j])))
    return len(set(ev)) == len(ev)


def _add_post(a, r, p):
    e0, e1, path = a.self.entries, p.self.entries, a.full_path
    i = z3.FreshInt("i")
    was = z3.Exists([i], z3.And(0 <= i, i < zint(e0.n), lift(e0[i]) == path))
    same = z3.And(lift(e1.n) == lift(e0.n), S.forall(lambda j: lift(e1[j]) == lift(e0[j]), 0, e0.n))
    appended = z3.And(lift(e1.n) == lift(e0.n) + 1, S.forall(lambda j: lift(e1[j]) == lift(e0[j]), 0, e0.n),
                      lift(e1[e0.n]) == path)
    return z3.And(z3.Implies(was, same), z3.Implies(z3.Not(was), appended))


contract(
    "odfdo.manifest:Manifest.add_full_path",
    sig=dict(self=Model("Manifest", man_maker), full_path=Str, media_type=Str),
    requires=lambda a: _nodup(a.self.entries),
    ensures=[Clause("once", P4, _add_post), Clause("no-duplicates", P4, lambda a, r, p: _nodup(p.self.entries))],
    note="each file of the package is listed exactly once: adding a path that is already listed only updates it",
)


# ------------------------------------------------------------------ Document.set_part / del_part (C03, C04)
class DocView:
    def __init__(self, obj):
        self.ref = obj
        self.xmlparts = dict(obj.fields["_Document__xmlparts"])
        self.body = obj.fields["_Document__body"]
        self.log = list(obj.fields["container"].fields["log"])
        self.man_deleted = list(obj.fields["__man_deleted"])


class DocModel(BaseModel):
    def view(self, en, obj):
        return DocView(obj)


def doc_maker(en, name, cached=(), **kw):
    from odfdo.container import Container
    from odfdo.document import Document
    cont = ObjV(Container, {"log": []}, model=BaseModel())
    parts = {k: ObjV(object, {"__part": k}, model=BaseModel()) for k in cached}
    return ObjV(Document, {"_Document__xmlparts": parts, "_Document__body": ObjV(object, {}, model=BaseModel()),
                           "container": cont, "__man_deleted": []}, model=DocModel())


contract("odfdo.container:Container.set_part", trusted=True, sig={}, note="stores the bytes of a part (ghost log)",
         call=lambda en, con, vals, site: vals["self"].fields["log"].append(("set", vals["path"], vals["data"])))
contract("odfdo.container:Container.del_part", trusted=True, sig={}, note="marks a part deleted (ghost log)",
         call=lambda en, con, vals, site: vals["self"].fields["log"].append(("del", vals["path"])))


def h_doc_manifest(en, con, vals, site):
    from odfdo.manifest import Manifest
    doc = vals["self"]
    return ObjV(Manifest, {"__doc": doc}, model=BaseModel())


def h_del_full_path(en, con, vals, site):
    man = vals["self"]
    if "__doc" in man.fields:
        # presence of the entry is unknown: both outcomes (KeyError is suppressed by the caller)
        if en.suppressed(KeyError) or en.choose(2) == 0:
            man.fields["__doc"].fields["__man_deleted"].append(vals["full_path"])
            return None
        raise PyRaise(KeyError, "Path not found")
    raise Unsupported("del_full_path on the entry-list model")


contract("odfdo.document:Document.manifest", call=h_doc_manifest, trusted=True, sig={}, note="the manifest part")
contract("odfdo.manifest:Manifest.del_full_path", call=h_del_full_path, trusted=True, sig={},
         note="XPath lookup + removal of the entry (KeyError when absent)")

ALL_XML = ("content.xml", "styles.xml", "meta.xml", "settings.xml", "META-INF/manifest.xml")
DATA = Opaque(bytes)


def _set_part_post(norm):
    def post(a, r, p):
        xml = norm in ALL_XML
        ok = [p.self.log == [("set", norm, a.data.ref if hasattr(a.data, "ref") else a.data)] or
              (len(p.self.log) == 1 and p.self.log[0][0] == "set" and p.self.log[0][1] == norm and p.self.log[0][2] is a.data)]
        if xml:
            ok.append(norm not in p.self.xmlparts)           # the cached tree must not shadow the new bytes
            if norm == "content.xml":
                ok.append(p.self.body is None)
        else:
            ok.append(p.self.xmlparts.keys() == a.self.xmlparts.keys())
        return all(ok)
    return post


for _path, _norm in (("content.xml", "content.xml"), ("content", "content.xml"), ("styles", "styles.xml"),
                     ("./meta.xml", "meta.xml"), ("Pictures/a.png", "Pictures/a.png")):
    for _cached in ((), ALL_XML):
        contract(
            f"odfdo.document:Document.set_part",
            sig=dict(self=Model("Document", doc_maker, cached=_cached), path=Const(_path), data=DATA),
            ensures=[Clause("new-bytes-win", {"C03"}, _set_part_post(_norm))],
        ) if False else None

_sp_sigs, _sp_posts = [], {}
for _path, _norm in (("content.xml", "content.xml"), ("content", "content.xml"), ("styles", "styles.xml"),
                     ("./meta.xml", "meta.xml"), ("Pictures/a.png", "Pictures/a.png")):
    for _cached in ((), ALL_XML):
        _sp_sigs.append(dict(self=Model("Document", doc_maker, cached=_cached), path=Const(_path), data=DATA))
        _sp_posts[_path] = _set_part_post(_norm)

contract(
    "odfdo.document:Document.set_part",
    sig=_sp_sigs,
    ensures=[Clause("new-bytes-win", {"C03"}, lambda a, r, p: _sp_posts[a.path](a, r, p))],
    note="ground cases over the constant part names: after set_part the bytes given are what save() will write "
         "(no parsed tree of that part stays cached), other cached parts untouched",
)


def _del_part_post(a, r, p):
    return (p.self.man_deleted == [a.path] and p.self.log == [("del", a.path)])


contract(
    "odfdo.document:Document.del_part",
    sig=[dict(self=Model("Document", doc_maker, cached=c), path=Const("Pictures/a.png")) for c in ((), ALL_XML)] +
        [dict(self=Model("Document", doc_maker, cached=()), path=Const("content.xml"))],
    raises={ValueError: lambda a: a.path in ("content.xml", "META-INF/manifest.xml", "manifest", "content")},
    ensures=[Clause("manifest-follows", P4 | {"C03"}, _del_part_post)],
    note="deleting a part also removes its manifest entry; the mandatory XML parts are refused",
)
