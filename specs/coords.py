"""Contracts for utils/coordinates.py (C19; used by C01 C08).

Spec functions (definitional, primitive recursive — conservative):
  P(n)      = 26**n                      P(0)=1, P(n+1)=26*P(n)
  D(c)      = 1..26 for the letter c (case-insensitive), by code point
  W(s)      = bijective base-26 value of the letter string s, by cons:
              W("")=0, W(c++t) = D(c)*P(|t|) + W(t)
The column number of a letter string s is W(s)-1.
"""
import z3

from pyvc.spec import Clause, Const, Int, Inv, Lemma, NoneT, OneOf, OptInt, S, Str, contract

P = z3.Function("P26", z3.IntSort(), z3.IntSort())
W = z3.Function("W26", z3.StringSort(), z3.IntSort())
UPPER = z3.Plus(z3.Range("A", "Z"))
LETTERS = z3.Plus(z3.Union(z3.Range("A", "Z"), z3.Range("a", "z")))
ASCII = z3.Star(z3.Range(chr(0), chr(127)))


def is_ascii(s):
    return S.all_chars(s, lambda c: c <= 127, lambda c: c <= 127)


def is_letters(s):
    return S.all_chars(s, lambda c: z3.Or(z3.And(c >= 65, c <= 90), z3.And(c >= 97, c <= 122)),
                       lambda c: 65 <= c <= 90 or 97 <= c <= 122, nonempty=True)


def is_upper(s, nonempty=True):
    return S.all_chars(s, lambda c: z3.And(c >= 65, c <= 90), lambda c: 65 <= c <= 90, nonempty=nonempty)


def D(c):
    """letter value 1..26 of a one-character string (upper or lower case)"""
    code = z3.StrToCode(c)
    return z3.If(code >= 97, code - 96, code - 64)


def p_def(n):
    """instances of the definition of P at n"""
    return z3.And(P(0) == 1, z3.Implies(n > 0, P(n) == 26 * P(n - 1)), z3.Implies(n >= 0, P(n) >= 1))


def w_cons(c, t):
    """W(c ++ t) = D(c)*P(|t|) + W(t)   (definition instance)"""
    return W(z3.Concat(c, t)) == D(c) * P(z3.Length(t)) + W(t)


W_EMPTY = W(z3.StringVal("")) == 0


# native implementations of the spec functions (replay)
def w_native(s):
    v = 0
    for ch in s:
        v = v * 26 + (ord(ch.lower()) - 96)
    return v


# --------------------------------------------------------------------- increment
def _inc_post(a, r, p):
    v, st = a.value, a.step
    return S.And(
        S.Implies(v >= 0, r == v),
        S.Implies(S.And(v < 0, st == 0), r == 0),
        S.Implies(S.And(v < 0, st > 0), lambda: S.And(0 <= r, r < st, (r - v) % st == 0)),
    )


contract(
    "odfdo.utils.coordinates:increment",
    sig=dict(value=Int, step=Int),
    requires=lambda a: a.step >= 0,
    ensures=[Clause("wrap", {"C19", "C01", "C08"}, _inc_post)],
    loops={0: Inv(
        lambda a, v: S.And(
            v.value >= a.value,
            S.Implies(a.value >= 0, v.value == a.value),
            S.Implies(a.step == 0, v.value == a.value),
            S.Implies(a.step > 0, lambda: S.And((v.value - a.value) % a.step == 0,
                                                 S.Implies(a.value < 0, v.value < a.step))),
        ),
        decreases=lambda a, v: -v.value,
    )},
    result=Int,
)


# --------------------------------------------------------------------- letters <-> numbers
# H(s, acc): Horner fold of the letters of s starting from acc:
#   H("", acc) = acc ;  H(c ++ t, acc) = H(t, 26*acc + D(c))      (|c| = 1)
# The column number of the letter string s is H(s, 0) - 1.  Both loops of the code are
# instances of this one definition (alpha_to_digit consumes the head, digit_to_alpha
# prepends the head), so the round trip needs no induction lemma and no powers of 26.
from pyvc.spec import Axiom, Lemma  # noqa: E402
from pyvc.lists import lift, zint  # noqa: E402

H = z3.Function("H26", z3.StringSort(), z3.IntSort(), z3.IntSort())
_s, _t, _c, _acc = z3.String("s_"), z3.String("t_"), z3.String("c_"), z3.Int("acc_")

AX_H_CONS = Axiom(
    "H26-def-cons",
    z3.ForAll([_c, _t, _acc], z3.Implies(z3.Length(_c) == 1,
              H(z3.Concat(_c, _t), _acc) == H(_t, 26 * _acc + D(_c))),
              patterns=[H(z3.Concat(_c, _t), _acc)]),
    note="definition of the Horner fold H(s,acc) over letter strings (cons case)",
)
AX_H_NIL = Axiom(
    "H26-def-nil",
    z3.ForAll([_s, _acc], z3.Implies(z3.Length(_s) == 0, H(_s, _acc) == _acc), patterns=[H(_s, _acc)]),
    note="definition of H (empty string)",
)
AX_H_HT = Axiom(
    "H26-def-head-tail",
    z3.ForAll([_s, _acc], z3.Implies(
        z3.Length(_s) > 0,
        H(_s, _acc) == H(z3.SubString(_s, 1, z3.Length(_s) - 1), 26 * _acc + D(z3.SubString(_s, 0, 1)))),
        patterns=[H(_s, _acc)]),
    note="the cons case of H stated on head/tail of a non-empty string (same definition)",
)


def _hsuf_stmt(s, k, acc):
    n = z3.Length(s)
    return z3.Implies(
        z3.And(0 <= k, k < n),
        H(z3.SubString(s, k, n - k), acc)
        == H(z3.SubString(s, k + 1, n - (k + 1)), 26 * acc + D(z3.SubString(s, k, 1))))


def _hsuf_proof():
    s, k, acc = z3.String("s!h"), z3.Int("k!h"), z3.Int("acc!h")
    n = z3.Length(s)
    head, tail, suf = z3.SubString(s, k, 1), z3.SubString(s, k + 1, n - (k + 1)), z3.SubString(s, k, n - k)
    split = suf == z3.Concat(head, tail)
    side = ("string-split", [0 <= k, k < n], split)
    cons_inst = z3.Implies(z3.Length(head) == 1, H(z3.Concat(head, tail), acc) == H(tail, 26 * acc + D(head)))
    main = ("main", [0 <= k, k < n, split, cons_inst, z3.Length(head) == 1], _hsuf_stmt(s, k, acc))
    side2 = ("unit-head", [0 <= k, k < n], z3.Length(head) == 1)
    return [side, side2, main]


_k = z3.Int("k_")
LEM_H_SUFFIX = Lemma(
    "H26-suffix-step", {"C19"}, _hsuf_proof,
    statement=z3.ForAll([_s, _k, _acc], _hsuf_stmt(_s, _k, _acc),
                        patterns=[H(z3.SubString(_s, _k, z3.Length(_s) - _k), _acc)]),
    note="H(s[k:],acc) = H(s[k+1:], 26*acc + D(s[k])): the cons case of H at a suffix; proof = "
         "string identity s[k:] = s[k] ++ s[k+1:] plus one ground instance of the definition",
)


def h_native(s, acc=0):
    for ch in s:
        acc = 26 * acc + (ord(ch.lower()) - 96)
    return acc


def H_(s, acc):
    if isinstance(s, z3.ExprRef) or isinstance(acc, z3.ExprRef):
        return H(lift(s), zint(acc))
    return h_native(s, acc)


def suffix(s, k):
    if isinstance(s, z3.ExprRef) or isinstance(k, z3.ExprRef):
        s = lift(s)
        return z3.SubString(s, zint(k), z3.Length(s) - zint(k))
    return s[k:]


_is_str = lambda x: isinstance(x, (str, z3.SeqRef))  # noqa: E731

contract(
    "odfdo.utils.coordinates:alpha_to_digit",
    sig=dict(alpha=OneOf(Str.of(alphabet="abzAZ1 é", maxlen=4), Int)),
    requires=lambda a: S.Or(not _is_str(a.alpha), lambda: is_ascii(a.alpha)),
    raises={ValueError: lambda a: S.And(_is_str(a.alpha), lambda: S.Not(is_letters(a.alpha)))},
    ensures=[
        Clause("value", {"C19"}, lambda a, r, p: r == (
            a.alpha if not _is_str(a.alpha) else H_(a.alpha, 0) - 1)),
    ],
    loops={0: Inv(lambda a, v: H_(suffix(a.alpha, v.k_), v.column) == H_(a.alpha, 0),
                  # one ground instance of the proved suffix-step lemma (its trigger re-matches its own instance)
                  hints=lambda a, v: [(LEM_H_SUFFIX, (a.alpha, zint(v.k_), zint(v.column)))])},
    uses=[AX_H_NIL],
    result=Int,
    note="proved for ASCII input strings (str.isalpha / str.lower are exact there)",
)


contract(
    "odfdo.utils.coordinates:digit_to_alpha",
    sig=dict(digit=Int),
    requires=lambda a: a.digit >= 0,
    ensures=[
        Clause("letters", {"C19"}, lambda a, r, p: is_upper(r)),
        Clause("value", {"C19"}, lambda a, r, p: H_(r, 0) == a.digit + 1),
    ],
    loops={0: Inv(
        lambda a, v: S.And(
            v.digit >= 0,
            is_upper(v.column, nonempty=False),
            H_(v.column, v.digit) == a.digit + 1,
            S.Implies(v.digit == 0, lambda: S.len(v.column) > 0),
        ),
        decreases=lambda a, v: v.digit,
    )},
    uses=[AX_H_CONS, AX_H_NIL],
    result=Str,
)

# round trip: alpha_to_digit(digit_to_alpha(n)) == n  — a lemma over the two contracts
def _roundtrip():
    n, r, res = z3.Int("n!rt"), z3.String("r!rt"), z3.Int("res!rt")
    post_d2a = [n >= 0, H(r, 0) == n + 1]          # digit_to_alpha ensures:value
    post_a2d = [res == H(r, 0) - 1]                 # alpha_to_digit ensures:value on that result
    return [("compose", post_d2a + post_a2d, res == n)]


Lemma("column-roundtrip", {"C19"}, _roundtrip,
      note="alpha_to_digit(digit_to_alpha(n)) = n from the two `value` postconditions")
