"""Row-level contracts (C01 C02 C07 C08 C10): the cells of one row as a run-length vault."""
import z3

import specs.coords  # noqa: F401
import specs.vault  # noqa: F401
import specs.vault_maps  # noqa: F401
from pyvc import lists as L
from pyvc.engine import ListV, ObjV, OptIntV, PyRaise, Unsupported
from pyvc.lists import LConc, cat_term, lift, simp_int, zint
from pyvc.spec import (REGISTRY, Bool, Clause, Const, Int, Inv, LView, Model, NoneT, OneOf, OptInt, S, contract)
from pyvc.xmlmodel import (KIND_OF_MAP, VaultView, WrapView, before, cache_reset, detached, exists_before, fits,
                           inv_vault, is_fresh, item_classes, item_maker, make_wrapper, pointwise, vault_maker,
                           vlen, xstate)
from pyvc.xmlnative import concretize_vault, gen_vault

P_ROW = {"C01", "C02", "C07"}
PL_EMPTY = z3.Int("pl.empty")           # content of a freshly constructed empty Cell()
_NATIVE_EMPTY = []


def EMPTY(view):
    """content of an empty Cell(): the model constant, or natively the payload of a real Cell()"""
    if isinstance(view, (VaultView, WrapView)):
        return PL_EMPTY
    if not _NATIVE_EMPTY:
        from odfdo.cell import Cell
        from pyvc.xmlnative import lx, payload
        _NATIVE_EMPTY.append(payload(lx(Cell()), "cells"))
    return _NATIVE_EMPTY[0]


def _row():
    import odfdo.row as R
    return Model("RowVault", vault_maker, cls=R.Row, kinds=("cells",))


def _cell(name="CellItem"):
    return Model(name, item_maker, cls=item_classes()["cells"])


# ------------------------------------------------------------------ assumed: Cell(...) constructor (attribute plumbing is C06/C12)
PL_OF_VALUE = z3.Function("pl.of_value", z3.IntSort(), z3.IntSort())


def h_cell_ctor(en, con, vals, site):
    st = xstate(en)
    n = st.fresh_node()
    rep = vals.get("repeated")
    if rep is None:
        r = z3.IntVal(1)
    else:
        r = z3.If(zint(rep) > 1, zint(rep), z3.IntVal(1))
    st.rep = z3.Store(st.rep, n, r)
    plain = all(vals.get(k) is None for k in ("value", "text", "cell_type", "currency", "formula", "style"))
    if plain:
        st.pl = z3.Store(st.pl, n, PL_EMPTY)
    else:
        st.pl = z3.Store(st.pl, n, en.fresh("pl.new", "int"))
    return make_wrapper(en, item_classes()["cells"], n, x=None, y=None)


contract("odfdo.cell:Cell", call=h_cell_ctor, trusted=True, sig={},
         note="Cell(...) constructor: a fresh node; repeat attribute written only for repeated > 1 (bounded: b_tables)")


# ------------------------------------------------------------------ translate_from_any (int form) and Row.width
def _wrap(x, length):
    """result of increment(x, length) for x < 0 (spec of odfdo.utils.coordinates:increment)"""
    return None


contract(
    "odfdo.utils.coordinates:translate_from_any",
    sig=[dict(x=Int, length=Int, idx=Const(0)), dict(x=Int, length=Int, idx=Const(1))],
    requires=lambda a: a.length >= 0,
    ensures=[Clause("int-form", {"C19", "C01", "C08"}, lambda a, r, p: S.And(
        S.Implies(a.x >= 0, r == a.x),
        S.Implies(S.And(a.x < 0, a.length == 0), r == 0),
        S.Implies(S.And(a.x < 0, a.length > 0), lambda: S.And(0 <= r, r < a.length, (r - a.x) % a.length == 0))))],
    result=Int,
)

contract(
    "odfdo.row:Row.width",
    sig=dict(self=_row()),
    ensures=[Clause("width", P_ROW | {"C08"}, lambda a, r, p: r == vlen(a.self, "cells"))],
    result=Int,
    concretize=concretize_vault, gen=gen_vault,
)

contract(
    "odfdo.row:Row._translate_x_from_any",
    sig=dict(self=_row(), x=Int),
    requires=lambda a: inv_vault(a.self, "cells"),
    ensures=[Clause("int-form", {"C19", "C01", "C08"}, lambda a, r, p: S.And(
        S.Implies(a.x >= 0, r == a.x),
        S.Implies(a.x < 0, r >= 0),
        S.Implies(S.And(a.x < 0, vlen(a.self, "cells") > 0), lambda: r < vlen(a.self, "cells"))))],
    result=Int,
    concretize=concretize_vault, gen=gen_vault,
    observer=True,
)


# ------------------------------------------------------------------ Row.append_cell
def _append_rep(a):
    if a._repeated is None:
        return a.cell.rep
    return a._repeated


def _append_view(a, r, p):
    rep = _append_rep(a)
    l0 = vlen(a.self, "cells")
    return pointwise(a.self, p.self, "cells", lambda pos, old, len0: S.If(pos < l0, old, a.cell.pl))


def hook_append_cell(en, con, vals, site):
    """abstract op: the cell (or its clone, or a fresh empty cell) becomes the last item"""
    st = xstate(en)
    row, cell, clone, rpt = vals["self"], vals["cell"], vals["clone"], vals["_repeated"]
    if cell is None:
        cell = h_cell_ctor(en, None, {}, site)
        clone = False
    pre_cell = en.view(cell)
    base = f"{en.c.target}[{en.case_label}]/call:{site}"
    rep = pre_cell.rep if rpt is None else zint(rpt)
    vrow = en.view(row)
    en.oblige(f"{base}/pre/path:{en.path_id()}",
              z3.And(inv_vault(vrow, "cells"), rep == pre_cell.rep, detached(vrow, "cells", pre_cell)),
              en.c.props | con.props, "callee-pre", {"callee": con.target})
    if isinstance(clone, z3.ExprRef):
        clone = en.decide(clone)
    if clone:
        n = st.fresh_node()
        st.rep = z3.Store(st.rep, n, pre_cell.rep)
        st.pl = z3.Store(st.pl, n, pre_cell.pl)
        out = make_wrapper(en, cell.cls, n)
    else:
        n = cell.fields["node"]
        out = cell
    t = row.fields["__items_cells"]
    m = row.fields["_rmap"]
    row.fields["__items_cells"] = cat_term(t, LConc([n]))
    last = vlen(vrow, "cells") - 1
    row.fields["_rmap"] = ListV(cat_term(m.term, LConc([simp_int(last + rep)])))
    out.fields["x"] = simp_int(last + rep)
    out.fields["y"] = row.fields.get("y")
    return out


contract(
    "odfdo.row:Row.append_cell",
    sig=[dict(self=_row(), cell=_cell(), clone=Bool, _repeated=OptInt),
         dict(self=_row(), cell=NoneT, clone=Bool, _repeated=NoneT)],
    requires=lambda a: S.And(inv_vault(a.self, "cells"),
                             S.Or(a.cell is None, lambda: S.And(detached(a.self, "cells", a.cell), exists_before(a.cell),
                                                                S.Or(a._repeated is None, lambda: a._repeated == a.cell.rep)))),
    ensures=[
        Clause("inv", P_ROW, lambda a, r, p: inv_vault(p.self, "cells")),
        Clause("len", {"C01", "C07"}, lambda a, r, p: vlen(p.self, "cells") == vlen(a.self, "cells") + (
            1 if a.cell is None else a.cell.rep)),
        Clause("view", {"C01", "C02"}, lambda a, r, p: pointwise(
            a.self, p.self, "cells",
            lambda pos, old, len0: S.If(pos < vlen(a.self, "cells"), old, EMPTY(a.self) if a.cell is None else a.cell.pl))),
        Clause("stamp", {"C08"}, lambda a, r, p: S.And(r.x == vlen(p.self, "cells") - 1, S.same_or_eq(r.y, a.self.y))),
        Clause("arg-untouched", {"C08", "C10"}, lambda a, r, p: S.Or(a.cell is None, lambda: S.And(
            p.cell.rep == a.cell.rep, p.cell.pl == a.cell.pl))),
    ],
    call=hook_append_cell,
    concretize=concretize_vault, gen=gen_vault,
)


# ------------------------------------------------------------------ Row.set_cell / insert_cell / delete_cell (int positions)
def _norm_x(a):
    """the position the call addresses (x >= 0; negative x is the C19 wrap, proved in translate_from_any)"""
    return a.x


def _set_cell_view(a, r, p):
    w0 = vlen(a.self, "cells")
    rep = 1 if a.cell is None else a.cell.rep
    pl = EMPTY(a.self) if a.cell is None else a.cell.pl
    x = a.x
    return pointwise(a.self, p.self, "cells",
                     lambda pos, old, len0: S.If(S.And(x <= pos, pos < x + rep), pl, S.If(pos < w0, old, EMPTY(a.self))))


def _set_cell_len(a, r, p):
    w0 = vlen(a.self, "cells")
    rep = 1 if a.cell is None else a.cell.rep
    end = a.x + rep
    return vlen(p.self, "cells") == S.If(end > w0, end, w0)


def _row_fits(a):
    if a.cell is None:
        return True
    return S.Or(a.x >= vlen(a.self, "cells"), lambda: fits(a.self, "_rmap", a.x, a.cell.rep))


_CELL_REQ = lambda a: S.And(inv_vault(a.self, "cells"), a.x >= 0,  # noqa: E731
                            S.Or(a.cell is None, lambda: S.And(detached(a.self, "cells", a.cell), exists_before(a.cell))))

contract(
    "odfdo.row:Row.set_cell",
    sig=[dict(self=_row(), x=Int, cell=_cell(), clone=Bool), dict(self=_row(), x=Int, cell=NoneT, clone=Bool)],
    requires=_CELL_REQ,
    cases={"fits": _row_fits, "overlap": lambda a: S.Not(_row_fits(a))},
    ensures=[
        Clause("inv", P_ROW, lambda a, r, p: inv_vault(p.self, "cells")),
        Clause("view", {"C01", "C02"}, _set_cell_view),
        Clause("len", {"C01", "C07"}, _set_cell_len),
        Clause("stamp", {"C08"}, lambda a, r, p: S.And(S.same_or_eq(r.x, a.x) if False else True)),
    ],
    concretize=concretize_vault, gen=gen_vault,
)


def _ins_cell_view(a, r, p):
    w0 = vlen(a.self, "cells")
    rep = 1 if a.cell is None else a.cell.rep
    pl = EMPTY(a.self) if a.cell is None else a.cell.pl
    x = a.x
    # inside the row: later cells shift right by rep; at or beyond the end: padded with empty cells
    return pointwise(a.self, p.self, "cells",
                     lambda pos, old, len0: S.If(S.And(x <= pos, pos < x + rep), pl,
                                                 S.If(S.And(pos >= w0, x >= w0), EMPTY(a.self), old)),
                     src=lambda pos: S.If(S.Or(pos < x, x >= w0), pos, pos - rep))


contract(
    "odfdo.row:Row.insert_cell",
    sig=[dict(self=_row(), x=Int, cell=_cell(), clone=Bool), dict(self=_row(), x=Int, cell=NoneT, clone=Bool)],
    requires=_CELL_REQ,
    ensures=[
        Clause("inv", P_ROW, lambda a, r, p: inv_vault(p.self, "cells")),
        Clause("view", {"C01", "C02"}, _ins_cell_view),
        Clause("len", {"C01", "C07"}, lambda a, r, p: vlen(p.self, "cells") == S.If(
            a.x >= vlen(a.self, "cells"), a.x, vlen(a.self, "cells")) + (1 if a.cell is None else a.cell.rep)),
    ],
    concretize=concretize_vault, gen=gen_vault,
)

contract(
    "odfdo.row:Row.delete_cell",
    sig=dict(self=_row(), x=Int),
    requires=lambda a: S.And(inv_vault(a.self, "cells"), a.x >= 0),
    ensures=[
        Clause("inv", P_ROW, lambda a, r, p: inv_vault(p.self, "cells")),
        Clause("view", {"C01", "C02"}, lambda a, r, p: pointwise(
            a.self, p.self, "cells", lambda pos, old, len0: old, src=lambda pos: S.If(pos < a.x, pos, pos + 1))),
        Clause("len", {"C01", "C07"}, lambda a, r, p: vlen(p.self, "cells") == S.If(
            a.x < vlen(a.self, "cells"), vlen(a.self, "cells") - 1, vlen(a.self, "cells"))),
    ],
    concretize=concretize_vault, gen=gen_vault,
)


# ------------------------------------------------------------------ getters (C08) and clone (C10)
def at_content(v, kind, x):
    """content at position x of the vault view (x < len), as a function: forall i located -> pl"""
    raise NotImplementedError


def _content_is(v, mname, x, value):
    """forall i. located(M, i, x) => pl(seq[i]) == value"""
    kind = KIND_OF_MAP[mname]
    if isinstance(v, VaultView):
        m, s_ = v.map(mname), v.seq(kind)
        i = z3.FreshInt("i")
        return z3.ForAll([i], z3.Implies(
            z3.And(0 <= i, i < zint(m.n), x <= m[i], z3.Implies(i > 0, m[i - 1] < x)), v.pl_of(s_[i]) == value))
    cells = v.expand(kind)
    return 0 <= x < len(cells) and cells[x] == value


def _xml_unchanged(a, p, kind="cells"):
    """the XML side of the vault is untouched: same nodes, repeats and contents"""
    if isinstance(a, VaultView):
        s0, s1 = a.seq(kind), p.seq(kind)
        i = z3.FreshInt("i")
        return z3.And(lift(s0.n) == lift(s1.n),
                      z3.ForAll([i], z3.Implies(z3.And(0 <= i, i < zint(s0.n)),
                                                z3.And(s1[i] == s0[i], p.rep_of(s0[i]) == a.rep_of(s0[i]),
                                                       p.pl_of(s0[i]) == a.pl_of(s0[i])))))
    return a.snap[kind]["ids"] == p.snap[kind]["ids"] and a.snap[kind]["reps"] == p.snap[kind]["reps"] and \
        a.snap[kind]["pls"] == p.snap[kind]["pls"]


def _map_unchanged(a, p, mname="_rmap"):
    if isinstance(a, VaultView):
        return S.list_eq(p.map(mname), a.map(mname))
    kind = KIND_OF_MAP[mname]
    return a.snap[kind]["map"] == p.snap[kind]["map"]


contract(
    "odfdo.row:Row._get_cell2_base",
    sig=dict(self=_row(), x=Int),
    requires=lambda a: S.And(inv_vault(a.self, "cells"), a.x >= 0),
    ensures=[
        Clause("none-outside", {"C08"}, lambda a, r, p: S.Iff(r is None, a.x >= vlen(a.self, "cells"))),
        Clause("content", {"C08", "C01", "C02"}, lambda a, r, p: S.Or(r is None, lambda: _content_is(a.self, "_rmap", a.x, r.pl))),
        Clause("frame", {"C08", "C15"}, lambda a, r, p: S.And(_xml_unchanged(a.self, p.self), _map_unchanged(a.self, p.self))),
        Clause("inv", P_ROW, lambda a, r, p: inv_vault(p.self, "cells")),
    ],
    concretize=concretize_vault, gen=gen_vault,
)

contract(
    "odfdo.row:Row._get_cell2",
    sig=dict(self=_row(), x=Int, clone=Bool),
    requires=lambda a: S.And(inv_vault(a.self, "cells"), a.x >= 0),
    inline={"odfdo.row:Row._get_cell2_base"},
    ensures=[
        Clause("content", {"C08", "C01", "C02"}, lambda a, r, p: S.If(
            a.x >= vlen(a.self, "cells"), lambda: r.pl == EMPTY(a.self), lambda: _content_is(a.self, "_rmap", a.x, r.pl))),
        Clause("detached-copy", {"C08", "C10"}, lambda a, r, p: S.Implies(
            S.Or(a.clone, a.x >= vlen(a.self, "cells")), lambda: is_fresh(r, a.self))),
        Clause("frame", {"C08", "C15"}, lambda a, r, p: S.And(_xml_unchanged(a.self, p.self), _map_unchanged(a.self, p.self))),
        Clause("inv", P_ROW, lambda a, r, p: inv_vault(p.self, "cells")),
    ],
    concretize=concretize_vault, gen=gen_vault,
)

contract(
    "odfdo.row:Row.get_cell",
    sig=dict(self=_row(), x=Int, clone=Bool),
    requires=lambda a: S.And(inv_vault(a.self, "cells"), a.x >= 0),
    inline={"odfdo.row:Row._get_cell2_base", "odfdo.row:Row._get_cell2"},
    ensures=[
        Clause("content", {"C08", "C01", "C02"}, lambda a, r, p: S.If(
            a.x >= vlen(a.self, "cells"), lambda: r.pl == EMPTY(a.self), lambda: _content_is(a.self, "_rmap", a.x, r.pl))),
        Clause("stamp", {"C08"}, lambda a, r, p: S.And(S.same_or_eq(r.x, a.x), S.same_or_eq(r.y, a.self.y))),
        Clause("detached-copy", {"C08", "C10"}, lambda a, r, p: S.Implies(
            S.Or(a.clone, a.x >= vlen(a.self, "cells")), lambda: is_fresh(r, a.self))),
        Clause("frame", {"C08", "C15"}, lambda a, r, p: S.And(_xml_unchanged(a.self, p.self), _map_unchanged(a.self, p.self))),
        Clause("inv", P_ROW, lambda a, r, p: inv_vault(p.self, "cells")),
    ],
    concretize=concretize_vault, gen=gen_vault,
)


# ------------------------------------------------------------------ make_cache_map, _compute_row_cache, Row.rstrip (C17, C02)
from pyvc.lists import LLeaf, LRev, LWrap  # noqa: E402
from pyvc.spec import IntList  # noqa: E402


def _pairs_maker(en, name, **kw):
    """idx_repeated_seq: [(0, r0), (1, r1), ...] of symbolic length, as a list of tuples"""
    n = z3.Int(name + ".len")
    en.pc.append(n >= 0)
    reps = LLeaf(z3.Array(name + ".reps", z3.IntSort(), z3.IntSort()), n, name)
    idx = z3.FreshInt("ix")

    class _Pairs(L.LT):
        def length(self_):
            return n

        def sel(self_, j):
            return (L.simp_int(L.zint(j)), reps.sel(j))
    lv = ListV(_Pairs())
    lv.reps = reps
    return lv


def _mcm_post(a, r, p):
    reps = getattr(getattr(a.idx_repeated_seq, "ref", None), "reps", None)
    if reps is None:
        seq = a.idx_repeated_seq
        exp, acc = [], -1
        for _i, rep in seq:
            acc += rep or 1
            exp.append(acc)
        return list(r) == exp
    n = reps.length()
    return z3.And(lift(r.n) == n,
                  S.forall(lambda i: r[i] - z3.If(i > 0, r[i - 1], -1) == reps.sel(i), 0, n, pats=lambda i: [r[i]]))


def _mcm_inv(a, v):
    reps = a.idx_repeated_seq.ref.reps
    c, k = v.cache_amp, v.k_
    return z3.And(lift(c.n) == k,
                  S.forall(lambda i: c[i] - z3.If(i > 0, c[i - 1], -1) == reps.sel(i), 0, k, pats=lambda i: [c[i]]),
                  strictly_inc(c))


def strictly_inc(m):
    from pyvc.spec import strictly_increasing
    return strictly_increasing(m)


def _reps_ok(a):
    v = a.idx_repeated_seq
    if hasattr(v, "ref") and hasattr(v.ref, "reps"):
        reps = v.ref.reps
        return S.forall(lambda i: reps.sel(i) >= 1, 0, reps.length(), pats=lambda i: [reps.sel(i)])
    return all(i == j and (r or 1) >= 1 for j, (i, r) in enumerate(v))


contract(
    "odfdo.element_cached:make_cache_map",
    sig=dict(idx_repeated_seq=Model("PairList", _pairs_maker)),
    requires=_reps_ok,
    ensures=[Clause("prefix-sums", {"C02", "C01", "C07", "C17"}, _mcm_post),
             Clause("wf", {"C02", "C07"}, lambda a, r, p: strictly_inc(r) if isinstance(r, LView) else True)],
    loops={0: Inv(_mcm_inv, modifies=["cache_amp", "odf_idx", "repeated"])},
    result=IntList,
    gen=lambda con, sc, count, seed: ({"idx_repeated_seq": [(i, r) for i, r in enumerate(reps)]}
                                      for reps in ([], [1], [2, 1], [1, 3, 2], [5], [1, 1, 1, 4])),
    note="a fresh parse builds its maps with this function: the result is the prefix sums of the repeats",
)

EMPTY_CELL = z3.Function("cell.is_empty", z3.IntSort(), z3.BoolSort(), z3.BoolSort())   # (content, aggressive)


def _h_get_cells(en, con, vals, site):
    row = vals["self"]
    t = row.fields["__items_cells"]
    return ListV(LWrap(t, lambda node: make_wrapper(en, item_classes()["cells"], lift(node))))


def _h_is_empty(en, con, vals, site):
    st = xstate(en)
    agg = vals.get("aggressive", False)
    return EMPTY_CELL(z3.Select(st.pl, vals["self"].fields["node"]), lift(agg) if not isinstance(agg, z3.ExprRef) else agg)


def _h_elements_repeated_sequence(en, con, vals, site):
    from specs.vault import _kind_of_scheme
    vault = vals["self"]
    kind = _kind_of_scheme(vals["xpath_instance"])
    st = xstate(en)
    t = vault.fields["__items_" + kind]
    x = z3.FreshInt("x")
    reps = L.LMap(t, x, z3.Select(st.rep, x))

    class _Pairs(L.LT):
        def length(self_):
            return t.length()

        def sel(self_, j):
            return (L.simp_int(L.zint(j)), reps.sel(j))
    lv = ListV(_Pairs())
    lv.reps = reps
    return lv


_EXTR = dict(trusted=True, sig={})
contract("odfdo.row:Row._get_cells", call=_h_get_cells, note="the cell nodes of the row in document order (XPath, lxml)", **_EXTR)
contract("odfdo.cell:Cell.is_empty", call=_h_is_empty, note="emptiness is a function of the cell's content (abstract predicate)", **_EXTR)
contract("odfdo.element:Element.elements_repeated_sequence", call=_h_elements_repeated_sequence,
         note="(index, repeat) of the item nodes in document order (XPath + attribute read, lxml)", **_EXTR)


def _rstrip_inv(a, v):
    s0 = a.self.seq("cells")
    cur = v.self.seq("cells")
    n, k = zint(s0.n), v.k_
    i = z3.FreshInt("i")
    return z3.And(
        lift(cur.n) == n - k,
        S.forall(lambda j: cur[j] == s0[j], 0, n - k, pats=lambda j: [cur[j]]),
        S.forall(lambda j: EMPTY_CELL(a.self.pl_of(s0[j]), lift(a.aggressive)), n - k, n, pats=lambda j: [s0[j]]),
    )


def _rstrip_post(a, r, p):
    if not isinstance(a.self, VaultView):
        cells0, cells1 = a.self.snap["cells"], p.self.snap["cells"]
        m = len(cells1["ids"])
        return cells1["ids"] == cells0["ids"][:m] and cells1["reps"] == cells0["reps"][:m] and cells1["pls"] == cells0["pls"][:m]
    s0, s1 = a.self.seq("cells"), p.self.seq("cells")
    m = zint(s1.n)
    return z3.And(
        m <= zint(s0.n),
        S.forall(lambda j: z3.And(s1[j] == s0[j], p.self.rep_of(s0[j]) == a.self.rep_of(s0[j]),
                                  p.self.pl_of(s0[j]) == a.self.pl_of(s0[j])), 0, m, pats=lambda j: [s1[j]]),
        # only empty cells are removed, and the removal is maximal
        S.forall(lambda j: EMPTY_CELL(a.self.pl_of(s0[j]), lift(a.aggressive)), m, s0.n, pats=lambda j: [s0[j]]),
        z3.Or(m == 0, z3.Not(EMPTY_CELL(a.self.pl_of(s0[m - 1]), lift(a.aggressive)))),
    )


contract(
    "odfdo.row:Row.rstrip",
    sig=dict(self=_row(), aggressive=Bool),
    requires=lambda a: inv_vault(a.self, "cells"),
    inline={"odfdo.row:Row._compute_row_cache"},
    ensures=[
        Clause("keeps-prefix", {"C17"}, _rstrip_post),
        Clause("inv", {"C17", "C02", "C07"}, lambda a, r, p: inv_vault(p.self, "cells")),
        Clause("cache-reset", {"C02"}, lambda a, r, p: cache_reset(p.self, "_rmap")),
    ],
    loops={0: Inv(_rstrip_inv, modifies=["self", "cell"])},
    concretize=concretize_vault, gen=gen_vault,
    note="removes exactly the maximal suffix of empty cells; every remaining cell keeps node, repeat and content",
)
